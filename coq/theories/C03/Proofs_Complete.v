(* C03 - face / edge completion (mesh_data.py) establishes the well-formedness the incidence theorems assume:
   every triangle of every cell is a face exactly once (in the convention order of the first cell that has it),
   every side of every face is an edge exactly once. *)
From Coq Require Import String List Arith Bool ZArith Lia Permutation.
Import ListNotations.
Require Import MV.Lib.Base MV.C03.Gen MV.C03.Model MV.C03.Proofs_Base MV.C03.Proofs_Simplex MV.C03.Proofs_Incidence.

Ltac perm :=
  match goal with
  | |- Permutation [] [] => constructor
  | |- Permutation (?a :: ?l) ?r =>
      first [ apply (@Permutation_cons_app _ l [] _ a)
            | apply (@Permutation_cons_app _ l [_] _ a)
            | apply (@Permutation_cons_app _ l [_; _] _ a)
            | apply (@Permutation_cons_app _ l [_; _; _] _ a) ]; cbn [app]; perm
  end.

Lemma NoDup_app_intro' {A} (l1 l2 : list A) :
  NoDup l1 -> NoDup l2 -> (forall x, In x l1 -> In x l2 -> False) -> NoDup (l1 ++ l2).
Proof.
  induction l1 as [|a t IH]; simpl; intros N1 N2 D; [assumption|].
  inversion N1 as [|? ? Na Nt]; subst. constructor.
  - intros I. apply in_app_or in I. destruct I as [I|I]; [contradiction|]. apply (D a); [now left|assumption].
  - apply IH; try assumption. intros x X1 X2. apply (D x); [now right|assumption].
Qed.

(* ------------------------------------------------------------------ dedup_by *)
Lemma seen_In k seen : existsb (leqb k) seen = true <-> In k seen.
Proof.
  rewrite existsb_exists. split.
  - intros [x [Hx E]]. apply leqb_eq in E. now subst.
  - intros H. exists k. split; [assumption|apply leqb_refl].
Qed.

Lemma dedup_incl kf seen l f : In f (dedup_by kf seen l) -> In f l.
Proof.
  revert seen. induction l as [|x t IH]; simpl; intros seen H; [assumption|].
  destruct (existsb (leqb (kf x)) seen).
  - right. eapply IH; eassumption.
  - destruct H as [<-|H]; [now left|right]. eapply IH; eassumption.
Qed.

Lemma dedup_fresh kf seen l f : In f (dedup_by kf seen l) -> ~ In (kf f) seen.
Proof.
  revert seen. induction l as [|x t IH]; simpl; intros seen H; [contradiction|].
  destruct (existsb (leqb (kf x)) seen) eqn:E.
  - eapply IH; eassumption.
  - destruct H as [<-|H].
    + intros I. apply seen_In in I. congruence.
    + apply IH in H. intros I. apply H. now right.
Qed.

Lemma dedup_NoDup kf seen l : NoDup (map kf (dedup_by kf seen l)).
Proof.
  revert seen. induction l as [|x t IH]; simpl; intros seen; [constructor|].
  destruct (existsb (leqb (kf x)) seen); [apply IH|].
  simpl. constructor; [|apply IH].
  intros I. apply in_map_iff in I. destruct I as [f [E Hf]].
  apply dedup_fresh in Hf. apply Hf. left. congruence.
Qed.

Lemma dedup_covers kf seen l f :
  In f l -> In (kf f) seen \/ In (kf f) (map kf (dedup_by kf seen l)).
Proof.
  revert seen. induction l as [|x t IH]; simpl; intros seen H; [contradiction|].
  destruct (existsb (leqb (kf x)) seen) eqn:E.
  - destruct H as [<-|H]; [left; now apply seen_In|]. now apply IH.
  - destruct H as [<-|H]; [right; now left|].
    destruct (IH (kf x :: seen) H) as [[Eq|I]|I].
    + right. left. exact Eq.
    + now left.
    + right. now right.
Qed.

(* ------------------------------------------------------------------ the convention tables (Gen.v) *)
Lemma tet_row_perm_completion v0 v1 v2 v3 i :
  i < 4 -> Permutation (nth i (tet_faces_completion v0 v1 v2 v3) []) (rm i [v0; v1; v2; v3]).
Proof.
  intros H. destruct i as [|[|[|[|]]]]; try lia; cbv; perm.
Qed.
Lemma tet_row_perm_cellfaces v0 v1 v2 v3 i :
  i < 4 -> Permutation (nth i (tet_faces_cellfaces v0 v1 v2 v3) []) (rm i [v0; v1; v2; v3]).
Proof.
  intros H. destruct i as [|[|[|[|]]]]; try lia; cbv; perm.
Qed.
Lemma tet_row_perm_adjacent v0 v1 v2 v3 i :
  i < 4 -> Permutation (nth i (tet_faces_adjacent v0 v1 v2 v3) []) (rm i [v0; v1; v2; v3]).
Proof.
  intros H. destruct i as [|[|[|[|]]]]; try lia; cbv; perm.
Qed.
Lemma tet_table_lengths v0 v1 v2 v3 :
  length (tet_faces_completion v0 v1 v2 v3) = 4 /\ length (tet_faces_cellfaces v0 v1 v2 v3) = 4
  /\ length (tet_faces_adjacent v0 v1 v2 v3) = 4.
Proof. repeat split; reflexivity. Qed.

Lemma cell_ok_shape C : cell_ok C -> exists v0 v1 v2 v3, C = [v0; v1; v2; v3].
Proof.
  intros [L _]. destruct C as [|v0 [|v1 [|v2 [|v3 [|? ?]]]]]; try discriminate. now exists v0, v1, v2, v3.
Qed.

Lemma tet_faces_nth C i : cell_ok C -> i < 4 ->
  In (nth i (tet_faces C) []) (tet_faces C) /\ Permutation (nth i (tet_faces C) []) (rm i C).
Proof.
  intros H Hi. destruct (cell_ok_shape C H) as [v0 [v1 [v2 [v3 ->]]]]. cbn [tet_faces]. split.
  - apply nth_In. pose proof (tet_table_lengths v0 v1 v2 v3) as [L _]. lia.
  - now apply tet_row_perm_completion.
Qed.

Lemma tet_faces_in C F : cell_ok C -> In F (tet_faces C) -> exists i, i < 4 /\ Permutation F (rm i C).
Proof.
  intros H I. destruct (cell_ok_shape C H) as [v0 [v1 [v2 [v3 ->]]]]. cbn [tet_faces] in I.
  destruct (In_nth _ _ [] I) as [i [Hi E]].
  pose proof (tet_table_lengths v0 v1 v2 v3) as [L _]. rewrite L in Hi.
  exists i. split; [assumption|]. rewrite <- E. now apply tet_row_perm_completion.
Qed.

(* ------------------------------------------------------------------ faces *)
(* declared faces: pairwise distinct triangles *)
Definition faces0_ok (faces0 : list (list nat)) : Prop := NoDup (map key faces0) /\ Forall face_ok faces0.

Theorem complete_faces_wf faces0 cells :
  Forall cell_ok cells -> faces0_ok faces0 -> faces_wf cells (complete_faces faces0 cells).
Proof.
  intros HC [N0 S0]. unfold complete_faces. constructor.
  - rewrite map_app. apply NoDup_app_intro'; [assumption | apply dedup_NoDup |].
    intros k H1 H2. apply in_map_iff in H2. destruct H2 as [F [<- HF]]. apply dedup_fresh in HF. contradiction.
  - apply Forall_app. split; [assumption|].
    apply Forall_forall. intros F HF. apply dedup_incl in HF. apply in_flat_map in HF.
    destruct HF as [C [HCin HF]]. pose proof (proj1 (Forall_forall _ _) HC C HCin) as OK.
    destruct (tet_faces_in C F OK HF) as [i [Hi P]]. destruct OK as [L N]. split.
    + rewrite (Permutation_length P). pose proof (rm_length i C). lia.
    + apply (Permutation_NoDup (Permutation_sym P)). now apply rm_NoDup.
  - intros C i HCin Hi. pose proof (proj1 (Forall_forall _ _) HC C HCin) as OK.
    destruct (tet_faces_nth C i OK Hi) as [I P].
    rewrite <- (key_of_perm _ _ P). rewrite map_app. apply in_or_app.
    destruct (dedup_covers key (map key faces0) (flat_map tet_faces cells) (nth i (tet_faces C) [])) as [H|H];
      [apply in_flat_map; now exists C | now left | now right].
Qed.

(* every face is a declared one or a convention-order face of some cell (the first one that has it) *)
Theorem complete_faces_origin faces0 cells F :
  In F (complete_faces faces0 cells) -> In F faces0 \/ exists C, In C cells /\ In F (tet_faces C).
Proof.
  unfold complete_faces. intros H. apply in_app_or in H. destruct H as [H|H]; [now left|right].
  apply dedup_incl in H. now apply in_flat_map in H.
Qed.

(* ------------------------------------------------------------------ edges *)
Lemma face_ok_shape F : face_ok F -> exists a b c, F = [a; b; c].
Proof. intros [L _]. destruct F as [|a [|b [|c [|? ?]]]]; try discriminate. now exists a, b, c. Qed.

(* the cyclic side i of a triangle is the facet opposite vertex (i+2) mod 3 *)
Lemma side_perm a b c i : i < 3 ->
  Permutation [nth i [a; b; c] 0; nth ((i + 1) mod 3) [a; b; c] 0] (rm ((i + 2) mod 3) [a; b; c]).
Proof. intros H. destruct i as [|[|[|]]]; try lia; cbv; perm. Qed.

Lemma face_sides_nth F i : face_ok F -> i < 3 ->
  In (key (rm i F)) (face_sides F).
Proof.
  intros H Hi. destruct (face_ok_shape F H) as [a [b [c ->]]]. unfold face_sides. cbn [length].
  apply in_map_iff. exists ((i + 1) mod 3). split.
  - apply key_of_perm.
    replace (rm i [a; b; c]) with (rm (((i + 1) mod 3 + 2) mod 3) [a; b; c])
      by (destruct i as [|[|[|]]]; try lia; reflexivity).
    apply side_perm. apply Nat.mod_upper_bound. lia.
  - apply in_seq. pose proof (Nat.mod_upper_bound (i + 1) 3). lia.
Qed.

Lemma face_sides_in F E : face_ok F -> In E (face_sides F) -> exists i, i < 3 /\ E = key (rm i F).
Proof.
  intros H I. destruct (face_ok_shape F H) as [a [b [c ->]]]. unfold face_sides in I. cbn [length] in I.
  apply in_map_iff in I. destruct I as [i [<- Hi]]. apply in_seq in Hi.
  exists ((i + 2) mod 3). split; [apply Nat.mod_upper_bound; lia|].
  apply key_of_perm. apply side_perm. lia.
Qed.

(* declared edges: pairwise distinct pairs of distinct vertices *)
Definition edges0_ok (edges0 : list (list nat)) : Prop := NoDup (map key edges0) /\ Forall edge_ok edges0.

(* every edge is a declared one (sorted) or a sorted side of some face *)
Lemma complete_edges_origin edges0 faces E :
  Forall face_ok faces -> In E (complete_edges edges0 faces) ->
  In E (map key edges0) \/ exists F i, In F faces /\ i < 3 /\ E = key (rm i F).
Proof.
  intros HF HE. unfold complete_edges in HE. apply in_app_or in HE. destruct HE as [HE|HE]; [now left|right].
  apply dedup_incl in HE. apply in_flat_map in HE. destruct HE as [F [HFin HE]].
  destruct (face_sides_in F E (proj1 (Forall_forall _ _) HF F HFin) HE) as [i [Hi ->]]. now exists F, i.
Qed.

Theorem complete_edges_wf edges0 faces :
  Forall face_ok faces -> edges0_ok edges0 -> edges_wf faces (complete_edges edges0 faces).
Proof.
  intros HF [N0 S0]. unfold complete_edges.
  set (D := dedup_by (fun e => e) (map key edges0) (flat_map face_sides faces)).
  assert (SH : forall E, In E D -> exists F i, In F faces /\ i < 3 /\ E = key (rm i F)).
  { intros E HE. apply dedup_incl in HE. apply in_flat_map in HE. destruct HE as [F [HFin HE]].
    destruct (face_sides_in F E (proj1 (Forall_forall _ _) HF F HFin) HE) as [i [Hi ->]]. now exists F, i. }
  assert (KD : map key D = D).
  { rewrite <- (map_id D) at 2. apply map_ext_in. intros E HE. destruct (SH E HE) as [F [i [_ [_ ->]]]]. apply key_idem. }
  assert (KK : map key (map key edges0) = map key edges0).
  { rewrite map_map. apply map_ext. intros E. apply key_idem. }
  constructor.
  - rewrite map_app, KK, KD. apply NoDup_app_intro'; [assumption | |].
    + rewrite <- (map_id D). apply dedup_NoDup.
    + intros k H1 H2. apply dedup_fresh in H2. contradiction.
  - apply Forall_app. split.
    + apply Forall_forall. intros E HE. apply in_map_iff in HE. destruct HE as [E0 [<- HE0]].
      pose proof (proj1 (Forall_forall _ _) S0 E0 HE0) as [L N]. split.
      * now rewrite <- (Permutation_length (key_perm E0)).
      * now apply (Permutation_NoDup (key_perm E0)).
    + apply Forall_forall. intros E HE. destruct (SH E HE) as [F [i [HFin [Hi ->]]]].
      pose proof (proj1 (Forall_forall _ _) HF F HFin) as [L N]. split.
      * rewrite <- (Permutation_length (key_perm _)). pose proof (rm_length i F). lia.
      * apply (Permutation_NoDup (key_perm _)). now apply rm_NoDup.
  - intros F i HFin Hi. pose proof (proj1 (Forall_forall _ _) HF F HFin) as OK.
    rewrite map_app, KK, KD. apply in_or_app.
    destruct (dedup_covers (fun e => e) (map key edges0) (flat_map face_sides faces) (key (rm i F))) as [H|H].
    + apply in_flat_map. exists F. split; [assumption|]. now apply face_sides_nth.
    + now left.
    + right. fold D in H. now rewrite map_id in H.
Qed.

(* whatever edges are declared - both directions, repeated, invalid ones mixed in - what _prepare_edges keeps is well formed *)
Lemma norm_edges_ok nv edges0 : edges0_ok (norm_edges nv edges0).
Proof.
  unfold norm_edges. split; [apply dedup_NoDup|].
  apply Forall_forall. intros E HE. apply dedup_incl in HE. apply filter_In in HE. destruct HE as [_ V].
  destruct E as [|a [|b [|? ?]]]; try discriminate. cbn [edge_valid] in V.
  apply andb_true_iff in V. destruct V as [V _]. apply andb_true_iff in V. destruct V as [V _].
  apply negb_true_iff, Nat.eqb_neq in V. split; [reflexivity|].
  constructor; [intros [H|[]]; now apply V|constructor; [intros []|constructor]].
Qed.
