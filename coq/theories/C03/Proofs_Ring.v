(* C03 - rotational order around an edge (_sort_edge_neighborhoods, after the repair e464500): the two pivot walks never
   raise nor run out of fuel; when they reached every cell of the edge the final `list.sort(key=...)` lists the cells as
   backward walk reversed, start, forward walk - consecutive cells share a face through the edge; otherwise the lists
   are left unsorted. *)
From Coq Require Import String List Arith Bool ZArith Lia Permutation Sorted.
Import ListNotations.
Require Import MV.Lib.Base MV.C03.Gen MV.C03.Model MV.C03.Run MV.C03.Proofs_Base MV.C03.Proofs_Simplex
        MV.C03.Proofs_Incidence MV.C03.Proofs_Complete MV.C03.Proofs_Incidence2 MV.C03.Proofs_Sort.
Local Open Scope nat_scope.

Lemma NoDup_app_intro {A} (l1 l2 : list A) :
  NoDup l1 -> NoDup l2 -> (forall x, In x l1 -> In x l2 -> False) -> NoDup (l1 ++ l2).
Proof.
  induction l1 as [|a t IH]; simpl; intros N1 N2 D; [assumption|].
  inversion N1 as [|? ? Na Nt]; subst. constructor.
  - intros I. apply in_app_or in I. destruct I as [I|I]; [contradiction|]. apply (D a); [now left|assumption].
  - apply IH; try assumption. intros x X1 X2. apply (D x); [now right|assumption].
Qed.

Lemma ofs_not_two_spec n : ofs_not_two n = false <-> n = 2.
Proof. unfold ofs_not_two. rewrite negb_false_iff. apply Nat.eqb_eq. Qed.

Lemma other_face_side_In f2c c f c' :
  other_face_side f2c c f = Some c' -> In c (F2C f2c f) /\ In c' (F2C f2c f) /\ length (F2C f2c f) = 2.
Proof.
  unfold other_face_side. destruct (ofs_not_two (length (F2C f2c f))) eqn:E; [discriminate|].
  apply ofs_not_two_spec in E.
  destruct (F2C f2c f) as [|c1 [|c2 [|? ?]]]; try discriminate.
  destruct (c =? c1) eqn:E1; [|destruct (c =? c2) eqn:E2; [|discriminate]]; intros H; inversion H; subst.
  - apply Nat.eqb_eq in E1. subst. split; [now left|]. split; [right; now left|reflexivity].
  - apply Nat.eqb_eq in E2. subst. split; [right; now left|]. split; [now left|reflexivity].
Qed.

Section Walk.
  Variables (cells faces : list (list nat)) (f2c : list (list nat)).
  Let n := length cells.
  Hypothesis Hbound : forall f x, In x (F2C f2c f) -> x < n.

  (* one step of the rotation: from cell x through the face on {A,B,p} to the cell on the other side *)
  Definition ring_step (A B x y f : nat) : Prop :=
    (exists p, face_id faces [A; B; p] = Some f) /\ other_face_side f2c x f = Some y.

  (* cs is reached from c by successive steps through the faces fs; one more face closes the walk *)
  Inductive ring_chain (A B : nat) : nat -> list nat -> list nat -> Prop :=
  | rc_end c f : (exists p, face_id faces [A; B; p] = Some f) -> ring_chain A B c [] [f]
  | rc_step c c' f cs fs : ring_step A B c c' f -> ring_chain A B c' cs fs -> ring_chain A B c (c' :: cs) (f :: fs).

  Lemma walk_spec fuel A B : forall seen c p cs fs,
    walk cells faces fuel f2c A B seen c p = Ok (cs, fs) ->
    ring_chain A B c cs fs /\ NoDup cs /\ (forall x, In x cs -> ~ In x seen /\ x < n) /\ length fs = S (length cs).
  Proof.
    induction fuel as [|k IH]; intros seen c p cs fs H; [discriminate|].
    cbn [walk] in H. destruct (face_id faces [A; B; p]) as [f|] eqn:Ef; [|discriminate].
    assert (EX : exists p, face_id faces [A; B; p] = Some f) by now exists p.
    destruct (other_face_side f2c c f) as [c'|] eqn:Eo.
    - destruct (memb c' seen) eqn:Em.
      + inversion H; subst. split; [now constructor|]. split; [constructor|]. split; [intros x []|reflexivity].
      + destruct (others (nth c' cells []) [A; B; p]) as [|q rest] eqn:Eq; [discriminate|].
        destruct (walk cells faces k f2c A B (c' :: seen) c' q) as [[cs' fs']| |] eqn:Ew; try discriminate.
        inversion H; subst. apply IH in Ew. destruct Ew as [RC [ND [FR LN]]].
        split; [apply rc_step; [split; assumption|assumption]|].
        split; [constructor; [|assumption]; intros I; apply FR in I; apply (proj1 I); now left|].
        split; [|cbn [length]; now rewrite LN].
        intros x [<-|Hx].
        * split; [now apply memb_false|]. apply other_face_side_In in Eo. apply (Hbound f). tauto.
        * destruct (FR x Hx) as [N L]. split; [|assumption]. intros I. apply N. now right.
    - inversion H; subst. split; [now constructor|]. split; [constructor|]. split; [intros x []|reflexivity].
  Qed.

  Lemma pigeon (l : list nat) : NoDup l -> (forall x, In x l -> x < n) -> length l <= n.
  Proof.
    intros ND B. rewrite <- (seq_length n 0). apply NoDup_incl_length; [assumption|].
    intros x Hx. apply in_seq. specialize (B x Hx). lia.
  Qed.

  (* the fuel |cells|+1 is never what stops a walk *)
  Lemma walk_no_fuel fuel A B : forall seen c p,
    NoDup seen -> (forall x, In x seen -> x < n) -> n < fuel + length seen ->
    walk cells faces fuel f2c A B seen c p <> Fuel.
  Proof.
    induction fuel as [|k IH]; intros seen c p ND BD L.
    - exfalso. pose proof (pigeon seen ND BD). lia.
    - cbn [walk]. destruct (face_id faces [A; B; p]) as [f|]; [|discriminate].
      destruct (other_face_side f2c c f) as [c'|] eqn:Eo; [|discriminate].
      destruct (memb c' seen) eqn:Em; [discriminate|].
      destruct (others (nth c' cells []) [A; B; p]) as [|q rest]; [discriminate|].
      assert (NF : walk cells faces k f2c A B (c' :: seen) c' q <> Fuel).
      { apply IH.
        - constructor; [now apply memb_false|assumption].
        - intros x [<-|Hx]; [|now apply BD]. apply other_face_side_In in Eo. apply (Hbound f). tauto.
        - cbn [length]. lia. }
      destruct (walk cells faces k f2c A B (c' :: seen) c' q) as [[? ?]| |]; try discriminate. congruence.
  Qed.
End Walk.

Lemma sort_by_no_fuel keys l : sort_by keys l <> Fuel.
Proof.
  induction l as [|x t IH]; simpl; [discriminate|].
  destruct (lookup_last x keys); destruct (sort_by keys t); try discriminate; congruence.
Qed.
Lemma sort_ids_no_fuel keys l : sort_ids keys l <> Fuel.
Proof. unfold sort_ids. pose proof (sort_by_no_fuel keys l). destruct (sort_by keys l); congruence. Qed.

Section Ring.
  Variables (cells faces edges : list (list nat)).
  Hypothesis Hcells : Forall cell_ok cells.
  Hypothesis Hfaces : faces_wf cells faces.
  Let f2c := f2c_tab faces (c2f_tab cells faces).
  Let n := length cells.

  Lemma f2c_bound f x : In x (F2C f2c f) -> x < n.
  Proof.
    unfold f2c, F2C, f2c_tab. intros H.
    destruct (Nat.lt_ge_cases f (length faces)) as [L|L].
    - rewrite (nth_map_in _ _ _ 0) in H by now rewrite seq_length. rewrite seq_nth in H by assumption.
      unfold f2c_of in H. apply in_flat_map in H. destruct H as [iC [Hi Hx]].
      apply in_seq in Hi. unfold c2f_tab in Hi. rewrite map_length in Hi.
      apply in_flat_map in Hx. destruct Hx as [o [_ Ho]]. revert Ho. cbv beta. destruct (opt_is o _); [|intros []].
      intros [<-|[]]. fold n in Hi. lia.
    - rewrite nth_overflow in H by now rewrite map_length, seq_length. contradiction.
  Qed.

  (* two cells are adjacent around the edge {A,B}: a face containing A and B lies in both *)
  Definition adjacent_around (A B x y : nat) : Prop :=
    exists f, f < length faces /\ In A (nth f faces []) /\ In B (nth f faces [])
              /\ incl (nth f faces []) (nth x cells []) /\ incl (nth f faces []) (nth y cells []).

  Lemma ring_step_adjacent A B x y f : ring_step faces f2c A B x y f -> adjacent_around A B x y.
  Proof.
    intros [[p Ef] Eo]. unfold face_id in Ef. apply id_of_sound in Ef. destruct Ef as [Lf K].
    apply key_eq_iff in K. apply other_face_side_In in Eo. destruct Eo as [Ix [Iy _]].
    unfold f2c in Ix, Iy. rewrite (F2C_is_cells_with cells faces Hcells Hfaces) in Ix, Iy by assumption.
    apply filter_In in Ix, Iy. destruct Ix as [_ Sx], Iy as [_ Sy]. apply subsetb_incl in Sx, Sy.
    exists f. split; [assumption|].
    split; [apply (Permutation_in _ (Permutation_sym K)); now left|].
    split; [apply (Permutation_in _ (Permutation_sym K)); right; now left|]. now split.
  Qed.

  Lemma ring_chain_sorted A B c cs fs :
    ring_chain faces f2c A B c cs fs -> Sorted (adjacent_around A B) (c :: cs).
  Proof.
    induction 1 as [c f _|c c' f cs fs St _ IH].
    - constructor; constructor.
    - constructor; [assumption|]. constructor. now apply (ring_step_adjacent A B c c' f).
  Qed.

  (* PARTIAL edge-ring theorem: both pivot walks of sorted_edge never run out of fuel, and the cells each of them
     keys are pairwise distinct, all different from the start cell, and consecutive ones share a face through {A,B} *)
  Theorem edge_walks_rotational e start A B p1 p2 :
    nth e edges [] = [A; B] -> others (nth start cells []) [A; B] = [p1; p2] -> start < n ->
    let fuel := S (length cells) in
    walk cells faces fuel f2c A B [start] start p1 <> Fuel
    /\ forall cs1 fs1, walk cells faces fuel f2c A B [start] start p1 = Ok (cs1, fs1) ->
       Sorted (adjacent_around A B) (start :: cs1) /\ NoDup (start :: cs1) /\ length fs1 = S (length cs1)
       /\ walk cells faces fuel f2c A B (cs1 ++ [start]) start p2 <> Fuel
       /\ forall cs2 fs2, walk cells faces fuel f2c A B (cs1 ++ [start]) start p2 = Ok (cs2, fs2) ->
          Sorted (adjacent_around A B) (start :: cs2) /\ NoDup (cs2 ++ start :: cs1) /\ length fs2 = S (length cs2).
  Proof.
    intros _ _ Hs fuel. split.
    - apply (walk_no_fuel cells faces f2c f2c_bound).
      + constructor; [intros []|constructor].
      + intros x [<-|[]]. exact Hs.
      + unfold fuel. cbn [length]. fold n. lia.
    - intros cs1 fs1 W1. apply (walk_spec cells faces f2c f2c_bound) in W1.
      destruct W1 as [RC1 [ND1 [FR1 LN1]]].
      assert (NDs : NoDup (start :: cs1)).
      { constructor; [|assumption]. intros I. apply FR1 in I. apply (proj1 I). now left. }
      split; [now apply (ring_chain_sorted A B start cs1 fs1)|]. split; [assumption|]. split; [assumption|].
      split.
      + apply (walk_no_fuel cells faces f2c f2c_bound).
        * apply (Permutation_NoDup (l := start :: cs1)); [|assumption].
          change (start :: cs1) with ([start] ++ cs1). apply Permutation_app_comm.
        * intros x Hx. apply in_app_or in Hx. destruct Hx as [Hx|[<-|[]]]; [now apply FR1|assumption].
        * unfold fuel. rewrite app_length. cbn [length]. fold n. lia.
      + intros cs2 fs2 W2. apply (walk_spec cells faces f2c f2c_bound) in W2.
        destruct W2 as [RC2 [ND2 [FR2 LN2]]].
        split; [now apply (ring_chain_sorted A B start cs2 fs2)|]. split; [|assumption].
        apply NoDup_app_intro; try assumption.
        intros x H2 H1. apply FR2 in H2. apply (proj1 H2). apply in_or_app.
        destruct H1 as [<-|H1]; [right; now left|now left].
  Qed.

  (* ---------------------------------------------------------------- the walks never raise *)
  Definition Inv (A B c p : nat) : Prop := c < n /\ NoDup [A; B; p] /\ incl [A; B; p] (nth c cells []).

  Lemma face_of_triple A B c p :
    Inv A B c p -> exists f, face_id faces [A; B; p] = Some f /\ f < length faces /\ Permutation (nth f faces []) [A; B; p].
  Proof.
    intros [Hc [ND I]]. pose proof (cell_ok_nth cells Hcells c Hc) as [LC NC]. set (C := nth c cells []) in *.
    destruct (facet_exists C [A; B; p] ND NC I) as [i [Hi P]]; [cbn [length]; lia|]. rewrite LC in Hi.
    assert (HC : In C cells) by (apply nth_In; assumption).
    destruct (face_id_facet_some cells faces Hfaces C i HC Hi) as [f [E L]].
    exists f. pose proof (proj1 (face_id_facet cells faces Hfaces C i f L) E) as PF.
    split; [|split; [assumption|]].
    - unfold face_id in *. rewrite cell_adj_face_rm in E. now rewrite <- (key_of_perm _ _ P).
    - now rewrite <- PF.
  Qed.

  Lemma step_inv A B c p f c' :
    Inv A B c p -> face_id faces [A; B; p] = Some f -> other_face_side f2c c f = Some c' ->
    exists q rest, others (nth c' cells []) [A; B; p] = q :: rest /\ Inv A B c' q.
  Proof.
    intros IV Ef Eo. destruct (face_of_triple A B c p IV) as [f' [Ef' [Lf P]]].
    assert (f' = f) by congruence. subst f'.
    apply other_face_side_In in Eo. destruct Eo as [_ [Ic' _]].
    unfold f2c in Ic'. rewrite (F2C_is_cells_with cells faces Hcells Hfaces) in Ic' by assumption.
    apply filter_In in Ic'. destruct Ic' as [Hc' S]. apply in_seq in Hc'. apply subsetb_incl in S.
    assert (Hc'' : c' < n) by (unfold n; lia).
    pose proof (cell_ok_nth cells Hcells c' Hc'') as [LC NC]. set (C' := nth c' cells []) in *.
    assert (I3 : incl [A; B; p] C').
    { intros x Hx. apply S. now apply (Permutation_in _ (Permutation_sym P)). }
    destruct IV as [_ [ND _]].
    destruct (others C' [A; B; p]) as [|q rest] eqn:EO.
    - exfalso. destruct (exists_not_in C' [A; B; p] NC) as [x [Hx Nx]]; [cbn [length]; lia|].
      assert (In x (others C' [A; B; p])).
      { unfold others. apply filter_In. split; [assumption|]. apply negb_true_iff. now apply memb_false. }
      rewrite EO in H. contradiction.
    - exists q, rest. split; [reflexivity|].
      assert (Iq : In q (others C' [A; B; p])) by (rewrite EO; now left).
      unfold others in Iq. apply filter_In in Iq. destruct Iq as [Hq Nq].
      apply negb_true_iff, memb_false in Nq.
      split; [assumption|]. split.
      + inversion ND as [|? ? NA ND']; subst. inversion ND' as [|? ? NB _]; subst.
        constructor; [|constructor; [|constructor; [intros []|constructor]]].
        * intros [H|[H|[]]]; [apply NA; now left | subst; apply Nq; now left].
        * intros [H|[]]. subst. apply Nq. right. now left.
      + intros x [<-|[<-|[<-|[]]]]; [apply I3; now left | apply I3; right; now left | assumption].
  Qed.

  Lemma walk_no_exn fuel A B : forall seen c p, Inv A B c p -> walk cells faces fuel f2c A B seen c p <> Exn.
  Proof.
    induction fuel as [|k IH]; intros seen c p IV; [discriminate|].
    cbn [walk]. destruct (face_of_triple A B c p IV) as [f [Ef _]]. rewrite Ef.
    destruct (other_face_side f2c c f) as [c'|] eqn:Eo; [|discriminate].
    destruct (memb c' seen); [discriminate|].
    destruct (step_inv A B c p f c' IV Ef Eo) as [q [rest [EO IV']]]. rewrite EO.
    specialize (IH (c' :: seen) c' q IV').
    destruct (walk cells faces k f2c A B (c' :: seen) c' q) as [[? ?]| |]; try discriminate. congruence.
  Qed.

  (* ---------------------------------------------------------------- gluing the two walks *)
  Lemma Sorted_app_mid {A} (R : A -> A -> Prop) l1 x l2 :
    Sorted R (l1 ++ [x]) -> Sorted R (x :: l2) -> Sorted R (l1 ++ x :: l2).
  Proof.
    induction l1 as [|a t IH]; simpl; intros S1 S2; [assumption|].
    inversion S1 as [|? ? St Ha]; subst. constructor; [now apply IH|].
    destruct t as [|b t']; simpl in *; inversion Ha; subst; now constructor.
  Qed.

  Lemma Sorted_rev_sym {A} (R : A -> A -> Prop) :
    (forall a b, R a b -> R b a) -> forall l x, Sorted R (x :: l) -> Sorted R (rev l ++ [x]).
  Proof.
    intros Sym l. induction l as [|y t IH]; intros x S; simpl; [constructor; constructor|].
    inversion S as [|? ? St Hx]; subst. inversion Hx; subst.
    rewrite <- app_assoc. simpl. apply Sorted_app_mid; [now apply IH|].
    constructor; [constructor; constructor|]. constructor. now apply Sym.
  Qed.

  Lemma Sorted_second {A} (R : A -> A -> Prop) c l : Sorted R (c :: l) -> forall y, In y l -> exists x, R x y.
  Proof.
    revert c. induction l as [|a t IH]; intros c S y Hy; [contradiction|].
    inversion S as [|? ? St Hc]; subst. inversion Hc; subst. destruct Hy as [<-|Hy]; [now exists c|].
    now apply (IH a St).
  Qed.

  Lemma adjacent_sym A B x y : adjacent_around A B x y -> adjacent_around A B y x.
  Proof. intros [f [L [IA [IB [I1 I2]]]]]. exists f. tauto. Qed.

  Lemma adjacent_contains A B x y : adjacent_around A B x y -> incl [A; B] (nth y cells []).
  Proof. intros [f [L [IA [IB [I1 I2]]]]] v [<-|[<-|[]]]; now apply I2. Qed.
End Ring.

Lemma edge_ok_shape E : edge_ok E -> exists A B, E = [A; B] /\ A <> B.
Proof.
  intros [L N]. destruct E as [|A [|B [|? ?]]]; try discriminate. exists A, B. split; [reflexivity|].
  inversion N as [|? ? NA _]; subst. intros ->. apply NA. now left.
Qed.

Lemma others_two C A B :
  cell_ok C -> A <> B -> incl [A; B] C ->
  exists p1 p2, others C [A; B] = [p1; p2] /\ NoDup [A; B; p1] /\ NoDup [A; B; p2]
                /\ incl [A; B; p1] C /\ incl [A; B; p2] C.
Proof.
  intros [LC NC] NAB I.
  assert (P : Permutation (filter (fun v => memb v [A; B]) C) [A; B]).
  { apply NoDup_Permutation; [now apply NoDup_filter | constructor; [intros [H|[]]; now apply NAB | constructor; [intros []|constructor]] |].
    intros x. rewrite filter_In, memb_In. split; [tauto|]. intros Hx. split; [now apply I|assumption]. }
  apply Permutation_length in P. cbn [length] in P.
  pose proof (filter_length_split (fun v => memb v [A; B]) C) as S. rewrite P, LC in S.
  assert (ND : NoDup (others C [A; B])) by (apply NoDup_filter; assumption).
  assert (IN : forall x, In x (others C [A; B]) -> In x C /\ ~ In x [A; B]).
  { intros x Hx. unfold others in Hx. apply filter_In in Hx. destruct Hx as [Hx N]. split; [assumption|].
    apply memb_false. now apply negb_true_iff. }
  unfold others in *. destruct (filter (fun x => negb (memb x [A; B])) C) as [|p1 [|p2 [|? ?]]]; cbn [length] in S; try lia.
  exists p1, p2. split; [reflexivity|].
  destruct (IN p1 (or_introl eq_refl)) as [I1 N1]. destruct (IN p2 (or_intror (or_introl eq_refl))) as [I2 N2].
  assert (T : forall p, In p C -> ~ In p [A; B] -> NoDup [A; B; p] /\ incl [A; B; p] C).
  { intros p Ip Np. split.
    - constructor; [intros [H|[H|[]]]; [now apply NAB | subst; apply Np; now left]|].
      constructor; [intros [H|[]]; subst; apply Np; right; now left|]. constructor; [intros []|constructor].
    - intros x [<-|[<-|[<-|[]]]]; [apply I; now left | apply I; right; now left | assumption]. }
  destruct (T p1 I1 N1), (T p2 I2 N2). tauto.
Qed.

Section RingFinal.
  Variables (cells faces edges : list (list nat)).
  Hypothesis Hcells : Forall cell_ok cells.
  Hypothesis Hfaces : faces_wf cells faces.
  Hypothesis Hedges : edges_wf faces edges.
  Let f2c := f2c_tab faces (c2f_tab cells faces).
  Let e2f := e2f_tab edges (f2e_tab faces edges).
  Let e2c := e2c_tab f2c e2f.
  Let n := length cells.

  (* THE EDGE RING THEOREM.  For every edge e and every start cell of e, the sort returns (never raises, never runs out
     of fuel) a permutation of the cells and of the faces of e; and when it reports "sorted" the cell list is
     duplicate-free, is  rev(backward walk) ++ start :: forward walk,  and consecutive cells share a face through e. *)
  Theorem edge_ring_sorted e start :
    e < length edges -> In start (nth e e2c []) ->
    exists A B b cs fs,
      nth e edges [] = [A; B] /\
      sorted_edge cells faces edges f2c (nth e e2c []) (nth e e2f []) e start = Ok (b, cs, fs)
      /\ Permutation cs (nth e e2c []) /\ Permutation fs (nth e e2f [])
      /\ (b = true -> NoDup cs /\ Sorted (adjacent_around cells faces A B) cs /\ In start cs).
  Proof.
    intros He Hs.
    pose proof (edge_ok_nth faces edges Hedges e He) as OKE.
    destruct (edge_ok_shape _ OKE) as [A [B [EE NAB]]].
    apply (edge_to_cell_correct cells faces edges Hcells Hfaces Hedges e start He) in Hs. destruct Hs as [Ls Is].
    rewrite EE in Is.
    destruct (others_two (nth start cells []) A B (cell_ok_nth cells Hcells start Ls) NAB Is)
      as [p1 [p2 [EO [N1 [N2 [I1 I2]]]]]].
    exists A, B. unfold sorted_edge. rewrite EE, EO.
    assert (IV1 : Inv cells A B start p1) by (split; [exact Ls|split; assumption]).
    assert (IV2 : Inv cells A B start p2) by (split; [exact Ls|split; assumption]).
    destruct (edge_walks_rotational cells faces edges Hcells Hfaces e start A B p1 p2 EE EO Ls) as [NF1 W].
    pose proof (walk_no_exn cells faces Hcells Hfaces (S (length cells)) A B [start] start p1 IV1) as NE1.
    fold f2c in NF1, NE1, W.
    destruct (walk cells faces (S (length cells)) f2c A B [start] start p1) as [[cs1 fs1]| |] eqn:W1; try congruence.
    destruct (W cs1 fs1 eq_refl) as [S1 [ND1 [L1 [NF2 W']]]].
    pose proof (walk_no_exn cells faces Hcells Hfaces (S (length cells)) A B (cs1 ++ [start]) start p2 IV2) as NE2.
    fold f2c in NE2.
    destruct (walk cells faces (S (length cells)) f2c A B (cs1 ++ [start]) start p2) as [[cs2 fs2]| |] eqn:W2; try congruence.
    destruct (W' cs2 fs2 eq_refl) as [S2 [ND2 L2]].
    set (kc := (start, 0%Z) :: keys_up cs1 ++ keys_down cs2). set (kf := keys_up fs1 ++ keys_down fs2).
    destruct (forallb (has_key kc) (nth e e2c []) && forallb (has_key kf) (nth e e2f [])) eqn:T.
    - apply andb_true_iff in T. destruct T as [T1 T2].
      assert (EQ : forall x, In x (nth e e2c []) <-> In x (cs2 ++ start :: cs1)).
      { intros x. split.
        - intros Hx. rewrite forallb_forall in T1. specialize (T1 x Hx). apply has_key_In in T1.
          unfold kc in T1. simpl in T1. rewrite map_app, keys_up_ku, keys_down_kd, ku_fst, kd_fst in T1.
          apply in_or_app. destruct T1 as [<-|T1]; [right; now left|]. apply in_app_or in T1.
          destruct T1; [right; now right | now left].
        - intros Hx. apply (edge_to_cell_correct cells faces edges Hcells Hfaces Hedges e x He). rewrite EE.
          apply in_app_or in Hx. destruct Hx as [Hx|[<-|Hx]].
          + destruct (Sorted_second _ _ _ S2 x Hx) as [x' AD]. split; [|now apply (adjacent_contains cells faces A B x' x)].
            apply (walk_spec cells faces f2c (f2c_bound cells faces)) in W2. destruct W2 as [_ [_ [FR _]]].
            now apply FR.
          + split; assumption.
          + destruct (Sorted_second _ _ _ S1 x Hx) as [x' AD]. split; [|now apply (adjacent_contains cells faces A B x' x)].
            apply (walk_spec cells faces f2c (f2c_bound cells faces)) in W1. destruct W1 as [_ [_ [FR _]]].
            now apply FR. }
      pose proof (sort_cells_is_ring start cs1 cs2 (nth e e2c []) ND2
                    (edge_to_cell_NoDup cells faces edges e) EQ) as SC. fold kc in SC.
      fold e2f e2c in SC. rewrite SC.
      destruct (sort_ids_spec kf (nth e e2f []) T2) as [O [SF [PF _]]]. rewrite SF.
      exists true, (rev cs2 ++ start :: cs1), (map fst O). split; [reflexivity|]. split; [reflexivity|].
      assert (NDr : NoDup (rev cs2 ++ start :: cs1)).
      { apply (Permutation_NoDup (l := cs2 ++ start :: cs1)); [|assumption]. apply Permutation_app_tail, Permutation_rev. }
      split; [|split; [assumption|]].
      + apply NoDup_Permutation; [assumption | apply edge_to_cell_NoDup |].
        intros x. rewrite EQ, !in_app_iff, <- in_rev. tauto.
      + intros _. split; [assumption|]. split; [|apply in_or_app; right; now left].
        apply Sorted_app_mid; [|assumption].
        apply Sorted_rev_sym; [apply adjacent_sym | assumption].
    - exists false, (nth e e2c []), (nth e e2f []). split; [reflexivity|]. split; [reflexivity|].
      split; [reflexivity|]. split; [reflexivity|discriminate].
  Qed.
End RingFinal.
