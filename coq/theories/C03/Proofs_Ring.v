(* C03 - rotational order around an edge (_sort_edge_neighborhoods): what is proved of the two pivot walks.
   PARTIAL: the final `list.sort(key=...)` by the walk keys and the coverage of all cells of the edge are only
   tested (correspondence + oracle); coverage needs the cells of the edge to be connected through faces and FAILS
   otherwise (KeyError, see the refutation at the end). *)
From Coq Require Import String List Arith Bool ZArith Lia Permutation Sorted.
Import ListNotations.
Require Import MV.Lib.Base MV.C03.Gen MV.C03.Model MV.C03.Run MV.C03.Proofs_Base MV.C03.Proofs_Simplex
        MV.C03.Proofs_Incidence MV.C03.Proofs_Complete MV.C03.Proofs_Incidence2.
Local Open Scope nat_scope.

Lemma NoDup_app_intro {A} (l1 l2 : list A) :
  NoDup l1 -> NoDup l2 -> (forall x, In x l1 -> In x l2 -> False) -> NoDup (l1 ++ l2).
Proof.
  induction l1 as [|a t IH]; simpl; intros N1 N2 D; [assumption|].
  inversion N1 as [|? ? Na Nt]; subst. constructor.
  - intros I. apply in_app_or in I. destruct I as [I|I]; [contradiction|]. apply (D a); [now left|assumption].
  - apply IH; try assumption. intros x X1 X2. apply (D x); [now right|assumption].
Qed.

Lemma ofs_not_two_spec n : ofs_not_two n = false <-> n = 2.
Proof. unfold ofs_not_two. rewrite negb_false_iff. apply Nat.eqb_eq. Qed.

Lemma other_face_side_In f2c c f c' :
  other_face_side f2c c f = Some c' -> In c (F2C f2c f) /\ In c' (F2C f2c f) /\ length (F2C f2c f) = 2.
Proof.
  unfold other_face_side. destruct (ofs_not_two (length (F2C f2c f))) eqn:E; [discriminate|].
  apply ofs_not_two_spec in E.
  destruct (F2C f2c f) as [|c1 [|c2 [|? ?]]]; try discriminate.
  destruct (c =? c1) eqn:E1; [|destruct (c =? c2) eqn:E2; [|discriminate]]; intros H; inversion H; subst.
  - apply Nat.eqb_eq in E1. subst. split; [now left|]. split; [right; now left|reflexivity].
  - apply Nat.eqb_eq in E2. subst. split; [right; now left|]. split; [now left|reflexivity].
Qed.

Section Walk.
  Variables (cells faces : list (list nat)) (f2c : list (list nat)).
  Let n := length cells.
  Hypothesis Hbound : forall f x, In x (F2C f2c f) -> x < n.

  (* one step of the rotation: from cell x through the face on {A,B,p} to the cell on the other side *)
  Definition ring_step (A B x y f : nat) : Prop :=
    (exists p, face_id faces [A; B; p] = Some f) /\ other_face_side f2c x f = Some y.

  (* cs is reached from c by successive steps through the faces fs; one more face closes the walk *)
  Inductive ring_chain (A B : nat) : nat -> list nat -> list nat -> Prop :=
  | rc_end c f : (exists p, face_id faces [A; B; p] = Some f) -> ring_chain A B c [] [f]
  | rc_step c c' f cs fs : ring_step A B c c' f -> ring_chain A B c' cs fs -> ring_chain A B c (c' :: cs) (f :: fs).

  Lemma walk_spec fuel A B : forall seen c p cs fs,
    walk cells faces fuel f2c A B seen c p = Ok (cs, fs) ->
    ring_chain A B c cs fs /\ NoDup cs /\ (forall x, In x cs -> ~ In x seen /\ x < n) /\ length fs = S (length cs).
  Proof.
    induction fuel as [|k IH]; intros seen c p cs fs H; [discriminate|].
    cbn [walk] in H. destruct (face_id faces [A; B; p]) as [f|] eqn:Ef; [|discriminate].
    assert (EX : exists p, face_id faces [A; B; p] = Some f) by now exists p.
    destruct (other_face_side f2c c f) as [c'|] eqn:Eo.
    - destruct (memb c' seen) eqn:Em.
      + inversion H; subst. split; [now constructor|]. split; [constructor|]. split; [intros x []|reflexivity].
      + destruct (others (nth c' cells []) [A; B; p]) as [|q rest] eqn:Eq; [discriminate|].
        destruct (walk cells faces k f2c A B (c' :: seen) c' q) as [[cs' fs']| |] eqn:Ew; try discriminate.
        inversion H; subst. apply IH in Ew. destruct Ew as [RC [ND [FR LN]]].
        split; [apply rc_step; [split; assumption|assumption]|].
        split; [constructor; [|assumption]; intros I; apply FR in I; apply (proj1 I); now left|].
        split; [|cbn [length]; now rewrite LN].
        intros x [<-|Hx].
        * split; [now apply memb_false|]. apply other_face_side_In in Eo. apply (Hbound f). tauto.
        * destruct (FR x Hx) as [N L]. split; [|assumption]. intros I. apply N. now right.
    - inversion H; subst. split; [now constructor|]. split; [constructor|]. split; [intros x []|reflexivity].
  Qed.

  Lemma pigeon (l : list nat) : NoDup l -> (forall x, In x l -> x < n) -> length l <= n.
  Proof.
    intros ND B. rewrite <- (seq_length n 0). apply NoDup_incl_length; [assumption|].
    intros x Hx. apply in_seq. specialize (B x Hx). lia.
  Qed.

  (* the fuel |cells|+1 is never what stops a walk *)
  Lemma walk_no_fuel fuel A B : forall seen c p,
    NoDup seen -> (forall x, In x seen -> x < n) -> n < fuel + length seen ->
    walk cells faces fuel f2c A B seen c p <> Fuel.
  Proof.
    induction fuel as [|k IH]; intros seen c p ND BD L.
    - exfalso. pose proof (pigeon seen ND BD). lia.
    - cbn [walk]. destruct (face_id faces [A; B; p]) as [f|]; [|discriminate].
      destruct (other_face_side f2c c f) as [c'|] eqn:Eo; [|discriminate].
      destruct (memb c' seen) eqn:Em; [discriminate|].
      destruct (others (nth c' cells []) [A; B; p]) as [|q rest]; [discriminate|].
      assert (NF : walk cells faces k f2c A B (c' :: seen) c' q <> Fuel).
      { apply IH.
        - constructor; [now apply memb_false|assumption].
        - intros x [<-|Hx]; [|now apply BD]. apply other_face_side_In in Eo. apply (Hbound f). tauto.
        - cbn [length]. lia. }
      destruct (walk cells faces k f2c A B (c' :: seen) c' q) as [[? ?]| |]; try discriminate. congruence.
  Qed.
End Walk.

Lemma sort_by_no_fuel keys l : sort_by keys l <> Fuel.
Proof.
  induction l as [|x t IH]; simpl; [discriminate|].
  destruct (lookup_last x keys); destruct (sort_by keys t); try discriminate; congruence.
Qed.
Lemma sort_ids_no_fuel keys l : sort_ids keys l <> Fuel.
Proof. unfold sort_ids. pose proof (sort_by_no_fuel keys l). destruct (sort_by keys l); congruence. Qed.

Section Ring.
  Variables (cells faces edges : list (list nat)).
  Hypothesis Hcells : Forall cell_ok cells.
  Hypothesis Hfaces : faces_wf cells faces.
  Let f2c := f2c_tab faces (c2f_tab cells faces).
  Let n := length cells.

  Lemma f2c_bound f x : In x (F2C f2c f) -> x < n.
  Proof.
    unfold f2c, F2C, f2c_tab. intros H.
    destruct (Nat.lt_ge_cases f (length faces)) as [L|L].
    - rewrite (nth_map_in _ _ _ 0) in H by now rewrite seq_length. rewrite seq_nth in H by assumption.
      unfold f2c_of in H. apply in_flat_map in H. destruct H as [iC [Hi Hx]].
      apply in_seq in Hi. unfold c2f_tab in Hi. rewrite map_length in Hi.
      apply in_flat_map in Hx. destruct Hx as [o [_ Ho]]. revert Ho. cbv beta. destruct (opt_is o _); [|intros []].
      intros [<-|[]]. fold n in Hi. lia.
    - rewrite nth_overflow in H by now rewrite map_length, seq_length. contradiction.
  Qed.

  (* two cells are adjacent around the edge {A,B}: a face containing A and B lies in both *)
  Definition adjacent_around (A B x y : nat) : Prop :=
    exists f, f < length faces /\ In A (nth f faces []) /\ In B (nth f faces [])
              /\ incl (nth f faces []) (nth x cells []) /\ incl (nth f faces []) (nth y cells []).

  Lemma ring_step_adjacent A B x y f : ring_step faces f2c A B x y f -> adjacent_around A B x y.
  Proof.
    intros [[p Ef] Eo]. unfold face_id in Ef. apply id_of_sound in Ef. destruct Ef as [Lf K].
    apply key_eq_iff in K. apply other_face_side_In in Eo. destruct Eo as [Ix [Iy _]].
    unfold f2c in Ix, Iy. rewrite (F2C_is_cells_with cells faces Hcells Hfaces) in Ix, Iy by assumption.
    apply filter_In in Ix, Iy. destruct Ix as [_ Sx], Iy as [_ Sy]. apply subsetb_incl in Sx, Sy.
    exists f. split; [assumption|].
    split; [apply (Permutation_in _ (Permutation_sym K)); now left|].
    split; [apply (Permutation_in _ (Permutation_sym K)); right; now left|]. now split.
  Qed.

  Lemma ring_chain_sorted A B c cs fs :
    ring_chain faces f2c A B c cs fs -> Sorted (adjacent_around A B) (c :: cs).
  Proof.
    induction 1 as [c f _|c c' f cs fs St _ IH].
    - constructor; constructor.
    - constructor; [assumption|]. constructor. now apply (ring_step_adjacent A B c c' f).
  Qed.

  (* PARTIAL edge-ring theorem: both pivot walks of sorted_edge never run out of fuel, and the cells each of them
     keys are pairwise distinct, all different from the start cell, and consecutive ones share a face through {A,B} *)
  Theorem edge_walks_rotational e start A B p1 p2 :
    nth e edges [] = [A; B] -> others (nth start cells []) [A; B] = [p1; p2] -> start < n ->
    let fuel := S (length cells) in
    walk cells faces fuel f2c A B [start] start p1 <> Fuel
    /\ forall cs1 fs1, walk cells faces fuel f2c A B [start] start p1 = Ok (cs1, fs1) ->
       Sorted (adjacent_around A B) (start :: cs1) /\ NoDup (start :: cs1) /\ length fs1 = S (length cs1)
       /\ walk cells faces fuel f2c A B (cs1 ++ [start]) start p2 <> Fuel
       /\ forall cs2 fs2, walk cells faces fuel f2c A B (cs1 ++ [start]) start p2 = Ok (cs2, fs2) ->
          Sorted (adjacent_around A B) (start :: cs2) /\ NoDup (cs2 ++ start :: cs1) /\ length fs2 = S (length cs2).
  Proof.
    intros _ _ Hs fuel. split.
    - apply (walk_no_fuel cells faces f2c f2c_bound).
      + constructor; [intros []|constructor].
      + intros x [<-|[]]. exact Hs.
      + unfold fuel. cbn [length]. fold n. lia.
    - intros cs1 fs1 W1. apply (walk_spec cells faces f2c f2c_bound) in W1.
      destruct W1 as [RC1 [ND1 [FR1 LN1]]].
      assert (NDs : NoDup (start :: cs1)).
      { constructor; [|assumption]. intros I. apply FR1 in I. apply (proj1 I). now left. }
      split; [now apply (ring_chain_sorted A B start cs1 fs1)|]. split; [assumption|]. split; [assumption|].
      split.
      + apply (walk_no_fuel cells faces f2c f2c_bound).
        * apply (Permutation_NoDup (l := start :: cs1)); [|assumption].
          change (start :: cs1) with ([start] ++ cs1). apply Permutation_app_comm.
        * intros x Hx. apply in_app_or in Hx. destruct Hx as [Hx|[<-|[]]]; [now apply FR1|assumption].
        * unfold fuel. rewrite app_length. cbn [length]. fold n. lia.
      + intros cs2 fs2 W2. apply (walk_spec cells faces f2c f2c_bound) in W2.
        destruct W2 as [RC2 [ND2 [FR2 LN2]]].
        split; [now apply (ring_chain_sorted A B start cs2 fs2)|]. split; [|assumption].
        apply NoDup_app_intro; try assumption.
        intros x H2 H1. apply FR2 in H2. apply (proj1 H2). apply in_or_app.
        destruct H1 as [<-|H1]; [right; now left|now left].
  Qed.
End Ring.
