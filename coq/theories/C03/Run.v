(* C03 - the boolean checkers evaluated by the kernel in the correspondence batches: one case = a cell list with
   integer coordinates + everything the implementation was observed to answer.  No proofs. *)
From Coq Require Import String List Arith Bool ZArith.
Import ListNotations.
Require Import MV.Lib.Base MV.C03.Gen MV.C03.Model.

Inductive query :=
| QFaceToCells (f : nat) | QNF2C (f : nat) | QCellToFace (c : nat) | QCellToCell (c : nat)
| QOtherFaceSide (c f : nat) | QCommonFace (c1 c2 : nat)
| QVertexToCell (v : nat) | QInCellIndex (c v : nat) | QInCellFaceIndex (c f : nat)
| QEdge (e : nat)                       (* edge_to_cell(e), edge_to_face(e) : answered as a pair *)
| QEdgeV (u v : nat)                    (* the same for e = edge_id(u, v) *)
| QCellToEdge (c : nat)
| QFaceId (a b c : nat) | QEdgeId (u v : nat)
| QIsFaceBorder (f : nat) | QIsFaceBorderV (a b c : nat) | QIsVertexBorder (v : nat)
| QIsEdgeBorder (e : nat) | QIsEdgeBorderV (u v : nat)
| QBoundaryFaces | QInteriorFaces | QBoundaryEdges | QInteriorEdges | QBoundaryVertices | QInteriorVertices.

Inductive ans :=
| ANone | ANat (n : nat) | ABool (b : bool) | AList (l : list nat) | APair (l1 l2 : list nat) | AErr.

Definition lleqb (a b : list (list nat)) : bool := list_eqb leqb a b.
Definition pair_eqb (a b : nat * nat) : bool := (fst a =? fst b) && (snd a =? snd b).
Definition pairs_eqb (a b : list (nat * nat)) : bool := list_eqb pair_eqb a b.
Definition seteq (a b : list nat) : bool := subsetb a b && subsetb b a && (length a =? length b).

Definition opt_ans (o : option nat) : ans := match o with Some n => ANat n | None => ANone end.
Definition ans_eqb (a b : ans) : bool :=
  match a, b with
  | ANone, ANone => true
  | ANat n, ANat m => n =? m
  | ABool x, ABool y => Bool.eqb x y
  | AList l, AList m => leqb l m
  | APair l1 l2, APair m1 m2 => leqb l1 m1 && leqb l2 m2
  | AErr, AErr => true
  | _, _ => false
  end.

(* all tables of one mesh, computed once *)
Record tabs := {
  t_ok : bool;
  t_c2f : list (list (option nat));
  t_f2c : list (list nat);
  t_c2c : res (list (list (option nat)));
  t_e2f : list (list nat);
  t_e2c : list (list nat);
  t_bf : list nat
}.

Definition build (cells faces edges : list (list nat)) : tabs :=
  let c2f := c2f_tab cells faces in
  let f2c := f2c_tab faces c2f in
  let f2e := f2e_tab faces edges in
  let e2f := e2f_tab edges f2e in
  {| t_ok := cell_adj_ok cells c2f; t_c2f := c2f; t_f2c := f2c; t_c2c := c2c_tab cells faces f2c;
     t_e2f := e2f; t_e2c := e2c_tab f2c e2f; t_bf := boundary_faces faces f2c |}.

(* sorted: both lists exactly; left unsorted: the cells are a set (list(set(..))), the faces in face order *)
Definition ring_is (r : res (bool * list nat * list nat)) (cs fs : list nat) : bool :=
  match r with
  | Ok (true, a, b) => leqb a cs && leqb b fs
  | Ok (false, a, b) => seteq cs a && leqb b fs
  | _ => false
  end.
Definition ring_exn (r : res (bool * list nat * list nat)) : bool :=
  match r with Exn => true | _ => false end.

(* some edge on which every possible start cell makes the sort raise: then the whole _compute_edge_id raises *)
Definition edge_sort_raises (cells faces edges : list (list nat)) (T : tabs) : bool :=
  existsb (fun e => let cs := nth e (t_e2c T) [] in
                    match cs with
                    | [] => true
                    | _ => forallb (fun s => ring_exn (sorted_edge cells faces edges (t_f2c T) cs (nth e (t_e2f T) []) e s)) cs
                    end) (seq 0 (length edges)).

Section Check.
  Variables (nv : nat) (cells faces edges : list (list nat)) (sorted : bool) (T : tabs).

  Definition c2c_ans (c : nat) : ans :=
    match t_c2c T with Ok t => AList (C2C t c) | _ => AErr end.

  Definition check_edge (raises : bool) (e : nat) (a : ans) : bool :=
        if raises then ans_eqb a AErr
        else match a with
             | APair cs fs =>
                 if sorted
                 then existsb (fun s => ring_is (sorted_edge cells faces edges (t_f2c T)
                                                            (nth e (t_e2c T) []) (nth e (t_e2f T) []) e s) cs fs)
                              (nth e (t_e2c T) [])
                 else seteq cs (nth e (t_e2c T) []) && leqb fs (nth e (t_e2f T) [])
             | _ => false
             end.

  Definition check_query (raises : bool) (q : query) (a : ans) : bool :=
    match q with
    | QFaceToCells f => ans_eqb a (AList (F2C (t_f2c T) f))
    | QNF2C f => ans_eqb a (ANat (length (F2C (t_f2c T) f)))
    | QCellToFace c => ans_eqb a (AList (C2F (t_c2f T) c))
    | QCellToCell c => ans_eqb a (c2c_ans c)
    | QOtherFaceSide c f => ans_eqb a (opt_ans (other_face_side (t_f2c T) c f))
    | QCommonFace c1 c2 => ans_eqb a (opt_ans (common_face cells faces c1 c2))
    | QVertexToCell v => match a with AList l => seteq l (V2C cells v) | _ => false end
    | QInCellIndex c v => ans_eqb a (opt_ans (in_cell_index cells c v))
    | QInCellFaceIndex c f => ans_eqb a (opt_ans (in_cell_face_index cells faces c f))
    | QEdge e => check_edge raises e a
    | QEdgeV u v => match edge_id edges u v with Some e => check_edge raises e a | None => ans_eqb a AErr end
    | QCellToEdge c => if raises then ans_eqb a AErr else ans_eqb a (AList (C2E cells edges c))
    | QFaceId x y z => ans_eqb a (opt_ans (face_id faces [x; y; z]))
    | QEdgeId u v => if raises then ans_eqb a AErr else ans_eqb a (opt_ans (edge_id edges u v))
    | QIsFaceBorder f => ans_eqb a (ABool (is_face_on_border (t_f2c T) f))
    | QIsFaceBorderV x y z =>
        match face_id faces [x; y; z] with
        | Some f => ans_eqb a (ABool (is_face_on_border (t_f2c T) f))
        | None => ans_eqb a AErr
        end
    | QIsVertexBorder v => ans_eqb a (ABool (vertex_flag faces (t_bf T) v))
    | QIsEdgeBorder e => if raises then ans_eqb a AErr else ans_eqb a (ABool (edge_flag faces edges (t_bf T) e))
    | QIsEdgeBorderV u v =>
        if raises then ans_eqb a AErr
        else match edge_id edges u v with
             | Some e => ans_eqb a (ABool (edge_flag faces edges (t_bf T) e))
             | None => true   (* attribute[None]: not a query the property speaks about *)
             end
    | QBoundaryFaces => ans_eqb a (AList (t_bf T))
    | QInteriorFaces => ans_eqb a (AList (interior_faces faces (t_f2c T)))
    | QBoundaryEdges => if raises then ans_eqb a AErr else ans_eqb a (AList (boundary_edges faces edges (t_bf T)))
    | QInteriorEdges => if raises then ans_eqb a AErr else ans_eqb a (AList (interior_edges faces edges (t_bf T)))
    | QBoundaryVertices => ans_eqb a (AList (boundary_vertices nv faces (t_bf T)))
    | QInteriorVertices => ans_eqb a (AList (interior_vertices nv faces (t_bf T)))
    end.
End Check.

(* what was observed of a boundary extraction: enumeration vs (= b2m_vertex as a list), surface faces, surface
   edges, face map (sorted by surface id), edge map (sorted by volume edge id), and the same maps read the other way *)
Record bobs := {
  b_vs : list nat;
  b_m2b_v : list (nat * nat);     (* m2b_vertex items sorted by surface id *)
  b_b2m_v : list (nat * nat);     (* b2m_vertex items sorted by surface id *)
  b_faces : list (list nat);
  b_edges : list (list nat);
  b_m2b_f : list (nat * nat);     (* (iF, i) sorted by i *)
  b_b2m_f : list (nat * nat);     (* (i, iF) sorted by i *)
  b_m2b_e : list (nat * nat);     (* (e, be) sorted by e *)
  b_b2m_e : list (nat * nat)      (* (be, e) sorted by e *)
}.

Definition swap (p : nat * nat) : nat * nat := (snd p, fst p).
Definition res_lleqb (r : res (list (list nat))) (l : list (list nat)) : bool :=
  match r with Ok x => lleqb x l | _ => false end.

Definition check_bc (cells faces edges : list (list nat)) (pos : nat -> vec) (T : tabs) (o : bobs) : bool :=
  let bf := t_bf T in
  let vs := b_vs o in
  let n := length bf in
  seteq vs (border_vertex_set faces bf)
  && pairs_eqb (b_m2b_v o) (dict_enum bc_m2b_vertex_entry vs)
  && pairs_eqb (b_b2m_v o) (dict_enum bc_b2m_vertex_entry vs)
  && res_lleqb (bc_faces cells faces pos (t_f2c T) vs bf) (b_faces o)
  && lleqb (b_edges o) (complete_edges [] (b_faces o))
  && pairs_eqb (b_m2b_f o) (dict_enum bc_m2b_face_entry bf)
  && pairs_eqb (b_b2m_f o) (dict_enum bc_b2m_face_entry bf)
  && match bc_edge_map edges (b_edges o) vs (boundary_edges faces edges bf) with
     | Ok m => pairs_eqb (b_m2b_e o) m && pairs_eqb (b_b2m_e o) (map swap m)
     | _ => false
     end.

(* standalone extractor: vs (= map_b2m as a list), map_m2b sorted by surface id, faces, edges after prepare *)
Record xobs := { x_vs : list nat; x_m2b : list (nat * nat); x_b2m : list (nat * nat);
                 x_faces : list (list nat); x_edges : list (list nat) }.

Definition check_ex (cells faces : list (list nat)) (pos : nat -> vec) (T : tabs) (o : xobs) : bool :=
  let bf := t_bf T in
  let vs := x_vs o in
  seteq vs (border_vertex_set faces bf)
  && pairs_eqb (x_m2b o) (dict_enum ex_m2b_entry vs)
  && pairs_eqb (x_b2m o) (dict_enum ex_b2m_entry vs)
  && res_lleqb (ex_faces cells faces pos (t_f2c T) vs bf) (x_faces o)
  && lleqb (x_edges o) (complete_edges [] (x_faces o)).

Record case := {
  k_nv : nat;
  k_cells : list (list nat);
  k_pos : list vec;
  k_sorted : bool;
  k_faces0 : list (list nat);    (* faces / edges declared before construction *)
  k_edges0 : list (list nat);
  k_faces : list (list nat);
  k_edges : list (list nat);
  k_queries : list (query * ans);
  k_bc : option bobs;
  k_ex : option xobs
}.

Definition pos_of (l : list vec) (v : nat) : vec := nth v l (0%Z, 0%Z, 0%Z).

Definition check_case (k : case) : bool :=
  let cells := k_cells k in
  let faces := complete_faces (k_faces0 k) cells in
  let edges := complete_edges (norm_edges (k_nv k) (k_edges0 k)) faces in
  lleqb (k_faces k) faces && lleqb (k_edges k) edges &&
  (let T := build cells faces edges in
   let raises := k_sorted k && edge_sort_raises cells faces edges T in
   t_ok T
   && forallb (fun qa => check_query (k_nv k) cells faces edges (k_sorted k) T raises (fst qa) (snd qa)) (k_queries k)
   && match k_bc k with Some o => check_bc cells faces edges (pos_of (k_pos k)) T o | None => true end
   && match k_ex k with Some o => check_ex cells faces (pos_of (k_pos k)) T o | None => true end).
