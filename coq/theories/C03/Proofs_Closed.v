(* C03 - the boundary is closed: every pair of vertices lies in an even number of border faces
   (handshake between the cells and the faces around an edge). *)
From Coq Require Import String List Arith Bool ZArith Lia Permutation.
Import ListNotations.
Require Import MV.Lib.Base MV.C03.Gen MV.C03.Model MV.C03.Proofs_Base MV.C03.Proofs_Simplex
        MV.C03.Proofs_Incidence MV.C03.Proofs_Complete MV.C03.Proofs_Incidence2 MV.C03.Proofs_Border.
Local Open Scope nat_scope.

(* ------------------------------------------------------------------ counting *)
Lemma list_sum_add {A} (g h : A -> nat) l :
  list_sum (map (fun x => g x + h x) l) = list_sum (map g l) + list_sum (map h l).
Proof. induction l as [|x t IH]; simpl; [reflexivity|]. rewrite IH. lia. Qed.

Lemma list_sum_indicator {A} (p : A -> bool) l :
  list_sum (map (fun x => if p x then 1 else 0) l) = length (filter p l).
Proof. induction l as [|x t IH]; simpl; [reflexivity|]. destruct (p x); simpl; lia. Qed.

Lemma double_count {A B} (R : A -> B -> bool) (la : list A) (lb : list B) :
  list_sum (map (fun a => length (filter (R a) lb)) la)
  = list_sum (map (fun b => length (filter (fun a => R a b) la)) lb).
Proof.
  induction la as [|a t IH]; simpl.
  - induction lb as [|b s IHb]; simpl; [reflexivity|exact IHb].
  - rewrite IH. rewrite <- list_sum_indicator. rewrite <- list_sum_add.
    f_equal. apply map_ext. intros b. destruct (R a b); simpl; lia.
Qed.

Lemma list_sum_const {A} (g : A -> nat) k l : (forall x, In x l -> g x = k) -> list_sum (map g l) = k * length l.
Proof.
  induction l as [|x t IH]; simpl; intros Hk; [lia|].
  rewrite (Hk x) by now left. rewrite IH by (intros y Hy; apply Hk; now right). lia.
Qed.

Lemma list_sum_one_or_two {A} (g : A -> nat) l :
  (forall x, In x l -> g x = 1 \/ g x = 2) ->
  list_sum (map g l) + length (filter (fun x => g x =? 1) l) = 2 * length l.
Proof.
  induction l as [|x t IH]; simpl; intros Hk; [reflexivity|].
  specialize (IH (fun y Hy => Hk y (or_intror Hy))).
  destruct (Hk x (or_introl eq_refl)) as [E|E]; rewrite E; simpl; lia.
Qed.

Lemma Permutation_filter {A} (f : A -> bool) l l' : Permutation l l' -> Permutation (filter f l) (filter f l').
Proof.
  induction 1 as [|x l l' _ IH|x y l|l l' l'' _ IH1 _ IH2]; simpl.
  - constructor.
  - destruct (f x); [now constructor|assumption].
  - destruct (f x), (f y); try reflexivity. apply perm_swap.
  - now transitivity (filter f l').
Qed.

Lemma filter_comm {A} (f g : A -> bool) l : filter f (filter g l) = filter g (filter f l).
Proof. rewrite !filter_filter. apply filter_ext_in'. intros x _. apply andb_comm. Qed.

Lemma subsetb_perm' a b b' : Permutation b b' -> subsetb a b = subsetb a b'.
Proof.
  intros P. apply bool_eq_iff. rewrite !subsetb_incl. split; intros H x Hx.
  - apply (Permutation_in _ P). now apply H.
  - apply (Permutation_in _ (Permutation_sym P)). now apply H.
Qed.

Section Closed.
  Variables (cells faces : list (list nat)).
  Hypothesis Hcells : Forall cell_ok cells.
  Hypothesis Hfaces : faces_wf cells faces.
  Hypothesis Hconf : conforming cells.
  Hypothesis Hminimal : forall F, In F faces -> exists C, In C cells /\ incl F C.
  Let f2c := f2c_tab faces (c2f_tab cells faces).
  Let n := length cells.
  Let nf := length faces.

  Variable E : list nat.
  Hypothesis HE : edge_ok E.

  Definition inc (c f : nat) : bool := subsetb (nth f faces []) (nth c cells []).
  Definition Cs : list nat := cells_with cells E.
  Definition Fs : list nat := filter (fun f => subsetb E (nth f faces [])) (seq 0 nf).

  (* the faces inside a cell are its four facets, each once *)
  Lemma faces_in_cell c :
    c < n -> exists l, length l = 4 /\ NoDup l /\ Permutation (filter (inc c) (seq 0 nf)) l
                       /\ forall i, i < 4 -> Permutation (nth (nth i l 0) faces []) (rm i (nth c cells [])).
  Proof.
    intros Hc. destruct (cell_to_face_correct cells faces Hcells Hfaces c Hc) as [l [_ [Ll Hl]]]. cbv zeta in Hl.
    pose proof (cell_ok_nth cells Hcells c Hc) as [LC NC]. set (C := nth c cells []) in *.
    exists l. split; [assumption|].
    assert (ND : NoDup l).
    { apply (proj2 (NoDup_nth l 0)). intros i j Hi Hj Eij. rewrite Ll in Hi, Hj.
      destruct (Hl i Hi) as [_ [Pi _]]. destruct (Hl j Hj) as [_ [Pj _]]. pose proof (eq_ind _ (fun x => Permutation (nth x faces []) (rm i C)) Pi _ Eij) as Pi'. cbv beta in Pi'.
      apply (facet_unique C (nth (nth j l 0) faces [])); try lia; try assumption; now symmetry. }
    split; [assumption|]. split.
    - apply NoDup_Permutation; [apply NoDup_filter, seq_NoDup | assumption |].
      intros f. rewrite filter_In, in_seq. unfold inc. fold C. rewrite subsetb_incl. split.
      + intros [R I]. pose proof (face_ok_nth cells faces Hfaces f ltac:(lia)) as [LF NF].
        destruct (facet_exists C (nth f faces []) NF NC I ltac:(lia)) as [i [Hi P]]. rewrite LC in Hi.
        destruct (Hl i Hi) as [Lfi [Pi _]].
        assert (f = nth i l 0).
        { apply (NoDup_map_nth_inj key faces [] f (nth i l 0) (fw_keys _ _ Hfaces)); try lia.
          apply key_of_perm. rewrite Pi. now symmetry. }
        subst f. apply nth_In. lia.
      + intros I. destruct (In_nth l f 0 I) as [i [Hi Ef]]. rewrite Ll in Hi.
        destruct (Hl i Hi) as [Lfi [_ [Inc _]]]. rewrite Ef in Lfi, Inc. split; [lia|assumption].
    - intros i Hi. now destruct (Hl i Hi) as [_ [P _]].
  Qed.

  (* exactly two of the four facets of a cell contain a given edge of the cell *)
  Lemma two_facets_contain (C : list nat) :
    cell_ok C -> incl E C ->
    length (filter (fun i => subsetb E (rm i C)) (seq 0 4)) = 2.
  Proof.
    intros [LC NC] I. destruct HE as [LE NE].
    assert (EQ : forall i, i < 4 -> subsetb E (rm i C) = negb (memb (nth i C 0) E)).
    { intros i Hi. apply bool_eq_iff. rewrite subsetb_incl, negb_true_iff, memb_false. split.
      - intros S X. apply (rm_not_in i C NC); [lia|]. now apply S.
      - intros N x Hx. destruct (In_nth C x 0 (I x Hx)) as [j [Hj Ex]]. rewrite <- Ex.
        apply rm_in_other; try assumption; try lia. intros ->. apply N. congruence. }
    rewrite (filter_ext_in' _ (fun i => negb (memb (nth i C 0) E))) by (intros i Hi; apply in_seq in Hi; apply EQ; lia).
    assert (P : Permutation (filter (fun v => memb v E) C) E).
    { apply NoDup_Permutation; [now apply NoDup_filter | assumption |].
      intros x. rewrite filter_In, memb_In. split; [tauto|]. intros Hx. split; [now apply I|assumption]. }
    apply Permutation_length in P.
    pose proof (filter_length_split (fun v => memb v E) C) as S. rewrite P, LE, LC in S.
    destruct C as [|v0 [|v1 [|v2 [|v3 [|? ?]]]]]; try discriminate.
    cbn [seq filter nth] in *. 
    destruct (memb v0 E), (memb v1 E), (memb v2 E), (memb v3 E); cbn in *; lia.
  Qed.

  Lemma faces_around_in_cell c : In c Cs -> length (filter (inc c) Fs) = 2.
  Proof.
    intros Hc. unfold Cs, cells_with in Hc. apply filter_In in Hc. destruct Hc as [Hc S].
    apply in_seq in Hc. apply subsetb_incl in S.
    destruct (faces_in_cell c ltac:(fold n; lia)) as [l [Ll [ND [P Hl]]]].
    unfold Fs. rewrite filter_comm.
    rewrite (Permutation_length (Permutation_filter _ _ _ P)).
    (* over the four facets *)
    rewrite <- (two_facets_contain (nth c cells [])); [| apply cell_ok_nth; [assumption|lia] | assumption].
    destruct l as [|f0 [|f1 [|f2 [|f3 [|? ?]]]]]; try discriminate.
    pose proof (Hl 0 ltac:(lia)) as P0. pose proof (Hl 1 ltac:(lia)) as P1.
    pose proof (Hl 2 ltac:(lia)) as P2. pose proof (Hl 3 ltac:(lia)) as P3. cbn [nth] in P0, P1, P2, P3.
    cbn [seq filter].
    rewrite <- (subsetb_perm' E _ _ P0), <- (subsetb_perm' E _ _ P1), <- (subsetb_perm' E _ _ P2), <- (subsetb_perm' E _ _ P3).
    destruct (subsetb E (nth f0 faces [])), (subsetb E (nth f1 faces [])), (subsetb E (nth f2 faces [])),
             (subsetb E (nth f3 faces [])); reflexivity.
  Qed.

  Lemma cells_around_face f : In f Fs -> filter (fun c => inc c f) Cs = cells_with cells (nth f faces []).
  Proof.
    intros Hf. unfold Fs in Hf. apply filter_In in Hf. destruct Hf as [_ S]. apply subsetb_incl in S.
    unfold Cs, cells_with. rewrite filter_filter. apply filter_ext_in'. intros c _. unfold inc.
    destruct (subsetb (nth f faces []) (nth c cells [])) eqn:X; [|reflexivity]. cbn [andb].
    apply subsetb_incl. apply subsetb_incl in X. intros x Hx. auto.
  Qed.

  Lemma n_cells_one_or_two f : f < nf -> n_cells_with cells (nth f faces []) = 1 \/ n_cells_with cells (nth f faces []) = 2.
  Proof.
    intros Lf. pose proof (n_cells_pos cells faces Hminimal f Lf) as P.
    assert (U : n_cells_with cells (nth f faces []) <= 2).
    { destruct (Hminimal (nth f faces [])) as [C [HC I]]; [now apply nth_In|].
      destruct (In_nth cells C [] HC) as [c [Hc Ec]].
      pose proof (face_ok_nth cells faces Hfaces f Lf) as [LF NF].
      pose proof (cell_ok_nth cells Hcells c Hc) as [LC NC]. rewrite Ec in LC, NC.
      destruct (facet_exists C (nth f faces []) NF NC I ltac:(lia)) as [i [Hi Pm]]. rewrite LC in Hi.
      pose proof (Hconf c i Hc Hi) as L. rewrite Ec in L.
      unfold n_cells_with, cells_with in *.
      rewrite (filter_ext_in' _ (fun c0 => subsetb (rm i C) (nth c0 cells []))); [assumption|].
      intros c0 _. symmetry. now apply subsetb_perm. }
    lia.
  Qed.

  (* the border faces through E, counted *)
  Theorem border_faces_around_even :
    Nat.even (length (filter (fun f => subsetb E (nth f faces [])) (boundary_faces faces f2c))) = true.
  Proof.
    pose proof (double_count inc Cs Fs) as DC.
    rewrite (list_sum_const _ 2) in DC by (intros c Hc; now apply faces_around_in_cell).
    rewrite (map_ext_in _ (fun f => n_cells_with cells (nth f faces []))) in DC
      by (intros f Hf; unfold n_cells_with; now rewrite cells_around_face).
    assert (OT : forall f, In f Fs -> n_cells_with cells (nth f faces []) = 1 \/ n_cells_with cells (nth f faces []) = 2).
    { intros f Hf. apply n_cells_one_or_two. unfold Fs in Hf. apply filter_In in Hf. destruct Hf as [Hf _].
      apply in_seq in Hf. lia. }
    pose proof (list_sum_one_or_two (fun f => n_cells_with cells (nth f faces [])) Fs OT) as S.
    assert (EQ : filter (fun f => subsetb E (nth f faces [])) (boundary_faces faces f2c)
                 = filter (fun f => n_cells_with cells (nth f faces []) =? 1) Fs).
    { unfold boundary_faces, Fs. fold nf. rewrite filter_comm. rewrite !filter_filter.
      apply filter_ext_in'. intros f Hf. apply in_seq in Hf. f_equal.
      unfold is_face_on_border. unfold f2c. rewrite (F2C_is_cells_with cells faces Hcells Hfaces) by (unfold nf in Hf; lia).
      pose proof (n_cells_one_or_two f ltac:(lia)) as O. unfold n_cells_with in *.
      apply bool_eq_iff. rewrite face_border_test_spec, Nat.eqb_eq. lia. }
    rewrite EQ. apply Nat.even_spec.
    exists (length Fs - length Cs). lia.
  Qed.
End Closed.
