(* C17 property theorems only: each closed by `exact <lemma>` with Print Assumptions beneath. *)
From Coq Require Import ZArith QArith List Bool.
Require Import MV.Lib.Base MV.C17.Gen MV.C17.Model MV.C17.Proofs_Gate.
Open Scope Z_scope.

Theorem C17_gate : forall nv fs,
  rejected nv fs = true <-> nv - n_edges fs + Z.of_nat (length fs) <> 1.
Proof. exact gate_model. Qed.
Print Assumptions C17_gate.
