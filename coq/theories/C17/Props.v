(* C17 property theorems only: each closed by `exact <lemma>` with Print Assumptions beneath.

   FULL fold-free statement (Tutte 1963 / Floater 1997), written down and NOT proved here:
     for every triangulated disk (oriented manifold face list fs over nv vertices, connected, V-E+F = 1, one border
     loop listed in cycle order by bnd, interior vertices listed by free), every assignment (Ub, Vb) of the border
     vertices, in cycle order, to pairwise distinct points met in cyclic order on a convex closed curve, every weight
     choice whose face-edge weights at interior vertices are strictly positive (uniform: always; cotangent: when
     positive), and every solution U, V of the partitioned system (is_solution_U, is_solution_V):
        fold_free (read0 (vertex_writes free bnd U V Ub Vb)) fs = true,
     i.e. all triangles have one strict orientation - on a target that is convex but not strictly convex (the square)
     provided no triangle has its three vertices on one side of the target.
   What IS proved: C17_fold_free_checker_soundness_partial below (the certificate accepted by a run is an exact solution and the boolean
   orientation test means what it says), together with border placement, the harmonic property, the maximum principle
   and the agreement of the outputs.  The run-time orientation test on generated disks is evidence, not proof. *)
From Coq Require Import ZArith QArith Qreals Rdefinitions List Bool.
Import ListNotations.
Require Import MV.Lib.Base MV.C17.Gen MV.C17.Model.
Require Import MV.C17.Proofs_Gate MV.C17.Proofs_Border MV.C17.Proofs_Circle MV.C17.Proofs_Lap MV.C17.Proofs_Harmonic
               MV.C17.Proofs_Max MV.C17.Proofs_Scatter MV.C17.Proofs_Cert MV.C17.Proofs MV.C17.Run MV.C17.Proofs_Scaled
               MV.C17.Proofs_Run MV.C17.Proofs_Disk MV.C17.Proofs_Max2.
Open Scope Z_scope.
Open Scope Q_scope.

(* rejected iff V - E + F <> 1 (generated gate and generated Euler characteristic, model's edge count) *)
Theorem C17_gate : forall nv fs,
  rejected nv fs = true <-> (nv - n_edges fs + Z.of_nat (length fs) <> 1)%Z.
Proof. exact gate_model. Qed.
Print Assumptions C17_gate.

(* square, EVERY border length n >= 3: border vertex v sits at the perimeter curve's point of parameter sq_param n v
   in [0,4); the parameter is strictly increasing along the border; the curve is injective and lies on the square *)
Theorem C17_border_placement_square : forall n : Z, (3 <= n)%Z ->
  (forall v, (0 <= v < n)%Z ->
     sq_U n v == fst (sq_curve (sq_param n v)) /\ sq_V n v == snd (sq_curve (sq_param n v)) /\
     0 <= sq_param n v /\ sq_param n v < 4) /\
  (forall v w, (0 <= v)%Z -> (v < w)%Z -> (w < n)%Z -> sq_param n v < sq_param n w) /\
  (forall s t, 0 <= s -> s < 4 -> 0 <= t -> t < 4 ->
     fst (sq_curve s) == fst (sq_curve t) -> snd (sq_curve s) == snd (sq_curve t) -> s == t) /\
  (forall s, 0 <= s -> s < 4 ->
     let p := sq_curve s in
     ((fst p == 0 \/ fst p == 1) /\ 0 <= snd p /\ snd p <= 1) \/ ((snd p == 0 \/ snd p == 1) /\ 0 <= fst p /\ fst p <= 1)).
Proof. exact border_placement_square. Qed.
Print Assumptions C17_border_placement_square.

(* ... hence pairwise distinct positions *)
Theorem C17_border_placement_square_distinct : forall n v w : Z,
  (3 <= n)%Z -> (0 <= v < n)%Z -> (0 <= w < n)%Z -> v <> w ->
  ~ (sq_U n v == sq_U n w /\ sq_V n v == sq_V n w).
Proof. exact sq_distinct. Qed.
Print Assumptions C17_border_placement_square_distinct.

(* circle: turn fractions i/n, strictly increasing in [0,1); U = cos, V = sin, radius 1 *)
Theorem C17_border_placement_circle : forall n i j : Z, (0 < n)%Z -> (0 <= i)%Z -> (i < j)%Z -> (j < n)%Z ->
  (0 <= circle_turn n i /\ circle_turn n i < circle_turn n j /\ circle_turn n j < 1) /\
  circle_turn n i == inject_Z i / inject_Z n /\
  circle_U_part = PReal /\ circle_V_part = PImag /\ circle_radius == 1.
Proof. exact border_placement_circle. Qed.
Print Assumptions C17_border_placement_circle.

(* ... and the circle is injective on [0,1): pairwise distinct points (over R) *)
Theorem C17_border_placement_circle_distinct : forall n i j : Z, (0 < n)%Z -> (0 <= i)%Z -> (i < j)%Z -> (j < n)%Z ->
  circle_point (Q2R (circle_turn n i)) <> circle_point (Q2R (circle_turn n j)).
Proof. exact circle_distinct. Qed.
Print Assumptions C17_border_placement_circle_distinct.

(* custom: row k of the array is the position of border vertex number k, column 0 = u, column 1 = v *)
Theorem C17_border_placement_custom : forall rows : list (list Q),
  border_custom rows = map (fun r => (znth r 0%Z 0, znth r 1%Z 0)) rows.
Proof. exact border_placement_custom. Qed.
Print Assumptions C17_border_placement_custom.

(* ANY solution of the partitioned system puts every interior vertex at the weighted average of its neighbours:
   (sum of weights) * p_i = sum of weight * p_j over the face edges at i, weights = minus the off-diagonal entries *)
Theorem C17_harmonic : forall fs use_cotan cot free bnd U V Ub Vb,
  NoDup (free ++ bnd) -> length Ub = length bnd -> length Vb = length bnd ->
  let T := lap_triplets fs use_cotan cot in
  is_solution_U T free bnd Ub Vb U -> is_solution_V T free bnd Ub Vb V ->
  forall i, In i free ->
    let p := pos free bnd U V Ub Vb in
    let N := nbrs 0 fs (cot_opt use_cotan cot) i in
    let W := nsum N (fun _ w => w) in
    W * fst (p i) == nsum N (fun j w => w * fst (p j)) /\ W * snd (p i) == nsum N (fun j w => w * snd (p j)).
Proof. exact harmonic_average. Qed.
Print Assumptions C17_harmonic.

(* the assembled Laplacian row IS that weighted difference sum (from the generated coefficient pattern) *)
Theorem C17_harmonic_laplacian_rows : forall fs t cot k f,
  rowdot (row_of (lap_from t fs cot) k) f == nsum (nbrs t fs cot k) (fun j w => w * (f k - f j)).
Proof. exact laplacian_rows. Qed.
Print Assumptions C17_harmonic_laplacian_rows.

(* uniform weights: every face edge weighs 1/2 (positive) *)
Theorem C17_harmonic_uniform_weights : forall fs cot k j w,
  In (j, w) (nbrs 0 fs (cot_opt false cot) k) -> w = (1 # 2).
Proof. exact harmonic_uniform_weights. Qed.
Print Assumptions C17_harmonic_uniform_weights.

(* per-corner and per-vertex storage carry the same coordinates; so do both flat meshes *)
Theorem C17_outputs_agree : forall fs free bnd U V Ub Vb t f k,
  nth_error fs t = Some f -> (0 <= k < 3)%Z ->
  read0 (corner_writes fs free bnd U V Ub Vb) (3 * Z.of_nat t + k)%Z
  = read0 (vertex_writes free bnd U V Ub Vb) (face_vertex f k).
Proof. exact outputs_agree. Qed.
Print Assumptions C17_outputs_agree.

Theorem C17_outputs_agree_flat : forall fs free bnd U V Ub Vb idx f k,
  nth_error fs idx = Some f -> (0 <= k < 3)%Z ->
  let pv := read0 (vertex_writes free bnd U V Ub Vb) in
  let pc := read0 (corner_writes fs free bnd U V Ub Vb) in
  let v := face_vertex f k in
  read0 (flat_from 0 fs false pv) v = pv v /\ read0 (flat_from 0 fs true pc) v = pv v.
Proof. exact flat_agree. Qed.
Print Assumptions C17_outputs_agree_flat.

(* discrete maximum principle (part of the fold-free argument): positive weights + every interior vertex linked to
   the border => every interior vertex lies in every closed half-plane containing the border positions *)
Theorem C17_max_principle_partial : forall fs use_cotan cot free bnd U V Ub Vb,
  NoDup (free ++ bnd) -> length Ub = length bnd -> length Vb = length bnd ->
  let T := lap_triplets fs use_cotan cot in
  is_solution_U T free bnd Ub Vb U -> is_solution_V T free bnd Ub Vb V ->
  let p := pos free bnd U V Ub Vb in
  let N := fun i => nbrs 0 fs (cot_opt use_cotan cot) i in
  (forall i j w, In i free -> In (j, w) (N i) -> 0 < w) ->
  (forall i j w, In i free -> In (j, w) (N i) -> In j free \/ In j bnd) ->
  (forall i, In i free -> linked N bnd i) ->
  forall a b g : Q,
    (forall x, In x bnd -> a * fst (p x) + b * snd (p x) <= g) ->
    forall i, In i free -> a * fst (p i) + b * snd (p i) <= g.
Proof. exact max_principle. Qed.
Print Assumptions C17_max_principle_partial.

(* PARTIAL - this is ONLY the soundness of the per-case checker (Tutte/Floater's theorem itself is not proved): IF the
   certificate check and the boolean orientation test accept, THEN the certificate is an exact solution and its triangles
   are strictly co-oriented.  It says nothing about disks that were not checked. *)
Theorem C17_fold_free_checker_soundness_partial : forall fs use_cotan cot free bnd Ub Vb D NU NV,
  let T := lap_triplets fs use_cotan cot in
  check_cert_with rhs_U T free bnd (comp_list U_border_data [] [] Ub Vb) D NU = true ->
  check_cert_with rhs_V T free bnd (comp_list V_border_data [] [] Ub Vb) D NV = true ->
  let U := cert_values D NU in
  let V := cert_values D NV in
  let p := read0 (vertex_writes free bnd U V Ub Vb) in
  fold_free p fs = true ->
  is_solution_U T free bnd Ub Vb U /\ is_solution_V T free bnd Ub Vb V /\
  ((forall f, In f fs -> 0 < face_det p f) \/ (forall f, In f fs -> face_det p f < 0)).
Proof. exact fold_free_checker_soundness_partial. Qed.
Print Assumptions C17_fold_free_checker_soundness_partial.

(* PARTIAL, about the per-run check itself: a case accepted by [check_ok] carries an exact solution of the model's
   partitioned system and - where the property promises it and the exact orientation was evaluated - all triangles
   of that exact solution have one strict orientation (the run evaluates the sign on D * positions; this theorem
   transfers it to the positions); with uniform weights every interior vertex of the exact solution lies in the convex
   hull of the border positions (the premises of the maximum principle are checked by [disk_links_b]).  This is a statement about each CHECKED case, not about all disks. *)
Theorem C17_fold_free_checked_case_partial : forall c : tcase, check_ok c = true ->
  let B := border_data c in
  let Ub := map fst B in
  let Vb := map snd B in
  let T := lap_triplets (c_faces c) (c_cotan c) (c_cot c) in
  let U := cert_values (k_D c) (k_NU c) in
  let V := cert_values (k_D c) (k_NV c) in
  let p := read0 (vertex_writes (o_free c) (o_bnd c) U V Ub Vb) in
  is_solution_U T (o_free c) (o_bnd c) Ub Vb U /\ is_solution_V T (o_free c) (o_bnd c) Ub Vb V /\
  (promised c (fun v => znth (tabulate (exact_vertex_map c) (c_nv c)) v zero2) = true -> k_exact_orient c = true ->
   (forall f, In f (c_faces c) -> 0 < face_det p f) \/ (forall f, In f (c_faces c) -> face_det p f < 0)) /\
  (c_cotan c = false -> forall i, In i (o_free c) -> in_hull (map p (o_bnd c)) (p i)).
Proof. exact check_ok_establishes. Qed.
Print Assumptions C17_fold_free_checked_case_partial.

(* convexity of the targets.  Circle (over R): any three border points with increasing parameters are strictly
   counter-clockwise - the border polygon is strictly convex *)
Theorem C17_border_circle_strictly_convex : forall n i j k : Z,
  (0 < n)%Z -> (0 <= i)%Z -> (i < j)%Z -> (j < k)%Z -> (k < n)%Z ->
  Rdefinitions.Rlt (Rdefinitions.IZR 0)
    (det3 (circle_point (Q2R (circle_turn n i))) (circle_point (Q2R (circle_turn n j))) (circle_point (Q2R (circle_turn n k)))).
Proof. exact circle_border_strictly_convex. Qed.
Print Assumptions C17_border_circle_strictly_convex.

(* Square, every border length n >= 3: three border vertices in border order never turn clockwise, and are collinear
   only if all three lie on one side of the square (the flat-triangle caveat of the property text) *)
Theorem C17_border_square_weakly_convex : forall n v w x : Z,
  (3 <= n)%Z -> (0 <= v)%Z -> (v < w)%Z -> (w < x)%Z -> (x < n)%Z ->
  let P := fun k => (sq_U n k, sq_V n k) in
  0 <= orient_det (P v) (P w) (P x) /\ (orient_det (P v) (P w) (P x) == 0 -> same_side (P v) (P w) (P x)).
Proof. exact sq_border_convex. Qed.
Print Assumptions C17_border_square_weakly_convex.

(* maximum principle in hull form: [in_hull pts x] = x lies in every closed half-plane containing pts (for finite pts
   this is the closed convex hull; the inclusion "convex combinations are in it" is C17_hull_contains_combinations) *)
Theorem C17_max_principle_hull_partial : forall fs use_cotan cot free bnd U V Ub Vb,
  NoDup (free ++ bnd) -> length Ub = length bnd -> length Vb = length bnd ->
  let T := lap_triplets fs use_cotan cot in
  is_solution_U T free bnd Ub Vb U -> is_solution_V T free bnd Ub Vb V ->
  let p := pos free bnd U V Ub Vb in
  let N := fun i => nbrs 0 fs (cot_opt use_cotan cot) i in
  (forall i j w, In i free -> In (j, w) (N i) -> 0 < w) ->
  (forall i j w, In i free -> In (j, w) (N i) -> In j free \/ In j bnd) ->
  (forall i, In i free -> linked N bnd i) ->
  forall i, In i free -> in_hull (map p bnd) (p i).
Proof. exact max_principle_hull. Qed.
Print Assumptions C17_max_principle_hull_partial.

(* uniform weights (the generated 1/2): no positivity hypothesis is left *)
Theorem C17_max_principle_uniform_partial : forall fs cot free bnd U V Ub Vb,
  NoDup (free ++ bnd) -> length Ub = length bnd -> length Vb = length bnd ->
  let T := lap_triplets fs false cot in
  is_solution_U T free bnd Ub Vb U -> is_solution_V T free bnd Ub Vb V ->
  let p := pos free bnd U V Ub Vb in
  let N := fun i => nbrs 0 fs (cot_opt false cot) i in
  (forall i j w, In i free -> In (j, w) (N i) -> In j free \/ In j bnd) ->
  (forall i, In i free -> linked N bnd i) ->
  forall i, In i free -> in_hull (map p bnd) (p i).
Proof. exact max_principle_uniform. Qed.
Print Assumptions C17_max_principle_uniform_partial.

Theorem C17_hull_contains_combinations : forall pts l,
  (forall w y, In (w, y) l -> 0 <= w /\ In y pts) -> wtot l == 1 -> in_hull pts (comb l).
Proof. exact hull_contains_combinations. Qed.
Print Assumptions C17_hull_contains_combinations.

Theorem C17_hull_in_unit_square : forall pts x,
  (forall y, In y pts -> 0 <= fst y /\ fst y <= 1 /\ 0 <= snd y /\ snd y <= 1) -> in_hull pts x ->
  0 <= fst x /\ fst x <= 1 /\ 0 <= snd x /\ snd x <= 1.
Proof. exact hull_in_box. Qed.
Print Assumptions C17_hull_in_unit_square.

(* the boolean test evaluated on every checked case reflects the combinatorial premises of the maximum principle *)
Theorem C17_disk_links_reflect : forall fs cot free bnd, disk_links_b fs cot free bnd = true ->
  NoDup (free ++ bnd) /\
  (forall i j w, In i free -> In (j, w) (nbrs 0 fs cot i) -> In j free \/ In j bnd) /\
  (forall i, In i free -> linked (fun i => nbrs 0 fs cot i) bnd i).
Proof. exact disk_links_sound. Qed.
Print Assumptions C17_disk_links_reflect.

(* maximum principle, uniform weights, premises discharged by the boolean test: no combinatorial hypothesis is left *)
Theorem C17_max_principle_uniform_checked_partial : forall fs cot free bnd U V Ub Vb,
  disk_links_b fs (cot_opt false cot) free bnd = true ->
  length Ub = length bnd -> length Vb = length bnd ->
  let T := lap_triplets fs false cot in
  is_solution_U T free bnd Ub Vb U -> is_solution_V T free bnd Ub Vb V ->
  let p := pos free bnd U V Ub Vb in
  forall i, In i free -> in_hull (map p bnd) (p i).
Proof. exact max_principle_uniform_checked. Qed.
Print Assumptions C17_max_principle_uniform_checked_partial.

(* constructor mode selection (generated): CUSTOM iff custom_boundary was written with a non-None value *)
Theorem C17_constructor_mode : forall present given_none : bool,
  ctor_mode_custom present given_none = true <-> (present = true /\ given_none = false).
Proof. exact ctor_mode_spec. Qed.
Print Assumptions C17_constructor_mode.

(* where the cotangents come from (generated from operators.laplacian): uniform weights never read the cached table;
   cotangent weights read the persistent attribute when it exists, else compute it now *)
Theorem C17_laplacian_weight_source :
  (forall has_attr, lap_cot_source false has_attr = None) /\
  lap_cot_source true false = Some false /\
  lap_cot_source true true = Some true.
Proof. exact laplacian_weight_source. Qed.
Print Assumptions C17_laplacian_weight_source.

(* REFUTED - known finding seq/stale-cotan-cache-after-vertex-move: the cached table is used as it is, and a solution
   for the cached cotangents is not a solution for different (current) ones *)
Theorem C17_cotan_cache_stale_refuted :
  exists (fs : list face) (free bnd : list Z) (Ub Vb : list Q) (cached current : list Q) (D : Z) (N : list Z),
    lap_cot_source true true = Some true /\
    check_cert_with rhs_U (lap_triplets fs true cached) free bnd (comp_list U_border_data [] [] Ub Vb) D N = true /\
    check_cert_with rhs_U (lap_triplets fs true current) free bnd (comp_list U_border_data [] [] Ub Vb) D N = false.
Proof. exact cotan_cache_stale_refuted. Qed.
Print Assumptions C17_cotan_cache_stale_refuted.

(* ---- round 7: the maximum principle under Floater's hypothesis and with the premises of a connected disk.
   [merge] puts the face-edge items of one neighbour together: the hypothesis is that the TOTAL weight of every edge at an
   interior vertex is positive (single cotangent contributions may be negative); "listed" = every face vertex is interior
   or border; "path" = an edge path to some border vertex.  No boolean guard. *)
Theorem C17_max_principle_disk : forall fs use_cotan cot free bnd U V Ub Vb,
  NoDup (free ++ bnd) -> length Ub = length bnd -> length Vb = length bnd ->
  is_solution_U (lap_triplets fs use_cotan cot) free bnd Ub Vb U ->
  is_solution_V (lap_triplets fs use_cotan cot) free bnd Ub Vb V ->
  (forall f m, In f fs -> (0 <= m < 3)%Z -> In (face_vertex f m) (free ++ bnd)) ->
  (forall i j W, In i free -> In (j, W) (merge (nbrs 0 fs (cot_opt use_cotan cot) i)) -> 0 < W) ->
  (forall i, In i free -> exists z, In z bnd /\ path (fun i => nbrs 0 fs (cot_opt use_cotan cot) i) i z) ->
  forall i, In i free -> in_hull (map (pos free bnd U V Ub Vb) bnd) (pos free bnd U V Ub Vb i).
Proof. exact max_principle_edges. Qed.
Print Assumptions C17_max_principle_disk.

(* uniform weights: Floater's hypothesis holds by itself *)
Theorem C17_max_principle_uniform_disk : forall fs cot free bnd U V Ub Vb,
  NoDup (free ++ bnd) -> length Ub = length bnd -> length Vb = length bnd ->
  is_solution_U (lap_triplets fs false cot) free bnd Ub Vb U ->
  is_solution_V (lap_triplets fs false cot) free bnd Ub Vb V ->
  (forall f m, In f fs -> (0 <= m < 3)%Z -> In (face_vertex f m) (free ++ bnd)) ->
  (forall i, In i free -> exists z, In z bnd /\ path (fun i => nbrs 0 fs (cot_opt false cot) i) i z) ->
  forall i, In i free -> in_hull (map (pos free bnd U V Ub Vb) bnd) (pos free bnd U V Ub Vb i).
Proof. exact max_principle_uniform_disk. Qed.
Print Assumptions C17_max_principle_uniform_disk.

(* strong form: strictly inside every supporting half-plane that some reached border vertex is strictly inside of *)
Theorem C17_strict_interior : forall fs use_cotan cot free bnd U V Ub Vb,
  NoDup (free ++ bnd) -> length Ub = length bnd -> length Vb = length bnd ->
  is_solution_U (lap_triplets fs use_cotan cot) free bnd Ub Vb U ->
  is_solution_V (lap_triplets fs use_cotan cot) free bnd Ub Vb V ->
  (forall f m, In f fs -> (0 <= m < 3)%Z -> In (face_vertex f m) (free ++ bnd)) ->
  (forall i j W, In i free -> In (j, W) (merge (nbrs 0 fs (cot_opt use_cotan cot) i)) -> 0 < W) ->
  (forall i, In i free -> exists z, In z bnd /\ path (fun i => nbrs 0 fs (cot_opt use_cotan cot) i) i z) ->
  forall a b g : Q,
    (forall x, In x bnd -> a * fst (pos free bnd U V Ub Vb x) + b * snd (pos free bnd U V Ub Vb x) <= g) ->
    forall i z, In i free -> reach (fun i => nbrs 0 fs (cot_opt use_cotan cot) i) free bnd i z ->
      a * fst (pos free bnd U V Ub Vb z) + b * snd (pos free bnd U V Ub Vb z) < g ->
      a * fst (pos free bnd U V Ub Vb i) + b * snd (pos free bnd U V Ub Vb i) < g.
Proof. exact strict_interior. Qed.
Print Assumptions C17_strict_interior.

(* first geometric step of the fold-free argument: w.r.t. every border edge (b1,b2) of a convex counter-clockwise border
   polygon, an interior vertex lies strictly on the polygon's side - triangles on a border edge are strictly positive *)
Theorem C17_border_edge_triangles : forall fs use_cotan cot free bnd U V Ub Vb,
  NoDup (free ++ bnd) -> length Ub = length bnd -> length Vb = length bnd ->
  is_solution_U (lap_triplets fs use_cotan cot) free bnd Ub Vb U ->
  is_solution_V (lap_triplets fs use_cotan cot) free bnd Ub Vb V ->
  (forall f m, In f fs -> (0 <= m < 3)%Z -> In (face_vertex f m) (free ++ bnd)) ->
  let N := fun i => nbrs 0 fs (cot_opt use_cotan cot) i in
  (forall i j W, In i free -> In (j, W) (merge (N i)) -> 0 < W) ->
  (forall i, In i free -> exists z, In z bnd /\ path N i z) ->
  let p := pos free bnd U V Ub Vb in
  forall b1 b2 : Z,
    (forall x, In x bnd -> 0 <= orient_det (p b1) (p b2) (p x)) ->
    forall i z, In i free -> reach N free bnd i z -> 0 < orient_det (p b1) (p b2) (p z) ->
    0 < orient_det (p b1) (p b2) (p i).
Proof. exact border_edge_triangles. Qed.
Print Assumptions C17_border_edge_triangles.
