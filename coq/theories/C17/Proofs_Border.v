(* C17 - border placement: the generated border parameters put the border vertices, in border order, at pairwise
   distinct positions met in cyclic order along the convex target.
   Square (tutte.py after fix 59a0edf): for EVERY border length n >= 3 the position of border vertex number v is the
   point of the unit square's perimeter curve at the parameter sq_param n v, which is strictly increasing in v and
   stays in [0,4); the perimeter curve is injective on [0,4).  Circle: the turn fraction is i/n. *)
From Coq Require Import ZArith QArith List Bool Lia Lqa ZifyBool Qfield.
Import ListNotations.
Require Import MV.Lib.Base MV.C17.Gen MV.C17.Model.
Open Scope Z_scope.
Ltac Zify.zify_post_hook ::= Z.to_euclidean_division_equations.

(* perimeter parameter, as a numerator over n: side * n + 4 * (v - corner) *)
Definition pnum (n v : Z) : Z :=
  if v <? n / 4 then 4 * v
  else if v <? n / 2 then n + 4 * (v - n / 4)
  else if v <? (3 * n) / 4 then 2 * n + 4 * (v - n / 2)
  else 3 * n + 4 * (v - (3 * n) / 4).

(* the boundary of the unit square, counter-clockwise from (0,0), numerators over n, parameter t in [0, 4n) *)
Definition sqc_num (n t : Z) : Z * Z :=
  if t <? n then (t, 0) else if t <? 2 * n then (n, t - n) else if t <? 3 * n then (3 * n - t, n) else (0, 4 * n - t).

Lemma pnum_range n v : 3 <= n -> 0 <= v < n -> 0 <= pnum n v < 4 * n.
Proof. intros Hn Hv. unfold pnum. repeat match goal with |- context[if ?b then _ else _] => destruct b eqn:? end; lia. Qed.

Lemma pnum_mono n v w : 3 <= n -> 0 <= v -> v < w -> w < n -> pnum n v < pnum n w.
Proof. intros Hn Hv Hw Hwn. unfold pnum. repeat match goal with |- context[if ?b then _ else _] => destruct b eqn:? end; lia. Qed.

Ltac split_ifs := repeat match goal with |- context[if ?b then _ else _] => destruct b eqn:? end.


Lemma injn_nz n : 0 < n -> ~ (inject_Z n == 0)%Q.
Proof. intros H E. unfold Qeq in E. simpl in E. lia. Qed.

Lemma shape_div n a A : a = A -> (inject_Z a / inject_Z n == inject_Z A / inject_Z n)%Q.
Proof. intros ->. reflexivity. Qed.
Lemma shape_one_minus n b A : 0 < n -> n - b = A -> (inject_Z 1 - inject_Z b / inject_Z n == inject_Z A / inject_Z n)%Q.
Proof.
  intros Hn <-. unfold Z.sub. rewrite inject_Z_plus, inject_Z_opp.
  field. now apply injn_nz.
Qed.
Lemma shape_const n c A : 0 < n -> c * n = A -> (inject_Z c == inject_Z A / inject_Z n)%Q.
Proof. intros Hn <-. rewrite inject_Z_mult. field. now apply injn_nz. Qed.

Ltac shape := first [ apply shape_div | apply shape_one_minus; [lia|] | apply shape_const; [lia|] | apply (shape_const _ 0); [lia|] ].

Lemma sq_U_num n v : 3 <= n -> 0 <= v < n ->
  (sq_U n v == inject_Z (fst (sqc_num n (pnum n v))) / inject_Z n)%Q.
Proof.
  intros Hn Hv. unfold sq_U, sqc_num, pnum.
  split_ifs; try lia; cbn [fst snd]; shape; lia.
Qed.
Lemma sq_V_num n v : 3 <= n -> 0 <= v < n ->
  (sq_V n v == inject_Z (snd (sqc_num n (pnum n v))) / inject_Z n)%Q.
Proof.
  intros Hn Hv. unfold sq_V, sqc_num, pnum.
  split_ifs; try lia; cbn [fst snd]; shape; lia.
Qed.

(* ------------------------------------------------------------------ the perimeter curve over Q *)
Open Scope Q_scope.
Definition sq_curve (s : Q) : Q * Q :=
  if Qlt_le_dec s 1 then (s, 0)
  else if Qlt_le_dec s 2 then (1, s - 1)
  else if Qlt_le_dec s 3 then (3 - s, 1)
  else (0, 4 - s).
Definition sq_param (n v : Z) : Q := inject_Z (pnum n v) / inject_Z n.

Lemma qdiv_lt n a b : (0 < n)%Z -> (inject_Z a / inject_Z n < inject_Z b / inject_Z n <-> (a < b)%Z).
Proof.
  intros Hn. unfold Qdiv.
  assert (Hi : 0 < / inject_Z n).
  { apply Qinv_lt_0_compat. change 0 with (inject_Z 0). rewrite <- Zlt_Qlt. exact Hn. }
  rewrite (Qmult_lt_r _ _ _ Hi). rewrite <- Zlt_Qlt. reflexivity.
Qed.
Lemma qdiv_le n a b : (0 < n)%Z -> (inject_Z a / inject_Z n <= inject_Z b / inject_Z n <-> (a <= b)%Z).
Proof.
  intros Hn. unfold Qdiv.
  assert (Hi : 0 < / inject_Z n).
  { apply Qinv_lt_0_compat. change 0 with (inject_Z 0). rewrite <- Zlt_Qlt. exact Hn. }
  rewrite (Qmult_le_r _ _ _ Hi). rewrite <- Zle_Qle. reflexivity.
Qed.
Lemma qconst n k : (0 < n)%Z -> inject_Z k == inject_Z (k * n) / inject_Z n.
Proof. intros Hn. rewrite inject_Z_mult. field. now apply injn_nz. Qed.

Lemma sq_curve_num n t : (0 < n)%Z -> (0 <= t < 4 * n)%Z ->
  fst (sq_curve (inject_Z t / inject_Z n)) == inject_Z (fst (sqc_num n t)) / inject_Z n /\
  snd (sq_curve (inject_Z t / inject_Z n)) == inject_Z (snd (sqc_num n t)) / inject_Z n.
Proof.
  intros Hn Ht. unfold sq_curve, sqc_num.
  assert (C : forall k, inject_Z t / inject_Z n < inject_Z k <-> (t < k * n)%Z).
  { intros k. rewrite (qconst n k Hn). apply qdiv_lt. exact Hn. }
  assert (C' : forall k, inject_Z k <= inject_Z t / inject_Z n <-> (k * n <= t)%Z).
  { intros k. rewrite (qconst n k Hn). apply qdiv_le. exact Hn. }
  destruct (Qlt_le_dec _ 1) as [H1|H1]; [apply (C 1%Z) in H1 | apply (C' 1%Z) in H1].
  { destruct (Z.ltb_spec t n); try lia. cbn [fst snd]. split; [reflexivity|]. apply (shape_const n 0); lia. }
  destruct (Qlt_le_dec _ 2) as [H2|H2]; [apply (C 2%Z) in H2 | apply (C' 2%Z) in H2].
  { destruct (Z.ltb_spec t n); try lia. destruct (Z.ltb_spec t (2 * n)); try lia. cbn [fst snd]. split.
    - apply (shape_const n 1); lia.
    - unfold Z.sub. rewrite inject_Z_plus, inject_Z_opp. field. now apply injn_nz. }
  destruct (Qlt_le_dec _ 3) as [H3|H3]; [apply (C 3%Z) in H3 | apply (C' 3%Z) in H3].
  { destruct (Z.ltb_spec t n); try lia. destruct (Z.ltb_spec t (2 * n)); try lia.
    destruct (Z.ltb_spec t (3 * n)); try lia. cbn [fst snd]. split.
    - unfold Z.sub. rewrite inject_Z_plus, inject_Z_opp, inject_Z_mult. field. now apply injn_nz.
    - apply (shape_const n 1); lia. }
  destruct (Z.ltb_spec t n); try lia. destruct (Z.ltb_spec t (2 * n)); try lia.
  destruct (Z.ltb_spec t (3 * n)); try lia. cbn [fst snd]. split.
  - apply (shape_const n 0); lia.
  - unfold Z.sub. rewrite inject_Z_plus, inject_Z_opp, inject_Z_mult. field. now apply injn_nz.
Qed.

(* the square border: position = perimeter curve at sq_param, parameter in [0,4) *)
Lemma sq_placement n v : (3 <= n)%Z -> (0 <= v < n)%Z ->
  sq_U n v == fst (sq_curve (sq_param n v)) /\ sq_V n v == snd (sq_curve (sq_param n v)) /\
  0 <= sq_param n v /\ sq_param n v < 4.
Proof.
  intros Hn Hv. pose proof (pnum_range n v Hn Hv) as R.
  destruct (sq_curve_num n (pnum n v)) as [A B]; [lia|lia|].
  unfold sq_param. repeat split.
  - rewrite A. now apply sq_U_num.
  - rewrite B. now apply sq_V_num.
  - change 0 with (inject_Z 0). rewrite (qconst n 0) by lia. apply qdiv_le; lia.
  - change 4 with (inject_Z 4). rewrite (qconst n 4) by lia. apply qdiv_lt; lia.
Qed.

(* ... strictly increasing along the border *)
Lemma sq_param_mono n v w : (3 <= n)%Z -> (0 <= v)%Z -> (v < w)%Z -> (w < n)%Z -> sq_param n v < sq_param n w.
Proof. intros. unfold sq_param. apply qdiv_lt; [lia|]. now apply pnum_mono. Qed.

(* the perimeter curve lies on the boundary of the unit square and is injective on [0,4) *)
Lemma sq_curve_on_square s : 0 <= s -> s < 4 ->
  let p := sq_curve s in
  ((fst p == 0 \/ fst p == 1) /\ 0 <= snd p /\ snd p <= 1) \/ ((snd p == 0 \/ snd p == 1) /\ 0 <= fst p /\ fst p <= 1).
Proof.
  intros H0 H4. unfold sq_curve.
  destruct (Qlt_le_dec s 1); [|destruct (Qlt_le_dec s 2); [|destruct (Qlt_le_dec s 3)]]; cbn [fst snd].
  - right. split; [left; reflexivity|]. split; lra.
  - left. split; [right; reflexivity|]. split; lra.
  - right. split; [right; reflexivity|]. split; lra.
  - left. split; [left; reflexivity|]. split; lra.
Qed.

Lemma sq_curve_inj s t : 0 <= s -> s < 4 -> 0 <= t -> t < 4 ->
  fst (sq_curve s) == fst (sq_curve t) -> snd (sq_curve s) == snd (sq_curve t) -> s == t.
Proof.
  intros Hs0 Hs4 Ht0 Ht4. unfold sq_curve.
  destruct (Qlt_le_dec s 1); [|destruct (Qlt_le_dec s 2); [|destruct (Qlt_le_dec s 3)]];
  (destruct (Qlt_le_dec t 1); [|destruct (Qlt_le_dec t 2); [|destruct (Qlt_le_dec t 3)]]);
  cbn [fst snd]; intros E1 E2; lra.
Qed.

(* hence: pairwise distinct positions, for every border length *)
Lemma sq_distinct n v w : (3 <= n)%Z -> (0 <= v < n)%Z -> (0 <= w < n)%Z -> v <> w ->
  ~ (sq_U n v == sq_U n w /\ sq_V n v == sq_V n w).
Proof.
  intros Hn Hv Hw Hne [EU EV].
  destruct (sq_placement n v Hn Hv) as (U1 & V1 & A1 & B1).
  destruct (sq_placement n w Hn Hw) as (U2 & V2 & A2 & B2).
  rewrite U1, U2 in EU. rewrite V1, V2 in EV.
  pose proof (sq_curve_inj _ _ A1 B1 A2 B2 EU EV) as E.
  destruct (Z.lt_total v w) as [L|[L|L]]; try congruence.
  - pose proof (sq_param_mono n v w Hn ltac:(lia) L ltac:(lia)). lra.
  - pose proof (sq_param_mono n w v Hn ltac:(lia) L ltac:(lia)). lra.
Qed.

(* non-vacuity, and the border lengths that used to collide (5: not a multiple of 4; 8: first vertex after a corner) *)
Example sq_border_5 : map (fun v => (Qred (sq_U 5 v), Qred (sq_V 5 v))) (zrange 5)
  = [(0, 0); (1, 0); (1, 1); (0, 1); (0, 1 # 5)].
Proof. vm_compute. reflexivity. Qed.
Example sq_border_8 : map (fun v => (Qred (sq_U 8 v), Qred (sq_V 8 v))) (zrange 8)
  = [(0, 0); (1 # 2, 0); (1, 0); (1, 1 # 2); (1, 1); (1 # 2, 1); (0, 1); (0, 1 # 2)].
Proof. vm_compute. reflexivity. Qed.

(* ------------------------------------------------------------------ circle *)
Lemma circle_turn_eq n i : (0 < n)%Z -> circle_turn n i == inject_Z i / inject_Z n.
Proof.
  intros Hn. unfold circle_turn, circle_angle_over_pi. field. now apply injn_nz.
Qed.

Lemma circle_params n i j : (0 < n)%Z -> (0 <= i)%Z -> (i < j)%Z -> (j < n)%Z ->
  0 <= circle_turn n i /\ circle_turn n i < circle_turn n j /\ circle_turn n j < 1.
Proof.
  intros Hn Hi Hij Hj. rewrite !circle_turn_eq by exact Hn. repeat split.
  - change 0 with (inject_Z 0). rewrite (qconst n 0) by lia. apply qdiv_le; lia.
  - apply qdiv_lt; lia.
  - change 1 with (inject_Z 1). rewrite (qconst n 1) by lia. apply qdiv_lt; lia.
Qed.

(* U = r cos, V = r sin with r = 1 *)
Lemma circle_parts : circle_U_part = PReal /\ circle_V_part = PImag /\ circle_radius == 1.
Proof. repeat split. Qed.

(* custom: column 0 is U, column 1 is V *)
Lemma custom_columns : custom_U_col = 0%Z /\ custom_V_col = 1%Z.
Proof. split; reflexivity. Qed.

(* ------------------------------------------------------------------ the square target is convex, not strictly:
   three points of the perimeter curve with increasing parameters never turn clockwise, and they are collinear only
   when all three lie on one side of the square (the documented flat-triangle caveat) *)
Definition same_side (p q r : Q * Q) : Prop :=
  (snd p == 0 /\ snd q == 0 /\ snd r == 0) \/ (fst p == 1 /\ fst q == 1 /\ fst r == 1) \/
  (snd p == 1 /\ snd q == 1 /\ snd r == 1) \/ (fst p == 0 /\ fst q == 0 /\ fst r == 0).

Lemma sq_curve_convex s t u : 0 <= s -> s < t -> t < u -> u < 4 ->
  0 <= orient_det (sq_curve s) (sq_curve t) (sq_curve u) /\
  (orient_det (sq_curve s) (sq_curve t) (sq_curve u) == 0 -> same_side (sq_curve s) (sq_curve t) (sq_curve u)).
Proof.
  intros Hs Hst Htu Hu. unfold sq_curve, orient_det, same_side.
  destruct (Qlt_le_dec s 1); [|destruct (Qlt_le_dec s 2); [|destruct (Qlt_le_dec s 3)]];
  (destruct (Qlt_le_dec t 1); [|destruct (Qlt_le_dec t 2); [|destruct (Qlt_le_dec t 3)]]);
  (destruct (Qlt_le_dec u 1); [|destruct (Qlt_le_dec u 2); [|destruct (Qlt_le_dec u 3)]]);
  cbn [fst snd]; try (exfalso; lra); (split; [nra|]); intros E;
  first [ left; repeat split; lra | right; left; repeat split; lra | right; right; left; repeat split; lra
        | right; right; right; repeat split; lra | exfalso; nra
        | left; repeat split; nra | right; left; repeat split; nra | right; right; left; repeat split; nra
        | right; right; right; repeat split; nra ].
Qed.

Lemma orient_det_compat (p q r p' q' r' : Q * Q) :
  fst p == fst p' -> snd p == snd p' -> fst q == fst q' -> snd q == snd q' -> fst r == fst r' -> snd r == snd r' ->
  orient_det p q r == orient_det p' q' r'.
Proof. intros A1 A2 B1 B2 C1 C2. unfold orient_det. rewrite A1, A2, B1, B2, C1, C2. reflexivity. Qed.

(* the square border polygon, every border length: weakly convex, flat only along one side *)
Lemma sq_border_convex n v w x : (3 <= n)%Z -> (0 <= v)%Z -> (v < w)%Z -> (w < x)%Z -> (x < n)%Z ->
  let P := fun k => (sq_U n k, sq_V n k) in
  0 <= orient_det (P v) (P w) (P x) /\ (orient_det (P v) (P w) (P x) == 0 -> same_side (P v) (P w) (P x)).
Proof.
  intros Hn Hv Hvw Hwx Hx P.
  destruct (sq_placement n v Hn ltac:(lia)) as (U1 & V1 & A1 & B1).
  destruct (sq_placement n w Hn ltac:(lia)) as (U2 & V2 & A2 & B2).
  destruct (sq_placement n x Hn ltac:(lia)) as (U3 & V3 & A3 & B3).
  pose proof (sq_param_mono n v w Hn Hv Hvw ltac:(lia)) as M1.
  pose proof (sq_param_mono n w x Hn ltac:(lia) Hwx Hx) as M2.
  destruct (sq_curve_convex _ _ _ A1 M1 M2 B3) as [C0 CF].
  assert (E : orient_det (P v) (P w) (P x) == orient_det (sq_curve (sq_param n v)) (sq_curve (sq_param n w)) (sq_curve (sq_param n x))).
  { apply orient_det_compat; unfold P; cbn [fst snd]; assumption. }
  split; [rewrite E; exact C0|]. intros Z0. rewrite E in Z0. specialize (CF Z0).
  unfold same_side in *. unfold P. cbn [fst snd]. rewrite U1, U2, U3, V1, V2, V3. exact CF.
Qed.
