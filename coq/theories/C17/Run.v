(* C17 - the per-case correspondence check evaluated by the kernel (vm_compute) on every run.  NO proofs here.
   A case carries the input handed to mouette, what mouette returned (floats rationalised exactly), and a
   certificate: an exact rational solution N/D of the partitioned system, computed outside and VERIFIED here. *)
From Coq Require Import ZArith QArith Qabs List Bool.
From Coq Require Uint63.
Import ListNotations.
Require Import MV.Lib.Base MV.C17.Gen MV.C17.Model.
Open Scope Z_scope.
Open Scope Q_scope.

Record tcase := mk_case {
  c_nv : Z; c_faces : list face; c_cotan : bool;
  c_cot : list Q;                 (* per-corner cotangents the Laplacian read (cotan mode), as mouette computed them *)
  c_mode : bmode; c_custom : list (list Q);   (* rows handed to custom_boundary *)
  o_rejected : bool; o_ne : Z;
  o_free : list Z; o_bnd : list Z;            (* the index lists tutte.run partitions with *)
  o_uvV : list (Q * Q); o_uvC : list (Q * Q); (* per-vertex / per-corner output *)
  o_flatV : list (Q * Q); o_flatC : list (Q * Q);
  o_turn : list (Q * Q);          (* circle: (atan2(V,U), atan2(U,V)) / 2pi of every border position, in border order *)
  k_D : Z; k_NU : list Z; k_NV : list Z;      (* certificate *)
  k_posw : bool;                  (* cotan: every edge at an interior vertex has a strictly positive weight *)
  k_exact_orient : bool           (* orientation of the exact solution is evaluated (skipped for huge numerators) *)
}.

(* ---- compact literals for the case files (parsing Q literals is slow: ~2 ms each) -------------------------------
   a binary64 value as sign, 53-bit mantissa (primitive integer) and exponent:  fq s m e = (-1)^s m 2^e  exactly *)
Definition fq (neg : bool) (m : Uint63.int) (e : Z) : Q :=
  let z := Uint63.to_Z m in
  let z := if neg then (- z)%Z else z in
  if (0 <=? e)%Z then Qmake (Z.shiftl z e) 1 else Qmake z (Pos.shiftl 1 (Z.to_N (- e))).
(* a big integer from its base-2^62 limbs, least significant first (decimal Z literals parse quadratically) *)
Definition zbig (neg : bool) (limbs : list Uint63.int) : Z :=
  let a := fold_right (fun l acc => (Uint63.to_Z l + 4611686018427387904 * acc)%Z) 0%Z limbs in
  if neg then (- a)%Z else a.
(* the four output tables are given as indices into one pool of distinct observed points (lossless compression) *)
Definition unpool (pool : list (Q * Q)) (ix : list Z) : list (Q * Q) := map (fun i => znth pool i (0, 0)) ix.
Definition mk_case_p nv fs cotan cot mode custom rej ne free bnd (pool : list (Q * Q)) iV iC ifV ifC turn D NU NV posw eo : tcase :=
  mk_case nv fs cotan cot mode custom rej ne free bnd (unpool pool iV) (unpool pool iC) (unpool pool ifV) (unpool pool ifC)
          turn D NU NV posw eo.

Definition tol : Q := 1 # 1000000000.
Definition qclose (a b : Q) : bool := Qle_bool (Qabs (a - b)) (tol * (1 + Qabs b)).
Definition pclose (a b : Q * Q) : bool := qclose (fst a) (fst b) && qclose (snd a) (snd b).
Definition zero2 : Q * Q := (0, 0).

Definition n_border (c : tcase) : Z := Z.of_nat (length (o_bnd c)).

(* the border coordinates (Ubnd, Vbnd) the model works with *)
Definition border_data (c : tcase) : list (Q * Q) :=
  match c_mode c with
  | MSquare => border_square (n_border c)
  | MCustom => border_custom (c_custom c)
  | MCircle => map (fun v => znth (o_uvV c) v zero2) (o_bnd c)      (* cos/sin are not computed here *)
  end.

(* circle: the observed turn agrees (mod 1) with the generated parameter, the point lies at the generated radius *)
Definition turn_close (a b : Q) : bool :=
  let d := Qabs (a - b) in Qle_bool d tol || Qle_bool (Qabs (d - 1)) tol.
Definition circle_ok (c : tcase) : bool :=
  let n := n_border c in
  (length (o_turn c) =? length (o_bnd c))%nat &&
  forallb (fun it => let '(i, (p, t)) := it in
             let obs := match circle_U_part, circle_V_part with
                        | PReal, PImag => Some (fst t)
                        | PImag, PReal => Some (snd t)
                        | _, _ => None
                        end in
             match obs with
             | Some t0 => turn_close t0 (circle_turn n i)
             | None => false
             end
             && qclose (fst p * fst p + snd p * snd p) (circle_radius * circle_radius))
          (combine (zrange n) (combine (border_data c) (o_turn c))).

(* the two index lists partition the vertices; the border list follows the border *)
Definition occurs (l : list Z) (v : Z) : nat := length (filter (Z.eqb v) l).
Definition is_partition (nv : Z) (free bnd : list Z) : bool :=
  forallb (fun v => (occurs (free ++ bnd) v =? 1)%nat) (zrange nv) && (Z.of_nat (length (free ++ bnd)) =? nv)%Z.
Definition dir_edges (fs : list face) : list (Z * Z) := flat_map face_edges fs.
Definition border_dir (fs : list face) : list (Z * Z) :=
  let E := dir_edges fs in filter (fun e => negb (existsb (pair_eqb (snd e, fst e)) E)) E.
Definition cyc_pairs (l : list Z) : list (Z * Z) :=
  match l with [] => [] | x :: t => combine l (t ++ [x]) end.
Definition border_ok (c : tcase) : bool :=
  let B := border_dir (c_faces c) in
  (length B =? length (o_bnd c))%nat &&
  if bnd_is_cycle (match c_mode c with MCustom => true | _ => false end)
  then forallb (fun pr => existsb (pair_eqb pr) B || existsb (pair_eqb (snd pr, fst pr)) B) (cyc_pairs (o_bnd c))
  else forallb (fun e => existsb (Z.eqb (fst e)) (o_bnd c)) B.

(* the exact solution N/D rounded down to a multiple of 2^-90 (so that the comparisons with the implementation's
   floats, tolerance 1e-9, run on small numbers; the certificate check and the orientation use N and D themselves) *)
Definition two90 : Z := 1237940039285380274899124224%Z.
Definition cert_round (D : Z) (N : list Z) : list Q := map (fun n => Qmake (n * two90 / D)%Z (Z.to_pos two90)) N.

(* the model's output, built from the (rounded) certificate by the model's own scatter *)
Definition exact_vertex_map (c : tcase) : uvmap :=
  let B := border_data c in
  vertex_writes (o_free c) (o_bnd c) (cert_round (k_D c) (k_NU c)) (cert_round (k_D c) (k_NV c)) (map fst B) (map snd B).
Definition exact_corner_map (c : tcase) : uvmap :=
  let B := border_data c in
  corner_writes (c_faces c) (o_free c) (o_bnd c) (cert_round (k_D c) (k_NU c)) (cert_round (k_D c) (k_NV c)) (map fst B) (map snd B).

(* the same, multiplied by the common denominator D > 0 (orientation signs are unchanged, numbers stay small) *)
Definition scaled_vertex_map (c : tcase) : uvmap :=
  let B := border_data c in
  let d := inject_Z (k_D c) in
  vertex_writes (o_free c) (o_bnd c) (map inject_Z (k_NU c)) (map inject_Z (k_NV c))
                (map (Qmult d) (map fst B)) (map (Qmult d) (map snd B)).

Definition tabulate (w : uvmap) (n : Z) : list (Q * Q) := map (read0 w) (zrange n).
Definition all_close (model obs : list (Q * Q)) : bool :=
  (length model =? length obs)%nat && forallb (fun ab => pclose (fst ab) (snd ab)) (combine obs model).

Definition on_side (k : Z) (p : Q * Q) : bool :=
  if (k =? 0)%Z then Qeq_bool (snd p) 0 else if (k =? 1)%Z then Qeq_bool (fst p) 1
  else if (k =? 2)%Z then Qeq_bool (snd p) 1 else Qeq_bool (fst p) 0.
Definition tri_on_side (pos : Z -> Q * Q) (f : face) : bool :=
  let '(a, b, c) := f in
  existsb (fun k => on_side k (pos a) && on_side k (pos b) && on_side k (pos c)) [0%Z; 1%Z; 2%Z; 3%Z].

(* does the property promise a fold-free result on this case? *)
Definition promised (c : tcase) (pos : Z -> Q * Q) : bool :=
  (if c_cotan c then k_posw c else true) &&
  match c_mode c with MSquare => negb (existsb (tri_on_side pos) (c_faces c)) | _ => true end.

Definition check_ok (c : tcase) : bool :=
  let fs := c_faces c in
  let free := o_free c in
  let bnd := o_bnd c in
  let B := border_data c in
  let T := lap_triplets fs (c_cotan c) (c_cot c) in
  let nf := Z.of_nat (length fs) in
  let exactV := tabulate (exact_vertex_map c) (c_nv c) in
  let exactC := tabulate (exact_corner_map c) (3 * nf)%Z in
  let posE := fun v => znth exactV v zero2 in
  let posI := fun v => znth (o_uvV c) v zero2 in
  let posS := read0 (scaled_vertex_map c) in
  is_partition (c_nv c) free bnd && border_ok c &&
  (* no repetition in the index lists, every neighbour of an interior vertex listed, every interior vertex joined to
     the border (the premises of the maximum principle, reflected by Proofs_Disk.disk_links_sound) *)
  disk_links_b fs (if lap_cotan_flag (c_cotan c) then Some (c_cot c) else None) free bnd &&
  (length B =? length bnd)%nat &&
  match c_mode c with MCircle => circle_ok c | _ => true end &&
  (* the certificate is an exact solution of the model's partitioned system, for both coordinates *)
  check_cert_with rhs_U T free bnd (comp_list U_border_data [] [] (map fst B) (map snd B)) (k_D c) (k_NU c) &&
  check_cert_with rhs_V T free bnd (comp_list V_border_data [] [] (map fst B) (map snd B)) (k_D c) (k_NV c) &&
  (* the implementation's outputs agree with the model's exact output, in both storages and in both flat meshes *)
  all_close exactV (o_uvV c) && all_close exactC (o_uvC c) &&
  all_close (tabulate (flat_from 0%Z fs false posE) (c_nv c)) (o_flatV c) &&
  all_close (tabulate (flat_from 0%Z fs true (fun k => znth exactC k zero2)) (c_nv c)) (o_flatC c) &&
  (* evidence for the fold-free clause (Tutte/Floater's theorem is NOT proved): exact orientation signs *)
  (if promised c posE
   then fold_free posI fs && (if k_exact_orient c then fold_free posS fs else true)
   else true).

Definition check_case (c : tcase) : bool :=
  let nv := c_nv c in
  let fs := c_faces c in
  Bool.eqb (rejected nv fs) (o_rejected c) && (n_edges fs =? o_ne c)%Z &&
  (if o_rejected c then true else check_ok c).

(* one checked unit = how the caller wrote the optional keyword custom_boundary (present / given as None) + the case:
   the mode the generated constructor logic selects must be the mode the case was run in (a usable custom boundary
   is handed over iff the case is a custom-mode case) *)
Definition check_unit (u : bool * bool * tcase) : bool :=
  let '(present, given_none, c) := u in
  Bool.eqb (ctor_mode_custom present given_none) (match c_mode c with MCustom => true | _ => false end) &&
  check_case c.
