(* C17 - soundness of the per-run certificate check: if [check_cert_with] accepts (D, N) then N/D is an exact solution
   of the model's partitioned system (so the harmonic property and the maximum principle apply to it); meaning of the
   boolean orientation test [fold_free]. *)
From Coq Require Import ZArith QArith List Bool Lia Lqa Qfield.
Import ListNotations.
Require Import MV.Lib.Base MV.C17.Gen MV.C17.Model MV.C17.Proofs_Lap MV.C17.Proofs_Harmonic.
Open Scope Z_scope.
Open Scope Q_scope.

Lemma cert_scale (D : Z) (n : Z) : (0 < D)%Z -> Qmake n (Z.to_pos D) * inject_Z D == inject_Z n.
Proof.
  intros HD. destruct D as [|p|p]; try lia.
  unfold Qeq, Qmult, inject_Z. cbn [Qnum Qden Z.to_pos]. rewrite Pos.mul_1_r. ring.
Qed.

Lemma dotl_scale R (D : Z) : (0 < D)%Z -> forall idx N,
  dotl R (combine idx (cert_values D N)) * inject_Z D == dotl R (combine idx (map inject_Z N)).
Proof.
  intros HD. induction idx as [|k idx IH]; intros N; [simpl; ring|].
  destruct N as [|n N]; [simpl; ring|].
  unfold cert_values in *. cbn [map combine]. rewrite !dotl_cons. rewrite <- IH.
  rewrite <- (cert_scale D n HD). ring.
Qed.

Lemma forallb_Forall {A} (p : A -> bool) (P : A -> Prop) l :
  (forall x, p x = true -> P x) -> forallb p l = true -> Forall P l.
Proof.
  intros H. induction l as [|a t IH]; simpl; intros E; constructor.
  - apply H. now apply andb_true_iff in E.
  - apply IH. now apply andb_true_iff in E.
Qed.

Lemma injD_nz D : (0 < D)%Z -> ~ inject_Z D == 0.
Proof. intros H E. unfold Qeq in E. simpl in E. lia. Qed.

Theorem cert_sound_U T free bnd Ub Vb D N :
  check_cert_with rhs_U T free bnd (comp_list U_border_data [] [] Ub Vb) D N = true ->
  is_solution_U T free bnd Ub Vb (cert_values D N).
Proof.
  unfold check_cert_with. intros H. apply andb_true_iff in H as [H H3]. apply andb_true_iff in H as [H1 H2].
  apply Z.ltb_lt in H1. apply Nat.eqb_eq in H2. split.
  - unfold cert_values. rewrite map_length. exact H2.
  - revert H3. apply forallb_Forall. intros r E. apply Qeq_bool_iff in E.
    unfold sys_lhs in *. pose proof (dotl_scale (row_of T (fst r)) D H1 (sel_list LI_cols free bnd) N) as S.
    rewrite <- S in E. unfold rhs_U in *.
    apply (Qmult_inj_r _ _ (inject_Z D)); [now apply injD_nz|]. rewrite E. ring.
Qed.

Theorem cert_sound_V T free bnd Ub Vb D N :
  check_cert_with rhs_V T free bnd (comp_list V_border_data [] [] Ub Vb) D N = true ->
  is_solution_V T free bnd Ub Vb (cert_values D N).
Proof.
  unfold check_cert_with. intros H. apply andb_true_iff in H as [H H3]. apply andb_true_iff in H as [H1 H2].
  apply Z.ltb_lt in H1. apply Nat.eqb_eq in H2. split.
  - unfold cert_values. rewrite map_length. exact H2.
  - revert H3. apply forallb_Forall. intros r E. apply Qeq_bool_iff in E.
    unfold sys_lhs in *. pose proof (dotl_scale (row_of T (fst r)) D H1 (sel_list LI_cols free bnd) N) as S.
    rewrite <- S in E. unfold rhs_V in *.
    apply (Qmult_inj_r _ _ (inject_Z D)); [now apply injD_nz|]. rewrite E. ring.
Qed.

(* the boolean orientation test means: all triangles strictly positive, or all strictly negative *)
Lemma qpos_spec x : qpos x = true <-> 0 < x.
Proof. unfold qpos, Qlt. simpl. rewrite Z.mul_1_r. apply Z.ltb_lt. Qed.
Lemma qneg_spec x : qneg x = true <-> x < 0.
Proof. unfold qneg, Qlt. simpl. rewrite Z.mul_1_r. apply Z.ltb_lt. Qed.

Theorem fold_free_spec pos fs :
  fold_free pos fs = true <->
  (forall f, In f fs -> 0 < face_det pos f) \/ (forall f, In f fs -> face_det pos f < 0).
Proof.
  unfold fold_free. rewrite orb_true_iff, !forallb_forall. split.
  - intros [H|H]; [left|right]; intros f Hf; [apply qpos_spec | apply qneg_spec]; auto.
  - intros [H|H]; [left|right]; intros f Hf; [apply qpos_spec | apply qneg_spec]; auto.
Qed.

(* non-vacuity: the fan over a square border (centre 4): certificate 1/2, 1/2 *)
Definition ex_faces : list face := [(4, 0, 1); (4, 1, 2); (4, 2, 3); (4, 3, 0)]%Z.
Definition ex_B : list (Q * Q) := border_square 4.
Example ex_cert_U :
  check_cert_with rhs_U (lap_triplets ex_faces false []) [4%Z] [0; 1; 2; 3]%Z
    (comp_list U_border_data [] [] (map fst ex_B) (map snd ex_B)) 2 [1%Z] = true.
Proof. vm_compute. reflexivity. Qed.
Example ex_cert_V :
  check_cert_with rhs_V (lap_triplets ex_faces false []) [4%Z] [0; 1; 2; 3]%Z
    (comp_list V_border_data [] [] (map fst ex_B) (map snd ex_B)) 2 [1%Z] = true.
Proof. vm_compute. reflexivity. Qed.
Example ex_fold_free :
  fold_free (read0 (vertex_writes [4%Z] [0; 1; 2; 3]%Z (cert_values 2 [1%Z]) (cert_values 2 [1%Z]) (map fst ex_B) (map snd ex_B)))
            ex_faces = true.
Proof. vm_compute. reflexivity. Qed.

(* ------------------------------------------------------------------ where the cotangents come from (generated) *)
Lemma laplacian_weight_source :
  (forall has_attr, lap_cot_source false has_attr = None) /\      (* uniform weights asked: a cached table is never used *)
  lap_cot_source true false = Some false /\                       (* no cache: computed now from the current vertices *)
  lap_cot_source true true = Some true.                           (* cache present: used as it is *)
Proof. split; [intros [|]; reflexivity|]. split; reflexivity. Qed.

(* REFUTED (known finding seq/stale-cotan-cache-after-vertex-move): "a cotangent embedding solves the system of the
   mesh's CURRENT cotangents".  The code reads the persistent attribute when it exists and nothing invalidates it when
   vertices move; a solution for the cached table is in general no solution for the current one. Witness: the fan over
   the four square corners, cached cotangents all 1, current cotangents with one corner at 3. *)
Definition ex_cot_cached : list Q := [1; 1; 1; 1; 1; 1; 1; 1; 1; 1; 1; 1].
Definition ex_cot_current : list Q := [1; 3; 1; 1; 1; 1; 1; 1; 1; 1; 1; 1].
Lemma cotan_cache_stale_refuted :
  exists (fs : list face) (free bnd : list Z) (Ub Vb : list Q) (cached current : list Q) (D : Z) (N : list Z),
    lap_cot_source true true = Some true /\
    check_cert_with rhs_U (lap_triplets fs true cached) free bnd (comp_list U_border_data [] [] Ub Vb) D N = true /\
    check_cert_with rhs_U (lap_triplets fs true current) free bnd (comp_list U_border_data [] [] Ub Vb) D N = false.
Proof.
  exists ex_faces, [4%Z], [0; 1; 2; 3]%Z, (map fst ex_B), (map snd ex_B), ex_cot_cached, ex_cot_current, 2%Z, [1%Z].
  repeat split; vm_compute; reflexivity.
Qed.
