(* C17 - the Euler-characteristic gate (generated predicate). *)
From Coq Require Import ZArith QArith List Bool Lia.
Import ListNotations.
Require Import MV.Lib.Base MV.C17.Gen MV.C17.Model.
Open Scope Z_scope.

Lemma gate_spec : forall v e f : Z, gate_reject (euler_char v e f) = true <-> v - e + f <> 1.
Proof.
  intros v e f. unfold gate_reject, euler_char.
  destruct (Z.eqb_spec (v - e + f) 1) as [E|E]; simpl; split; intros H; try congruence; try lia; auto.
Qed.

(* on the model's mesh: rejected iff V - E + F <> 1 with E the number of distinct undirected face edges *)
Lemma gate_model : forall nv fs,
  rejected nv fs = true <-> nv - n_edges fs + Z.of_nat (length fs) <> 1.
Proof. intros. unfold rejected, chi_of. apply gate_spec. Qed.

(* non-vacuity: a tetrahedron (chi = 2) is rejected, a single triangle (chi = 1) is accepted *)
Example gate_rejects_tetra : rejected 4 [(0,2,1); (0,1,3); (1,2,3); (2,0,3)] = true.
Proof. vm_compute. reflexivity. Qed.
Example gate_accepts_triangle : rejected 3 [(0,1,2)] = false.
Proof. vm_compute. reflexivity. Qed.

(* constructor: the mode is CUSTOM exactly when the caller wrote custom_boundary with a value other than None -
   omitting the keyword and passing its default None explicitly select the mode named by boundary_mode *)
Lemma ctor_mode_spec : forall present given_none : bool,
  ctor_mode_custom present given_none = true <-> (present = true /\ given_none = false).
Proof. intros [|] [|]; unfold ctor_mode_custom; simpl; split; intros H; try discriminate; try tauto; destruct H; discriminate. Qed.
