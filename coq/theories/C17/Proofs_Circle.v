(* C17 - the circle t |-> (cos 2 pi t, sin 2 pi t) is injective on [0,1): together with the strictly increasing turn
   fractions i/n (Proofs_Border.circle_params) the circle border positions are pairwise distinct and met in cyclic
   order.  Over R (the only file of C17 that uses the real numbers). *)
From Coq Require Import ZArith QArith Qreals Reals Lra Lia.
Require Import MV.Lib.Base MV.C17.Gen MV.C17.Model MV.C17.Proofs_Border.
Open Scope R_scope.

Definition circle_point (t : R) : R * R := (cos (2 * PI * t), sin (2 * PI * t)).

Lemma circle_point_inj : forall s t : R, 0 <= s < 1 -> 0 <= t < 1 -> circle_point s = circle_point t -> s = t.
Proof.
  intros s t Hs Ht E. unfold circle_point in E. injection E as Ec Es.
  set (a := 2 * PI * s) in *. set (b := 2 * PI * t) in *.
  pose proof PI_RGT_0 as Hpi.
  assert (Hc : cos (a - b) = 1).
  { rewrite cos_minus, Ec, Es. pose proof (sin2_cos2 b) as H. unfold Rsqr in H. lra. }
  assert (Hsn : sin (a - b) = 0).
  { rewrite sin_minus, Ec, Es. ring. }
  destruct (sin_eq_0_0 _ Hsn) as [k Hk].
  assert (Hab : - (2 * PI) < a - b < 2 * PI).
  { unfold a, b. split; nra. }
  assert (Hk2 : (-2 < k < 2)%Z).
  { split; apply lt_IZR; rewrite Hk in Hab; nra. }
  assert (K : (k = -1 \/ k = 0 \/ k = 1)%Z) by lia.
  destruct K as [K|[K|K]]; subst k.
  - rewrite Hk in Hc. replace (-1 * PI) with (- PI) in Hc by ring. rewrite cos_neg, cos_PI in Hc. lra.
  - assert (a = b) by lra. unfold a, b in H. nra.
  - rewrite Hk in Hc. replace (1 * PI) with PI in Hc by ring. rewrite cos_PI in Hc. lra.
Qed.

(* the generated circle parameters, read as real numbers, give pairwise distinct points of the unit circle *)
Lemma circle_distinct : forall n i j : Z, (0 < n)%Z -> (0 <= i)%Z -> (i < j)%Z -> (j < n)%Z ->
  circle_point (Q2R (circle_turn n i)) <> circle_point (Q2R (circle_turn n j)).
Proof.
  intros n i j Hn Hi Hij Hj E.
  destruct (circle_params n i j Hn Hi Hij Hj) as (A & B & C).
  assert (Ti : 0 <= Q2R (circle_turn n i) < 1).
  { split.
    - replace 0 with (Q2R 0) by (unfold Q2R; simpl; lra). now apply Qle_Rle.
    - replace 1 with (Q2R 1) by (unfold Q2R; simpl; lra). apply Qlt_Rlt. eapply Qlt_trans; eauto. }
  assert (Tj : 0 <= Q2R (circle_turn n j) < 1).
  { split.
    - replace 0 with (Q2R 0) by (unfold Q2R; simpl; lra). apply Qle_Rle. apply Qlt_le_weak. eapply Qle_lt_trans; eauto.
    - replace 1 with (Q2R 1) by (unfold Q2R; simpl; lra). now apply Qlt_Rlt. }
  pose proof (circle_point_inj _ _ Ti Tj E) as H.
  apply Qlt_Rlt in B. lra.
Qed.

(* ------------------------------------------------------------------ strict convexity of the circle placement:
   any three points with increasing parameters in [0,1) are strictly counter-clockwise, hence the border polygon
   (parameters i/n in cyclic order) is strictly convex *)
Definition det3 (p q r : R * R) : R :=
  (fst q - fst p) * (snd r - snd p) - (snd q - snd p) * (fst r - fst p).

Lemma circle_strictly_convex : forall a b c : R, 0 <= a -> a < b -> b < c -> c < 1 ->
  0 < det3 (circle_point a) (circle_point b) (circle_point c).
Proof.
  intros a b c Ha Hab Hbc Hc. unfold det3, circle_point. cbn [fst snd].
  set (A := 2 * PI * a). set (B := 2 * PI * b). set (C := 2 * PI * c).
  pose proof PI_RGT_0 as Hpi.
  rewrite (form2 B A), (form4 C A), (form4 B A), (form2 C A).
  assert (E : sin ((C - B) / 2) = sin ((C + A) / 2) * cos ((B + A) / 2) - cos ((C + A) / 2) * sin ((B + A) / 2)).
  { replace ((C - B) / 2) with ((C + A) / 2 - (B + A) / 2) by field. apply sin_minus. }
  assert (P1 : 0 < sin ((B - A) / 2)).
  { apply sin_gt_0; unfold A, B; nra. }
  assert (P2 : 0 < sin ((C - A) / 2)).
  { apply sin_gt_0; unfold A, C; nra. }
  assert (P3 : 0 < sin ((C - B) / 2)).
  { apply sin_gt_0; unfold B, C; nra. }
  replace (-2 * sin ((B - A) / 2) * sin ((B + A) / 2) * (2 * cos ((C + A) / 2) * sin ((C - A) / 2)) -
           2 * cos ((B + A) / 2) * sin ((B - A) / 2) * (-2 * sin ((C - A) / 2) * sin ((C + A) / 2)))
    with (4 * sin ((B - A) / 2) * sin ((C - A) / 2) * sin ((C - B) / 2)) by (rewrite E; ring).
  assert (0 < sin ((B - A) / 2) * sin ((C - A) / 2)) by (apply Rmult_lt_0_compat; assumption).
  assert (0 < sin ((B - A) / 2) * sin ((C - A) / 2) * sin ((C - B) / 2)) by (apply Rmult_lt_0_compat; assumption).
  lra.
Qed.

(* for the generated parameters *)
Lemma circle_border_strictly_convex : forall n i j k : Z, (0 < n)%Z -> (0 <= i)%Z -> (i < j)%Z -> (j < k)%Z -> (k < n)%Z ->
  0 < det3 (circle_point (Q2R (circle_turn n i))) (circle_point (Q2R (circle_turn n j))) (circle_point (Q2R (circle_turn n k))).
Proof.
  intros n i j k Hn Hi Hij Hjk Hk.
  destruct (circle_params n i j Hn Hi Hij ltac:(lia)) as (A & B & _).
  destruct (circle_params n j k Hn ltac:(lia) Hjk Hk) as (_ & C & D).
  apply circle_strictly_convex.
  - replace 0 with (Q2R 0) by (unfold Q2R; simpl; lra). now apply Qle_Rle.
  - now apply Qlt_Rlt.
  - now apply Qlt_Rlt.
  - replace 1 with (Q2R 1) by (unfold Q2R; simpl; lra). now apply Qlt_Rlt.
Qed.
