(* C17 - the per-corner storage, the per-vertex storage and the two flat meshes carry the same coordinates. *)
From Coq Require Import ZArith QArith List Bool Lia.
Import ListNotations.
Require Import MV.Lib.Base MV.C17.Gen MV.C17.Model.
Open Scope Z_scope.

Lemma read_app (l1 l2 : uvmap) c :
  read (l1 ++ l2) c = match read l2 c with Some y => Some y | None => read l1 c end.
Proof.
  induction l1 as [|[k x] t IH]; simpl; [destruct (read l2 c); reflexivity|].
  rewrite IH. destruct (read l2 c); reflexivity.
Qed.

Lemma read_const_map (cs : list Z) (x : Q * Q) c :
  read (map (fun c' => (c', x)) cs) c = if existsb (Z.eqb c) cs then Some x else None.
Proof.
  induction cs as [|a t IH]; simpl; [reflexivity|]. rewrite IH.
  destruct (existsb (Z.eqb c) t); [now rewrite orb_true_r|].
  rewrite orb_false_r. rewrite (Z.eqb_sym c a). reflexivity.
Qed.

(* the corners of v are exactly the corners 3(t0+idx)+k whose face vertex is v *)
Lemma corners_from_spec fs : forall t0 v c,
  In c (corners_from t0 fs v) <->
  exists idx f k, nth_error fs idx = Some f /\ 0 <= k < 3 /\ c = 3 * (t0 + Z.of_nat idx) + k /\ face_vertex f k = v.
Proof.
  induction fs as [|[[p q] r] rest IH]; intros t0 v c; cbn [corners_from].
  - split; [contradiction|]. intros (idx & f & k & H & _). destruct idx; discriminate.
  - rewrite !in_app_iff, IH. split.
    + intros [H|[H|[H|H]]].
      * destruct (Z.eqb_spec p v); [|contradiction]. destruct H as [<-|[]].
        exists 0%nat, (p, q, r), 0. split; [reflexivity|]. split; [lia|]. split; [change (Z.of_nat 0) with 0; lia | exact e].
      * destruct (Z.eqb_spec q v); [|contradiction]. destruct H as [<-|[]].
        exists 0%nat, (p, q, r), 1. split; [reflexivity|]. split; [lia|]. split; [change (Z.of_nat 0) with 0; lia | exact e].
      * destruct (Z.eqb_spec r v); [|contradiction]. destruct H as [<-|[]].
        exists 0%nat, (p, q, r), 2. split; [reflexivity|]. split; [lia|]. split; [change (Z.of_nat 0) with 0; lia | exact e].
      * destruct H as (idx & f & k & H1 & H2 & H3 & H4).
        exists (S idx), f, k. cbn [nth_error]. repeat split; try assumption; lia.
    + intros (idx & f & k & H1 & H2 & H3 & H4). destruct idx as [|idx].
      * cbn in H1. injection H1 as E0. subst f. cbn [face_vertex] in H4.
        assert (K : k = 0 \/ k = 1 \/ k = 2) by lia. destruct K as [-> | [-> | ->]]; cbn in H4; subst v.
        -- left. rewrite Z.eqb_refl. left. lia.
        -- right; left. rewrite Z.eqb_refl. left. lia.
        -- right; right; left. rewrite Z.eqb_refl. left. lia.
      * right; right; right. exists idx, f, k. cbn [nth_error] in H1. repeat split; try assumption; lia.
Qed.

Lemma corner_owner fs t f k v :
  nth_error fs t = Some f -> 0 <= k < 3 ->
  existsb (Z.eqb (3 * Z.of_nat t + k)) (corners_of fs v) = (face_vertex f k =? v).
Proof.
  intros Hf Hk. unfold corners_of.
  destruct (Z.eqb_spec (face_vertex f k) v) as [E|E].
  - apply existsb_exists. exists (3 * Z.of_nat t + k). split; [|apply Z.eqb_refl].
    apply corners_from_spec. exists t, f, k. repeat split; try lia; assumption.
  - destruct (existsb _ _) eqn:X; [|reflexivity]. exfalso.
    apply existsb_exists in X. destruct X as (c & Hin & Ec). apply Z.eqb_eq in Ec. subst c.
    apply corners_from_spec in Hin. destruct Hin as (idx & f' & k' & H1 & H2 & H3 & H4).
    assert (idx = t /\ k' = k) as [-> ->] by lia. rewrite Hf in H1. injection H1 as E0. subst f'. contradiction.
Qed.

(* reading the corner storage at a corner = reading the vertex storage at the corner's vertex, for ANY sequence
   of assignments (also with repeated keys: the last one wins in both) *)
Lemma read_spread fs (w : uvmap) t f k :
  nth_error fs t = Some f -> 0 <= k < 3 ->
  read (spread fs w) (3 * Z.of_nat t + k) = read w (face_vertex f k).
Proof.
  intros Hf Hk. induction w as [|[v x] rest IH]; [reflexivity|].
  unfold spread in *. cbn [flat_map fst snd]. rewrite read_app, IH. cbn [read].
  destruct (read rest (face_vertex f k)); [reflexivity|].
  rewrite read_const_map, (corner_owner fs t f k v Hf Hk). rewrite (Z.eqb_sym v). reflexivity.
Qed.

Lemma spread_app fs w1 w2 : spread fs (w1 ++ w2) = spread fs w1 ++ spread fs w2.
Proof. unfold spread. apply flat_map_app. Qed.

Lemma corner_writes_spread fs free bnd U V Ub Vb :
  corner_writes fs free bnd U V Ub Vb = spread fs (vertex_writes free bnd U V Ub Vb).
Proof.
  unfold corner_writes, vertex_writes, scatter_corner, scatter_vertex. cbn [flat_map].
  rewrite !app_nil_r, spread_app. reflexivity.
Qed.

Theorem outputs_agree fs free bnd U V Ub Vb t f k :
  nth_error fs t = Some f -> 0 <= k < 3 ->
  read0 (corner_writes fs free bnd U V Ub Vb) (3 * Z.of_nat t + k)
  = read0 (vertex_writes free bnd U V Ub Vb) (face_vertex f k).
Proof.
  intros Hf Hk. unfold read0. rewrite corner_writes_spread, (read_spread fs _ t f k Hf Hk). reflexivity.
Qed.

(* ------------------------------------------------------------------ flat meshes *)
Lemma read_determined (w : uvmap) (g : Z -> Q * Q) v :
  (forall k x, In (k, x) w -> x = g k) -> In v (map fst w) -> read w v = Some (g v).
Proof.
  induction w as [|[k x] t IH]; intros Hall Hin; [contradiction|]. cbn [read].
  destruct (in_dec Z.eq_dec v (map fst t)) as [I|I].
  - rewrite IH; auto. intros; apply Hall; now right.
  - assert (E : read t v = None).
    { clear - I. induction t as [|[k' x'] t IH]; [reflexivity|]. cbn [read]. cbn in I.
      rewrite IH by tauto. destruct (Z.eqb_spec k' v); [exfalso; apply I; now left | reflexivity]. }
    rewrite E. destruct Hin as [Hk|Hin]; [|contradiction]. cbn in Hk. subst k.
    rewrite Z.eqb_refl. f_equal. apply Hall. now left.
Qed.

Lemma flat_from_items fs corner uv : forall t0 v x,
  In (v, x) (flat_from t0 fs corner uv) ->
  exists idx f k, nth_error fs idx = Some f /\ 0 <= k < 3 /\ v = face_vertex f k /\
    x = uv (if corner then flat_index_corner (t0 + Z.of_nat idx) k v else flat_index_vertex (t0 + Z.of_nat idx) k v).
Proof.
  induction fs as [|f0 rest IH]; intros t0 v x H; cbn [flat_from] in H; [contradiction|].
  apply in_app_or in H. destruct H as [H|H].
  - cbn [map] in H.
    destruct H as [H|[H|[H|[]]]]; inversion H; subst; clear H.
    + exists 0%nat, f0, 0. rewrite Z.add_0_r. repeat split; try lia; reflexivity.
    + exists 0%nat, f0, 1. rewrite Z.add_0_r. repeat split; try lia; reflexivity.
    + exists 0%nat, f0, 2. rewrite Z.add_0_r. repeat split; try lia; reflexivity.
  - destruct (IH _ _ _ H) as (idx & f & k & H1 & H2 & H3 & H4).
    exists (S idx), f, k. cbn [nth_error]. split; [assumption|]. split; [assumption|]. split; [assumption|].
    rewrite H4. replace (t0 + 1 + Z.of_nat idx) with (t0 + Z.of_nat (S idx)) by lia. reflexivity.
Qed.

Lemma flat_from_keys fs corner uv : forall t0 idx f k,
  nth_error fs idx = Some f -> 0 <= k < 3 -> In (face_vertex f k) (map fst (flat_from t0 fs corner uv)).
Proof.
  induction fs as [|f0 rest IH]; intros t0 idx f k Hf Hk; [destruct idx; discriminate|].
  cbn [flat_from]. rewrite map_app. apply in_or_app. destruct idx as [|idx].
  - left. cbn in Hf. injection Hf as E0. subst f0. cbn [map fst].
    assert (K : k = 0 \/ k = 1 \/ k = 2) by lia. destruct K as [-> | [-> | ->]]; [left|right;left|right;right;left]; reflexivity.
  - right. eapply IH; eauto.
Qed.

(* both flat meshes place every vertex that occurs in a face at its per-vertex uv position *)
Theorem flat_agree fs free bnd U V Ub Vb idx f k :
  nth_error fs idx = Some f -> 0 <= k < 3 ->
  let pv := read0 (vertex_writes free bnd U V Ub Vb) in
  let pc := read0 (corner_writes fs free bnd U V Ub Vb) in
  let v := face_vertex f k in
  read0 (flat_from 0 fs false pv) v = pv v /\ read0 (flat_from 0 fs true pc) v = pv v.
Proof.
  intros Hf Hk pv pc v. unfold read0 at 1 2. split.
  - rewrite (read_determined _ pv v); [reflexivity| |eapply flat_from_keys; eauto].
    intros k0 x Hin. apply flat_from_items in Hin. destruct Hin as (i' & f' & k' & _ & _ & E & ->).
    unfold flat_index_vertex. reflexivity.
  - rewrite (read_determined _ pv v); [reflexivity| |eapply flat_from_keys; eauto].
    intros k0 x Hin. apply flat_from_items in Hin. destruct Hin as (i' & f' & k' & H1 & H2 & E & ->).
    unfold flat_index_corner. rewrite Z.add_0_l. subst k0. unfold pc, pv.
    apply outputs_agree; assumption.
Qed.
