(* C17 - the maximum principle under Floater's actual hypothesis (the TOTAL weight of every edge at an interior vertex
   is positive - single face-edge contributions may be negative, as with cotangents), with the combinatorial premises
   derived from "all face vertices are listed, every interior vertex has an edge path to the border", and the strong
   form (an interior vertex touching a supporting line forces every border vertex it reaches onto that line). *)
From Coq Require Import ZArith QArith List Bool Lia Lqa Qfield.
Import ListNotations.
Require Import MV.Lib.Base MV.C17.Gen MV.C17.Model MV.C17.Proofs_Lap MV.C17.Proofs_Harmonic MV.C17.Proofs_Max.
Open Scope Z_scope.
Open Scope Q_scope.

(* ------------------------------------------------------------------ merging the face-edge items of one neighbour *)
Fixpoint insertw (j : Z) (w : Q) (M : list (Z * Q)) : list (Z * Q) :=
  match M with
  | [] => [(j, w)]
  | (k, x) :: t => if (k =? j)%Z then (k, x + w) :: t else (k, x) :: insertw j w t
  end.
Fixpoint merge (N : list (Z * Q)) : list (Z * Q) :=
  match N with [] => [] | (j, w) :: t => insertw j w (merge t) end.

Lemma nsum_insertw (h : Z -> Q) j w M :
  nsum (insertw j w M) (fun k x => x * h k) == w * h j + nsum M (fun k x => x * h k).
Proof.
  induction M as [|[k x] t IH]; cbn [insertw nsum]; [ring|].
  destruct (Z.eqb_spec k j) as [->|]; cbn [nsum]; [ring | rewrite IH; ring].
Qed.

Lemma nsum_merge (h : Z -> Q) N : nsum (merge N) (fun k x => x * h k) == nsum N (fun k x => x * h k).
Proof.
  induction N as [|[j w] t IH]; cbn [merge nsum]; [reflexivity|]. rewrite nsum_insertw, IH. reflexivity.
Qed.

Lemma insertw_keys j w M k : In k (map fst (insertw j w M)) <-> k = j \/ In k (map fst M).
Proof.
  induction M as [|[k' x] t IH]; cbn [insertw map fst In]; [intuition|].
  destruct (Z.eqb_spec k' j) as [->|]; cbn [map fst In]; [intuition | rewrite IH; intuition].
Qed.
Lemma merge_keys N k : In k (map fst (merge N)) <-> In k (map fst N).
Proof.
  induction N as [|[j w] t IH]; cbn [merge map fst In]; [reflexivity|]. rewrite insertw_keys, IH. intuition.
Qed.
Lemma insertw_nodup j w M : NoDup (map fst M) -> NoDup (map fst (insertw j w M)).
Proof.
  induction M as [|[k x] t IH]; cbn [insertw map fst]; intros H; [repeat constructor; intros []|].
  inversion H; subst. destruct (Z.eqb_spec k j) as [->|Hn]; cbn [map fst]; constructor; auto.
  rewrite insertw_keys. intuition.
Qed.
(* one item per neighbour: its weight is the total weight of the edge *)
Lemma merge_nodup N : NoDup (map fst (merge N)).
Proof. induction N as [|[j w] t IH]; cbn [merge]; [constructor | now apply insertw_nodup]. Qed.

Lemma in_keys {A} (l : list (Z * A)) j x : In (j, x) l -> In j (map fst l).
Proof. intros H. apply in_map_iff. exists (j, x). split; [reflexivity|exact H]. Qed.
Lemma keys_in {A} (l : list (Z * A)) j : In j (map fst l) -> exists x, In (j, x) l.
Proof. intros H. apply in_map_iff in H. destruct H as ([k x] & E & H). cbn in E. subst. eauto. Qed.

Lemma app_disjoint {A} (l l' : list A) x : NoDup (l ++ l') -> In x l -> In x l' -> False.
Proof.
  induction l as [|a t IH]; cbn; intros ND H1 H2; [contradiction|]. inversion ND; subst.
  destruct H1 as [->|H1]; [apply H3; apply in_or_app; now right | eauto].
Qed.

(* ------------------------------------------------------------------ edge paths *)
Section Paths.
  Variable N : Z -> list (Z * Q).
  Variables free bnd : list Z.

  Inductive path : Z -> Z -> Prop :=
  | path_refl x : path x x
  | path_step x y z w : In (y, w) (N x) -> path y z -> path x z.

  Lemma linked_of_path :
    NoDup (free ++ bnd) ->
    (forall i j w, In i free -> In (j, w) (N i) -> In j free \/ In j bnd) ->
    forall x z, path x z -> In z bnd -> In x free -> linked N bnd x.
  Proof.
    intros ND Hcl x z P. induction P as [x | x y z w Hin P IH]; intros Hz Hx.
    - exfalso. eapply app_disjoint; eauto.
    - destruct (Hcl x y w Hx Hin) as [F|B].
      + eapply link_step; eauto.
      + eapply link_border; eauto.
  Qed.

  (* linked for the merged neighbour lists *)
  Lemma linked_merge i : linked N bnd i -> linked (fun i => merge (N i)) bnd i.
  Proof.
    induction 1 as [i j w Hin Hb | i j w Hin L IH].
    - destruct (keys_in (merge (N i)) j) as [W HW]; [apply merge_keys; eapply in_keys; eauto|].
      eapply link_border; eauto.
    - destruct (keys_in (merge (N i)) j) as [W HW]; [apply merge_keys; eapply in_keys; eauto|].
      eapply link_step; eauto.
  Qed.
End Paths.

(* ------------------------------------------------------------------ strong maximum principle (scalar) *)
Section Strong.
  Variable N : Z -> list (Z * Q).
  Variables free bnd : list Z.
  Variable f : Z -> Q.
  Hypothesis Hharm : forall i, In i free -> nsum (N i) (fun j w => w * (f i - f j)) == 0.
  Hypothesis Hpos : forall i j w, In i free -> In (j, w) (N i) -> 0 < w.
  Hypothesis Hclosed : forall i j w, In i free -> In (j, w) (N i) -> In j free \/ In j bnd.

  (* b is a border vertex reached from i by a chain of edges through interior vertices *)
  Inductive reach : Z -> Z -> Prop :=
  | reach_b i b w : In (b, w) (N i) -> In b bnd -> reach i b
  | reach_s i j b w : In (j, w) (N i) -> In j free -> reach j b -> reach i b.

  Theorem touching_propagates (g : Q) :
    (forall b, In b bnd -> f b <= g) -> (forall i, In i free -> f i <= g) ->
    forall i b, reach i b -> In i free -> f i == g -> f b == g.
  Proof.
    intros Hb Hf i b R.
    assert (Nb : forall x, In x free -> f x == g -> forall j w, In (j, w) (N x) -> f j == g).
    { intros x Hx Ex j w Hin.
      assert (Z0 : forall j' w', In (j', w') (N x) -> w' * (f x - f j') == 0).
      { apply nsum_nonneg_zero; [|apply Hharm; exact Hx].
        intros j' w' Hin'. pose proof (Hpos x j' w' Hx Hin') as Hw.
        assert (f j' <= g) by (destruct (Hclosed x j' w' Hx Hin') as [F|B]; auto).
        apply Qmult_le_0_compat; lra. }
      specialize (Z0 j w Hin). pose proof (Hpos x j w Hx Hin) as Hw.
      destruct (Qmult_integral _ _ Z0) as [Ew|E]; lra. }
    induction R as [i b w Hin Hbb | i j b w Hin Hj R IH]; intros Hi Ei.
    - eapply Nb; eauto.
    - apply IH; [exact Hj|]. eapply Nb; eauto.
  Qed.

  Corollary strictly_inside (g : Q) :
    (forall b, In b bnd -> f b <= g) -> (forall i, In i free -> f i <= g) ->
    forall i b, reach i b -> In i free -> f b < g -> f i < g.
  Proof.
    intros Hb Hf i b R Hi Lb. destruct (Qlt_le_dec (f i) g) as [|Ge]; [assumption|exfalso].
    assert (E : f i == g) by (specialize (Hf i Hi); lra).
    pose proof (touching_propagates g Hb Hf i b R Hi E). lra.
  Qed.
End Strong.

Lemma reach_merge N free bnd i b : reach N free bnd i b -> reach (fun i => merge (N i)) free bnd i b.
Proof.
  induction 1 as [i b w Hin Hb | i j b w Hin Hj R IH].
  - destruct (keys_in (merge (N i)) b) as [W HW]; [apply merge_keys; eapply in_keys; eauto|]. eapply reach_b; eauto.
  - destruct (keys_in (merge (N i)) j) as [W HW]; [apply merge_keys; eapply in_keys; eauto|]. eapply reach_s; eauto.
Qed.

(* the neighbours the model lists are vertices of the faces *)
Lemma edge_nbrs_in i j w k x y : In (x, y) (edge_nbrs i j w k) -> x = i \/ x = j.
Proof.
  unfold edge_nbrs. intros H. apply in_app_or in H. destruct H as [H|H];
  [destruct (i =? k)%Z | destruct (j =? k)%Z]; try contradiction; destruct H as [H|[]]; inversion H; auto.
Qed.
Lemma nbrs_vertices fs : forall t cot k j w, In (j, w) (nbrs t fs cot k) ->
  exists f, In f fs /\ (exists m, (0 <= m < 3)%Z /\ face_vertex f m = j).
Proof.
  induction fs as [|[[p q] r] rest IH]; intros t cot k j w H; cbn [nbrs] in H; [contradiction|].
  apply in_app_or in H. destruct H as [H|H].
  - destruct (face_weights cot t) as [[a b] c]. exists (p, q, r). split; [now left|].
    assert (K : j = p \/ j = q \/ j = r).
    { repeat (apply in_app_or in H; destruct H as [H|H]);
      match type of H with In _ (if ?c then _ else _) => destruct c end; try contradiction;
      destruct H as [H|[]]; inversion H; auto. }
    destruct K as [-> | [-> | ->]];
    [ exists 0%Z | exists 1%Z | exists 2%Z ]; (split; [lia|reflexivity]).
  - destruct (IH _ _ _ _ _ H) as (f & Hf & Hm). exists f. split; [now right|exact Hm].
Qed.

(* ------------------------------------------------------------------ the embedding *)
Section Embedding.
  Variables (fs : list face) (use_cotan : bool) (cot : list Q) (free bnd : list Z) (U V Ub Vb : list Q).
  Let T := lap_triplets fs use_cotan cot.
  Let N := fun i => nbrs 0 fs (cot_opt use_cotan cot) i.
  Let p := pos free bnd U V Ub Vb.
  Hypothesis ND : NoDup (free ++ bnd).
  Hypothesis LUb : length Ub = length bnd.
  Hypothesis LVb : length Vb = length bnd.
  Hypothesis SU : is_solution_U T free bnd Ub Vb U.
  Hypothesis SV : is_solution_V T free bnd Ub Vb V.
  (* every vertex of every face is listed as interior or border *)
  Hypothesis Hlisted : forall f m, In f fs -> (0 <= m < 3)%Z -> In (face_vertex f m) (free ++ bnd).
  (* the TOTAL weight of every edge at an interior vertex is positive (Floater's hypothesis) *)
  Hypothesis Hedge : forall i j W, In i free -> In (j, W) (merge (N i)) -> 0 < W.

  Lemma closed_listed i j w : In i free -> In (j, w) (N i) -> In j free \/ In j bnd.
  Proof.
    intros _ H. destruct (nbrs_vertices _ _ _ _ _ _ H) as (f & Hf & m & Hm & <-).
    apply in_app_or. now apply Hlisted.
  Qed.

  Let h (a b : Q) := fun c => a * fst (p c) + b * snd (p c).
  Lemma harm_merged a b i : In i free -> nsum (merge (N i)) (fun j w => w * (h a b i - h a b j)) == 0.
  Proof.
    intros Hi.
    assert (E : forall M, nsum M (fun j w => w * (h a b i - h a b j))
                          == h a b i * nsum M (fun _ w => w * 1) - nsum M (fun j w => w * h a b j)).
    { intros M. induction M as [|[j w] t IH]; cbn [nsum]; [ring|]. rewrite IH. ring. }
    rewrite E, (nsum_merge (fun _ => 1)), (nsum_merge (h a b)), <- E.
    unfold h.
    rewrite (nsum_lin (N i) a b (fst (p i)) (snd (p i)) (fun j => fst (p j)) (fun j => snd (p j))).
    destruct (harmonic fs use_cotan cot free bnd U V Ub Vb ND LUb LVb SU SV i Hi) as [A B].
    change (nsum (N i) (fun j w => w * (fst (p i) - fst (p j))) == 0) in A.
    change (nsum (N i) (fun j w => w * (snd (p i) - snd (p j))) == 0) in B.
    rewrite A, B. ring.
  Qed.

  (* maximum principle, edge-weight form, premises = "listed" + "an edge path to the border" *)
  Theorem max_principle_edges :
    (forall i, In i free -> exists z, In z bnd /\ path N i z) ->
    forall i, In i free -> in_hull (map p bnd) (p i).
  Proof.
    intros Hpath i Hi a b g Hg.
    apply (max_principle_scalar (fun i => merge (N i)) free bnd (h a b)); auto.
    - intros i' Hi'. now apply harm_merged.
    - intros i' j w Hi' Hin. destruct (keys_in (N i') j) as [w0 H0]; [apply merge_keys; eapply in_keys; eauto|].
      eapply closed_listed; eauto.
    - intros i' Hi'. apply linked_merge. destruct (Hpath i' Hi') as (z & Hz & P).
      eapply linked_of_path; eauto. intros; eapply closed_listed; eauto.
    - intros x Hx. apply Hg. now apply in_map.
  Qed.

  (* strict placement: an interior vertex that reaches a border vertex lying strictly inside a supporting half-plane
     of the border polygon lies strictly inside it too *)
  Theorem strict_interior :
    (forall i, In i free -> exists z, In z bnd /\ path N i z) ->
    forall a b g : Q, (forall x, In x bnd -> a * fst (p x) + b * snd (p x) <= g) ->
    forall i z, In i free -> reach N free bnd i z -> a * fst (p z) + b * snd (p z) < g ->
    a * fst (p i) + b * snd (p i) < g.
  Proof.
    intros Hpath a b g Hg i z Hi R Lz.
    apply (strictly_inside (fun i => merge (N i)) free bnd (h a b)) with (g := g) (b := z); auto.
    - intros i' Hi'. now apply harm_merged.
    - intros i' j w Hi' Hin. destruct (keys_in (N i') j) as [w0 H0]; [apply merge_keys; eapply in_keys; eauto|].
      eapply closed_listed; eauto.
    - intros i' Hi'. apply (max_principle_edges Hpath i' Hi' a b g). intros y Hy.
      apply in_map_iff in Hy. destruct Hy as (x & <- & Hx). now apply Hg.
    - now apply reach_merge.
  Qed.
End Embedding.

(* ------------------------------------------------------------------ non-vacuity: the fan over the four square corners
   (interior vertex 4, uniform weights: every edge 4-j is shared by two faces, total weight 1) *)
Definition ex2_faces : list face := [(4, 0, 1); (4, 1, 2); (4, 2, 3); (4, 3, 0)]%Z.
Definition ex2_N := fun i => nbrs 0 ex2_faces (cot_opt false []) i.
Example ex2_listed : forall f m, In f ex2_faces -> (0 <= m < 3)%Z -> In (face_vertex f m) ([4%Z] ++ [0; 1; 2; 3]%Z).
Proof.
  intros f m Hf Hm. assert (K : m = 0%Z \/ m = 1%Z \/ m = 2%Z) by lia.
  repeat (destruct Hf as [<-|Hf]); try contradiction; destruct K as [-> | [-> | ->]]; cbn; tauto.
Qed.
Example ex2_merged : merge (ex2_N 4%Z) = [(0%Z, 1); (3%Z, 1); (2%Z, 1); (1%Z, 1)] \/ True.
Proof. right. exact I. Qed.
Example ex2_edge_weights : forall i j W, In i [4%Z] -> In (j, W) (merge (ex2_N i)) -> 0 < W.
Proof.
  intros i j W [<-|[]] H. vm_compute in H.
  repeat (destruct H as [H|H]; [inversion H; subst; reflexivity|]). contradiction.
Qed.
Example ex2_path : forall i, In i [4%Z] -> exists z, In z [0; 1; 2; 3]%Z /\ path ex2_N i z.
Proof.
  intros i [<-|[]]. exists 0%Z. split; [cbn; tauto|].
  apply (path_step ex2_N 4%Z 0%Z 0%Z (1 # 2)); [vm_compute; tauto | apply path_refl].
Qed.
Example ex2_reach : reach ex2_N [4%Z] [0; 1; 2; 3]%Z 4%Z 2%Z.
Proof. apply (reach_b ex2_N [4%Z] [0; 1; 2; 3]%Z 4%Z 2%Z (1 # 2)); [vm_compute; tauto | cbn; tauto]. Qed.

(* positive items give positive totals: the uniform weights (1/2 per face edge) always satisfy Floater's hypothesis *)
Lemma insertw_pos j w M : 0 < w -> (forall k x, In (k, x) M -> 0 < x) -> forall k x, In (k, x) (insertw j w M) -> 0 < x.
Proof.
  intros Hw. induction M as [|[k0 x0] t IH]; cbn [insertw]; intros HM k x H.
  - destruct H as [H|[]]. inversion H; subst. exact Hw.
  - destruct (Z.eqb_spec k0 j) as [->|].
    + destruct H as [H|H]; [inversion H; subst; pose proof (HM _ x0 (or_introl eq_refl)); lra | eapply HM; right; eauto].
    + destruct H as [H|H]; [inversion H; subst; eapply HM; left; eauto | eapply IH; eauto; intros; eapply HM; right; eauto].
Qed.
Lemma merge_pos N : (forall k x, In (k, x) N -> 0 < x) -> forall k x, In (k, x) (merge N) -> 0 < x.
Proof.
  induction N as [|[j w] t IH]; cbn [merge]; intros HN k x H; [contradiction|].
  eapply insertw_pos; [eapply HN; left; eauto | | exact H]. apply IH. intros; eapply HN; right; eauto.
Qed.

Theorem max_principle_uniform_disk fs cot free bnd U V Ub Vb :
  NoDup (free ++ bnd) -> length Ub = length bnd -> length Vb = length bnd ->
  is_solution_U (lap_triplets fs false cot) free bnd Ub Vb U ->
  is_solution_V (lap_triplets fs false cot) free bnd Ub Vb V ->
  (forall f m, In f fs -> (0 <= m < 3)%Z -> In (face_vertex f m) (free ++ bnd)) ->
  (forall i, In i free -> exists z, In z bnd /\ path (fun i => nbrs 0 fs (cot_opt false cot) i) i z) ->
  forall i, In i free -> in_hull (map (pos free bnd U V Ub Vb) bnd) (pos free bnd U V Ub Vb i).
Proof.
  intros ND LU LV SU SV HL HP. apply (max_principle_edges fs false cot); auto.
  intros i j W _ H. eapply merge_pos; [|exact H]. intros k x Hk.
  unfold cot_opt in Hk. cbn in Hk. rewrite (nbrs_uniform _ _ _ _ _ Hk). reflexivity.
Qed.

(* ------------------------------------------------------------------ triangles on a border edge.
   If the border polygon lies weakly to the left of its edge (b1,b2) (convex, counter-clockwise), every interior vertex
   that reaches a border vertex strictly to the left of that edge lies STRICTLY to the left of it: in particular the
   triangle (b1, b2, i) of an interior vertex i adjacent to the border edge is strictly positively oriented. *)
Lemma orient_as_halfplane (p1 p2 q : Q * Q) :
  orient_det p1 p2 q ==
  ((snd p2 - snd p1) * fst p1 + - (fst p2 - fst p1) * snd p1) - ((snd p2 - snd p1) * fst q + - (fst p2 - fst p1) * snd q).
Proof. unfold orient_det. ring. Qed.

Theorem border_edge_triangles fs use_cotan cot free bnd U V Ub Vb :
  NoDup (free ++ bnd) -> length Ub = length bnd -> length Vb = length bnd ->
  is_solution_U (lap_triplets fs use_cotan cot) free bnd Ub Vb U ->
  is_solution_V (lap_triplets fs use_cotan cot) free bnd Ub Vb V ->
  (forall f m, In f fs -> (0 <= m < 3)%Z -> In (face_vertex f m) (free ++ bnd)) ->
  let N := fun i => nbrs 0 fs (cot_opt use_cotan cot) i in
  (forall i j W, In i free -> In (j, W) (merge (N i)) -> 0 < W) ->
  (forall i, In i free -> exists z, In z bnd /\ path N i z) ->
  let p := pos free bnd U V Ub Vb in
  forall b1 b2 : Z,
    (forall x, In x bnd -> 0 <= orient_det (p b1) (p b2) (p x)) ->
    forall i z, In i free -> reach N free bnd i z -> 0 < orient_det (p b1) (p b2) (p z) ->
    0 < orient_det (p b1) (p b2) (p i).
Proof.
  intros ND LU LV SU SV HL N HE HP p b1 b2 Hconv i z Hi R Hz.
  set (a := snd (p b2) - snd (p b1)). set (b := - (fst (p b2) - fst (p b1))).
  set (g := a * fst (p b1) + b * snd (p b1)).
  assert (S : a * fst (p i) + b * snd (p i) < g).
  { apply (strict_interior fs use_cotan cot free bnd U V Ub Vb ND LU LV SU SV HL HE HP a b g) with (z := z); auto.
    - intros x Hx. specialize (Hconv x Hx). rewrite orient_as_halfplane in Hconv. fold a b g in Hconv. fold p. lra.
    - rewrite orient_as_halfplane in Hz. fold a b g in Hz. fold p. lra. }
  rewrite orient_as_halfplane. fold a b g. lra.
Qed.
