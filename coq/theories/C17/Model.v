(* C17 - executable model of mouette's Tutte embedding (processing/parametrization/tutte.py, base.py,
   operators/laplacian_op.py).  NO proofs here.

   Generated from the source (Gen.v): the Euler gate, the border parameters (circle angle, square piecewise
   coordinates, custom columns), the 12 coefficients a face contributes to the Laplacian, cot/2 and 1/2, the row and
   column selectors of LI / LB, the sign of the right-hand side, the scatter table, the flat-mesh index formulas.
   Written by hand (tied by the per-run correspondence): the loop over the faces, csc_matrix's summing of duplicate
   coefficients, fancy indexing lap[rows,:][:,cols], LB.dot, the sequential element assignments of the scatter loops,
   vertex_to_corners.

   scipy's spsolve is NOT modelled: a solution of the partitioned system enters as the predicate [is_solution];
   the theorems hold for any solution, and each run checks a certificate (an exact rational solution, verified here by
   [check_cert]) against the implementation's floats. *)
From Coq Require Import ZArith QArith Qabs List Bool.
Import ListNotations.
Require Import MV.Lib.Base MV.C17.Gen.
Open Scope Z_scope.
Open Scope Q_scope.

Definition triplet := (Z * Z * Q)%type.
Definition face := (Z * Z * Z)%type.

(* ------------------------------------------------------------------ Laplacian assembly (operators.laplacian) *)
(* corner index of the k-th vertex of face number t is 3t+k (triangles): cot[vertex_to_corner_in_face(_v, iT)] *)
Definition face_weights (cot : option (list Q)) (t : Z) : Q * Q * Q :=
  match cot with
  | None => lap_uniform_abc
  | Some cl => (lap_cot_weight (znth cl (3 * t)%Z 0), lap_cot_weight (znth cl (3 * t + 1)%Z 0),
                lap_cot_weight (znth cl (3 * t + 2)%Z 0))
  end.

Fixpoint lap_from (t : Z) (fs : list face) (cot : option (list Q)) : list triplet :=
  match fs with
  | [] => []
  | (p, q, r) :: rest =>
      let '(a, b, c) := face_weights cot t in
      lap_face_entries p q r a b c ++ lap_from (t + 1)%Z rest cot
  end.

Definition lap_triplets (fs : list face) (use_cotan : bool) (cot : list Q) : list triplet :=
  lap_from 0%Z fs (if lap_cotan_flag use_cotan then Some cot else None).

(* sp.csc_matrix((coeffs,(rows,cols))) sums the coefficients that share (row, col) *)
Definition row_of (T : list triplet) (i : Z) : list triplet := filter (fun t => (fst (fst t) =? i)%Z) T.

Fixpoint entry_in (R : list triplet) (j : Z) : Q :=
  match R with
  | [] => 0
  | (_, c, x) :: t => if (c =? j)%Z then Qred (x + entry_in t j) else entry_in t j
  end.

Definition entry (T : list triplet) (i j : Z) : Q := entry_in (row_of T i) j.

(* one row of  M[rows,:][:,cols] . vec :  sum_k M[i, cols_k] * vec_k, with R = row i of M *)
Fixpoint dotl (R : list triplet) (l : list (Z * Q)) : Q :=
  match l with
  | [] => 0
  | (k, v) :: t => let e := entry_in R k in
                   if Qeq_bool e 0 then dotl R t else e * v + dotl R t     (* sparse: most entries are 0 *)
  end.

(* ------------------------------------------------------------------ the partitioned system (tutte.run) *)
Definition sel_list (s : sel) (free bnd : list Z) : list Z := match s with SFree => free | SBnd => bnd end.
Definition comp_list (c : comp) (U V Ub Vb : list Q) : list Q :=
  match c with CU => U | CV => V | CUb => Ub | CVb => Vb end.

(* row a of LI is row (LI_rows)[a] of lap, row a of LB is row (LB_rows)[a] *)
Definition sys_rows (free bnd : list Z) : list (Z * Z) :=
  combine (sel_list LI_rows free bnd) (sel_list LB_rows free bnd).

Definition sys_lhs (T : list triplet) (free bnd : list Z) (X : list Q) (i : Z) : Q :=
  dotl (row_of T i) (combine (sel_list LI_cols free bnd) X).
Definition lb_dot (T : list triplet) (free bnd : list Z) (B : list Q) (i : Z) : Q :=
  dotl (row_of T i) (combine (sel_list LB_cols free bnd) B).

(* "U solves LI U = rhs_U (LB . <border data>)" : the contract of spsolve, as a predicate *)
Definition is_solution_U T free bnd (Ub Vb U : list Q) : Prop :=
  length U = length (sel_list LI_cols free bnd) /\
  Forall (fun r => sys_lhs T free bnd U (fst r) == rhs_U (lb_dot T free bnd (comp_list U_border_data [] [] Ub Vb) (snd r)))
         (sys_rows free bnd).
Definition is_solution_V T free bnd (Ub Vb V : list Q) : Prop :=
  length V = length (sel_list LI_cols free bnd) /\
  Forall (fun r => sys_lhs T free bnd V (fst r) == rhs_V (lb_dot T free bnd (comp_list V_border_data [] [] Ub Vb) (snd r)))
         (sys_rows free bnd).

(* executable certificate check: X = N / D with one common denominator D > 0 *)
Definition check_cert_with (rhs : Q -> Q) (T : list triplet) (free bnd : list Z) (B : list Q) (D : Z) (N : list Z) : bool :=
  (0 <? D)%Z && (length N =? length (sel_list LI_cols free bnd))%nat &&
  forallb (fun r => Qeq_bool (sys_lhs T free bnd (map inject_Z N) (fst r))
                             (inject_Z D * rhs (lb_dot T free bnd B (snd r))))
          (sys_rows free bnd).
Definition cert_values (D : Z) (N : list Z) : list Q := map (fun n => Qmake n (Z.to_pos D)) N.

(* ------------------------------------------------------------------ border data (_initialize_boundary) *)
Inductive bmode := MCircle | MSquare | MCustom.

Definition border_square (n : Z) : list (Q * Q) := map (fun k => (sq_U n k, sq_V n k)) (zrange n).
Definition border_custom (rows : list (list Q)) : list (Q * Q) :=
  map (fun r => (znth r custom_U_col 0, znth r custom_V_col 0)) rows.
(* circle: vertex number i of the cycle sits at the fraction  circle_turn n i  of a full turn, on the circle of
   radius circle_radius; U = r cos, V = r sin when circle_U_part = PReal, circle_V_part = PImag *)
Definition circle_turn (n i : Z) : Q := circle_angle_over_pi n i / 2.

(* ------------------------------------------------------------------ scatter to storage *)
Definition uvmap := list (Z * (Q * Q)).      (* element assignments in program order *)
Fixpoint read (w : uvmap) (k : Z) : option (Q * Q) :=        (* the LAST assignment to k wins *)
  match w with
  | [] => None
  | (k', x) :: t => match read t k with
                    | Some y => Some y
                    | None => if (k' =? k)%Z then Some x else None
                    end
  end.
(* create_attribute(.., dense=True) is zero-initialised *)
Definition read0 (w : uvmap) (k : Z) : Q * Q := match read w k with Some x => x | None => (0, 0) end.

Definition scatter_items (e : sel * comp * comp) (free bnd : list Z) (U V Ub Vb : list Q) : uvmap :=
  let '(s, c1, c2) := e in
  combine (sel_list s free bnd) (combine (comp_list c1 U V Ub Vb) (comp_list c2 U V Ub Vb)).

Definition vertex_writes (free bnd : list Z) (U V Ub Vb : list Q) : uvmap :=
  flat_map (fun e => scatter_items e free bnd U V Ub Vb) scatter_vertex.

(* connectivity.vertex_to_corners(v): the corners 3t+k with faces[t][k] = v *)
Fixpoint corners_from (t : Z) (fs : list face) (v : Z) : list Z :=
  match fs with
  | [] => []
  | (p, q, r) :: rest =>
      (if (p =? v)%Z then [(3 * t)%Z] else []) ++ (if (q =? v)%Z then [(3 * t + 1)%Z] else []) ++
      (if (r =? v)%Z then [(3 * t + 2)%Z] else []) ++ corners_from (t + 1)%Z rest v
  end.
Definition corners_of (fs : list face) (v : Z) : list Z := corners_from 0%Z fs v.

Definition spread (fs : list face) (w : uvmap) : uvmap :=
  flat_map (fun it => map (fun c => (c, snd it)) (corners_of fs (fst it))) w.

Definition corner_writes (fs : list face) (free bnd : list Z) (U V Ub Vb : list Q) : uvmap :=
  flat_map (fun e => spread fs (scatter_items e free bnd U V Ub Vb)) scatter_corner.

Definition face_vertex (f : face) (k : Z) : Z :=
  let '(p, q, r) := f in if (k =? 0)%Z then p else if (k =? 1)%Z then q else r.

(* base.flat_mesh: for T, for i,v in enumerate(faces[T]): flat.vertices[v] = uvs[index] *)
Fixpoint flat_from (t : Z) (fs : list face) (corner_storage : bool) (uv : Z -> Q * Q) : uvmap :=
  match fs with
  | [] => []
  | f :: rest =>
      map (fun k => let v := face_vertex f k in
                    (v, uv (if corner_storage then flat_index_corner t k v else flat_index_vertex t k v)))
          [0%Z; 1%Z; 2%Z]
      ++ flat_from (t + 1)%Z rest corner_storage uv
  end.

(* ------------------------------------------------------------------ gate *)
Definition ekey (a b : Z) : Z * Z := if (a <=? b)%Z then (a, b) else (b, a).
Definition face_edges (f : face) : list (Z * Z) := let '(p, q, r) := f in [(p, q); (q, r); (r, p)].
Definition pair_eqb (x y : Z * Z) : bool := (fst x =? fst y)%Z && (snd x =? snd y)%Z.
Fixpoint dedup (l : list (Z * Z)) : list (Z * Z) :=
  match l with
  | [] => []
  | x :: t => if existsb (pair_eqb x) t then dedup t else x :: dedup t
  end.
Definition n_edges (fs : list face) : Z :=
  Z.of_nat (length (dedup (map (fun e => ekey (fst e) (snd e)) (flat_map face_edges fs)))).
Definition chi_of (nv : Z) (fs : list face) : Z := euler_char nv (n_edges fs) (Z.of_nat (length fs)).
Definition rejected (nv : Z) (fs : list face) : bool := gate_reject (chi_of nv fs).

(* ------------------------------------------------------------------ weighted neighbours, and the boolean
   "every neighbour of an interior vertex is listed, every interior vertex is joined to the border" test *)
(* the neighbours of k with their weights: one item per adjacent face edge *)
Definition edge_nbrs (i j : Z) (w : Q) (k : Z) : list (Z * Q) :=
  (if (i =? k)%Z then [(j, w)] else []) ++ (if (j =? k)%Z then [(i, w)] else []).
Fixpoint nbrs (t : Z) (fs : list face) (cot : option (list Q)) (k : Z) : list (Z * Q) :=
  match fs with
  | [] => []
  | (p, q, r) :: rest =>
      (let '(a, b, c) := face_weights cot t in edge_nbrs p q c k ++ edge_nbrs q r a k ++ edge_nbrs r p b k)
      ++ nbrs (t + 1)%Z rest cot k
  end.

Definition zmem (x : Z) (l : list Z) : bool := existsb (Z.eqb x) l.
Fixpoint nodupb (l : list Z) : bool :=
  match l with [] => true | x :: t => negb (zmem x t) && nodupb t end.

Definition nb_table (fs : list face) (cot : option (list Q)) (free : list Z) : list (Z * list (Z * Q)) :=
  map (fun i => (i, nbrs 0%Z fs cot i)) free.
Definition closed_b (tab : list (Z * list (Z * Q))) (free bnd : list Z) : bool :=
  forallb (fun e => forallb (fun jw => zmem (fst jw) free || zmem (fst jw) bnd) (snd e)) tab.
(* one round of marking: the interior vertices with a neighbour on the border or already marked *)
Definition mark_step (tab : list (Z * list (Z * Q))) (bnd M : list Z) : list Z :=
  map fst (filter (fun e => existsb (fun jw => zmem (fst jw) bnd || zmem (fst jw) M) (snd e)) tab).
Fixpoint mark_iter (n : nat) (tab : list (Z * list (Z * Q))) (bnd M : list Z) : list Z :=
  match n with O => M | S n' => mark_iter n' tab bnd (mark_step tab bnd M) end.
Definition linked_b (tab : list (Z * list (Z * Q))) (free bnd : list Z) : bool :=
  let M := mark_iter (length free) tab bnd [] in forallb (fun i => zmem i M) free.
Definition disk_links_b (fs : list face) (cot : option (list Q)) (free bnd : list Z) : bool :=
  let tab := nb_table fs cot free in
  nodupb (free ++ bnd) && closed_b tab free bnd && linked_b tab free bnd.

(* ------------------------------------------------------------------ orientation *)
Definition orient_det (p q r : Q * Q) : Q :=
  (fst q - fst p) * (snd r - snd p) - (snd q - snd p) * (fst r - fst p).
Definition face_det (pos : Z -> Q * Q) (f : face) : Q :=
  let '(a, b, c) := f in orient_det (pos a) (pos b) (pos c).
Definition qpos (x : Q) : bool := (0 <? Qnum x)%Z.
Definition qneg (x : Q) : bool := (Qnum x <? 0)%Z.
(* every triangle strictly positive, or every triangle strictly negative *)
Definition fold_free (pos : Z -> Q * Q) (fs : list face) : bool :=
  forallb (fun f => qpos (face_det pos f)) fs || forallb (fun f => qneg (face_det pos f)) fs.
