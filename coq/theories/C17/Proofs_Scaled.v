(* C17 - the orientation test a run evaluates on the certificate multiplied by its denominator D > 0 decides the
   orientation of the exact solution N/D itself. *)
From Coq Require Import ZArith QArith List Bool Lia Lqa Qfield.
Import ListNotations.
Require Import MV.Lib.Base MV.C17.Gen MV.C17.Model MV.C17.Proofs_Harmonic MV.C17.Proofs_Cert.
Open Scope Z_scope.
Open Scope Q_scope.

Section Scaled.
  Variable d : Q.
  Hypothesis dpos : 0 < d.

  Definition rel1 (a b : Q) : Prop := a == d * b.
  Definition rel2 (x y : Q * Q) : Prop := rel1 (fst x) (fst y) /\ rel1 (snd x) (snd y).
  Definition relw (a b : Z * (Q * Q)) : Prop := fst a = fst b /\ rel2 (snd a) (snd b).

  Lemma combine_rel (ks : list Z) : forall A A' B B',
    Forall2 rel1 A A' -> Forall2 rel1 B B' ->
    Forall2 relw (combine ks (combine A B)) (combine ks (combine A' B')).
  Proof.
    induction ks as [|k ks IH]; intros A A' B B' HA HB; [constructor|].
    destruct HA as [|a a' A A' Ha HA]; [constructor|].
    destruct HB as [|b b' B B' Hb HB]; [constructor|].
    cbn [combine]. constructor; [split; [reflexivity|split; assumption]|]. now apply IH.
  Qed.

  Lemma read_rel w w' : Forall2 relw w w' -> forall v,
    match read w v, read w' v with
    | Some x, Some y => rel2 x y
    | None, None => True
    | _, _ => False
    end.
  Proof.
    induction 1 as [|[k x] [k' y] w w' [Hk Hxy] HF IH]; intros v; [exact I|].
    cbn [read]. cbn in Hk. subst k'. specialize (IH v).
    destruct (read w v), (read w' v); try contradiction; [exact IH|].
    destruct (k =? v)%Z; [exact Hxy|exact I].
  Qed.

  Lemma read0_rel w w' : Forall2 relw w w' -> forall v, rel2 (read0 w v) (read0 w' v).
  Proof.
    intros H v. pose proof (read_rel w w' H v) as R. unfold read0.
    destruct (read w v), (read w' v); try contradiction; [exact R|].
    split; unfold rel1; cbn; ring.
  Qed.

  Lemma det_rel (p q r p' q' r' : Q * Q) :
    rel2 p p' -> rel2 q q' -> rel2 r r' -> orient_det p q r == d * d * orient_det p' q' r'.
  Proof.
    unfold rel2, rel1, orient_det. intros [A1 A2] [B1 B2] [C1 C2].
    rewrite A1, A2, B1, B2, C1, C2. ring.
  Qed.

  Lemma sign_rel x y : x == d * d * y -> (0 < x <-> 0 < y) /\ (x < 0 <-> y < 0).
  Proof.
    intros E. assert (D2 : 0 < d * d) by (apply Qmult_lt_0_compat; assumption).
    split; split; intros H.
    - rewrite E in H. destruct (Qlt_le_dec 0 y) as [|L]; [assumption|exfalso].
      assert (d * d * y <= 0) by (rewrite <- (Qmult_0_r (d * d)); apply Qmult_le_l; assumption). lra.
    - rewrite E. apply Qmult_lt_0_compat; assumption.
    - rewrite E in H. destruct (Qlt_le_dec y 0) as [|L]; [assumption|exfalso].
      assert (0 <= d * d * y) by (apply Qmult_le_0_compat; lra). lra.
    - rewrite E. rewrite <- (Qmult_0_r (d * d)). apply Qmult_lt_l; assumption.
  Qed.

  Lemma fold_free_rel (pos pos' : Z -> Q * Q) fs :
    (forall v, rel2 (pos v) (pos' v)) -> fold_free pos fs = true -> fold_free pos' fs = true.
  Proof.
    intros R H. apply fold_free_spec in H. apply fold_free_spec.
    assert (E : forall f, face_det pos f == d * d * face_det pos' f).
    { intros [[a b] c]. unfold face_det. apply det_rel; apply R. }
    destruct H as [H|H]; [left|right]; intros f Hf; specialize (H f Hf); destruct (sign_rel _ _ (E f)) as [P Nn]; tauto.
  Qed.
End Scaled.

Lemma Forall2_map_l {A B} (R : B -> A -> Prop) (g : A -> B) l : (forall x, R (g x) x) -> Forall2 R (map g l) l.
Proof. intros H. induction l; constructor; auto. Qed.

Theorem scaled_fold_free fs free bnd Ub Vb (D : Z) NU NV : (0 < D)%Z ->
  let d := inject_Z D in
  fold_free (read0 (vertex_writes free bnd (map inject_Z NU) (map inject_Z NV) (map (Qmult d) Ub) (map (Qmult d) Vb))) fs = true ->
  fold_free (read0 (vertex_writes free bnd (cert_values D NU) (cert_values D NV) Ub Vb)) fs = true.
Proof.
  intros HD d. subst d. apply (fold_free_rel (inject_Z D)).
  - change 0 with (inject_Z 0). rewrite <- Zlt_Qlt. exact HD.
  - intros v. apply read0_rel. rewrite !vertex_writes_eq. apply Forall2_app.
    + apply combine_rel.
      * unfold cert_values. clear -HD. induction NU as [|n t IH]; constructor; [|exact IH].
        unfold rel1. rewrite <- (cert_scale D n HD). ring.
      * unfold cert_values. clear -HD. induction NV as [|n t IH]; constructor; [|exact IH].
        unfold rel1. rewrite <- (cert_scale D n HD). ring.
    + apply combine_rel; apply Forall2_map_l; intros x; unfold rel1; reflexivity.
Qed.
