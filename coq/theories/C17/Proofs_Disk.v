(* C17 - the boolean test [disk_links_b] (evaluated on every checked case) reflects the combinatorial premises of the
   maximum principle: the two index lists have no repetition, every neighbour of an interior vertex is listed, and
   every interior vertex is joined to the border by a chain of edges. *)
From Coq Require Import ZArith QArith List Bool Lia.
Import ListNotations.
Require Import MV.Lib.Base MV.C17.Gen MV.C17.Model MV.C17.Proofs_Lap MV.C17.Proofs_Harmonic MV.C17.Proofs_Max.
Open Scope Z_scope.

Lemma zmem_In x l : zmem x l = true <-> In x l.
Proof.
  unfold zmem. rewrite existsb_exists. split.
  - intros (y & Hy & E). apply Z.eqb_eq in E. now subst.
  - intros H. exists x. split; [exact H | apply Z.eqb_refl].
Qed.

Lemma nodupb_NoDup l : nodupb l = true -> NoDup l.
Proof.
  induction l as [|x t IH]; simpl; intros H; constructor.
  - apply andb_true_iff in H as [H _]. intros Hin. apply zmem_In in Hin. rewrite Hin in H. discriminate.
  - apply IH. now apply andb_true_iff in H as [_ H].
Qed.

Section Links.
  Variables (fs : list face) (cot : option (list Q)) (free bnd : list Z).
  Let N := fun i => nbrs 0 fs cot i.
  Let tab := nb_table fs cot free.

  Lemma tab_entry e : In e tab -> In (fst e) free /\ snd e = N (fst e).
  Proof.
    unfold tab, nb_table. intros H. apply in_map_iff in H. destruct H as (i & <- & Hi). split; [exact Hi | reflexivity].
  Qed.
  Lemma tab_has i : In i free -> In (i, N i) tab.
  Proof. intros H. unfold tab, nb_table. apply in_map_iff. exists i. split; [reflexivity | exact H]. Qed.

  Lemma closed_sound : closed_b tab free bnd = true ->
    forall i j w, In i free -> In (j, w) (N i) -> In j free \/ In j bnd.
  Proof.
    unfold closed_b. rewrite forallb_forall. intros H i j w Hi Hin.
    specialize (H _ (tab_has i Hi)). cbn [snd] in H. rewrite forallb_forall in H.
    specialize (H _ Hin). cbn [fst] in H. apply orb_true_iff in H. destruct H as [H|H]; apply zmem_In in H; tauto.
  Qed.

  Lemma mark_step_linked M : (forall i, In i M -> linked N bnd i) -> forall i, In i (mark_step tab bnd M) -> linked N bnd i.
  Proof.
    intros HM i Hi. unfold mark_step in Hi. apply in_map_iff in Hi. destruct Hi as (e & <- & He).
    apply filter_In in He. destruct He as [He Hx]. destruct (tab_entry e He) as [_ Es].
    apply existsb_exists in Hx. destruct Hx as ([j w] & Hjw & Hor). rewrite Es in Hjw. cbn [fst] in Hor.
    apply orb_true_iff in Hor. destruct Hor as [H|H]; apply zmem_In in H.
    - eapply link_border; eauto.
    - eapply link_step; eauto.
  Qed.

  Lemma mark_iter_linked n : forall M, (forall i, In i M -> linked N bnd i) ->
    forall i, In i (mark_iter n tab bnd M) -> linked N bnd i.
  Proof.
    induction n as [|n IH]; intros M HM i Hi; cbn [mark_iter] in Hi; [now apply HM|].
    eapply IH; [|exact Hi]. now apply mark_step_linked.
  Qed.

  Lemma linked_sound : linked_b tab free bnd = true -> forall i, In i free -> linked N bnd i.
  Proof.
    unfold linked_b. rewrite forallb_forall. intros H i Hi. specialize (H i Hi). apply zmem_In in H.
    eapply mark_iter_linked; [|exact H]. intros j [].
  Qed.

  Theorem disk_links_sound : disk_links_b fs cot free bnd = true ->
    NoDup (free ++ bnd) /\
    (forall i j w, In i free -> In (j, w) (N i) -> In j free \/ In j bnd) /\
    (forall i, In i free -> linked N bnd i).
  Proof.
    unfold disk_links_b. fold tab. intros H. apply andb_true_iff in H as [H H3]. apply andb_true_iff in H as [H1 H2].
    split; [now apply nodupb_NoDup|]. split; [now apply closed_sound | now apply linked_sound].
  Qed.
End Links.

Open Scope Q_scope.
(* maximum principle with the premises replaced by the boolean test; uniform weights: nothing else is assumed *)
Theorem max_principle_uniform_checked fs cot free bnd U V Ub Vb :
  disk_links_b fs (cot_opt false cot) free bnd = true ->
  length Ub = length bnd -> length Vb = length bnd ->
  let T := lap_triplets fs false cot in
  is_solution_U T free bnd Ub Vb U -> is_solution_V T free bnd Ub Vb V ->
  let p := pos free bnd U V Ub Vb in
  forall i, In i free -> in_hull (map p bnd) (p i).
Proof.
  intros HB LUb LVb T SU SV p i Hi.
  destruct (disk_links_sound _ _ _ _ HB) as (ND & Hcl & Hl).
  apply (max_principle_uniform fs cot free bnd U V Ub Vb ND LUb LVb SU SV Hcl Hl i Hi).
Qed.

Theorem max_principle_checked fs use_cotan cot free bnd U V Ub Vb :
  disk_links_b fs (cot_opt use_cotan cot) free bnd = true ->
  length Ub = length bnd -> length Vb = length bnd ->
  let T := lap_triplets fs use_cotan cot in
  is_solution_U T free bnd Ub Vb U -> is_solution_V T free bnd Ub Vb V ->
  let p := pos free bnd U V Ub Vb in
  (forall i j w, In i free -> In (j, w) (nbrs 0 fs (cot_opt use_cotan cot) i) -> 0 < w) ->
  forall i, In i free -> in_hull (map p bnd) (p i).
Proof.
  intros HB LUb LVb T SU SV p Hpos i Hi.
  destruct (disk_links_sound _ _ _ _ HB) as (ND & Hcl & Hl).
  apply (max_principle_hull fs use_cotan cot free bnd U V Ub Vb ND LUb LVb SU SV Hpos Hcl Hl i Hi).
Qed.

(* non-vacuity: the fan over the four square corners passes the boolean test *)
Example ex_disk_links : disk_links_b [(4, 0, 1); (4, 1, 2); (4, 2, 3); (4, 3, 0)]%Z None [4%Z] [0; 1; 2; 3]%Z = true.
Proof. vm_compute. reflexivity. Qed.
