(* C17 - discrete maximum principle: with strictly positive weights, if every interior vertex is linked to the border
   by a chain of edges, every interior vertex lies in every closed half-plane that contains all border positions
   (i.e. in the convex hull of the border). *)
From Coq Require Import ZArith QArith List Bool Lia Lqa Qfield.
Import ListNotations.
Require Import MV.Lib.Base MV.C17.Gen MV.C17.Model MV.C17.Proofs_Lap MV.C17.Proofs_Harmonic.
Open Scope Z_scope.
Open Scope Q_scope.

Lemma nsum_nonneg_zero N (g : Z -> Q -> Q) :
  (forall j w, In (j, w) N -> 0 <= g j w) -> nsum N g == 0 -> forall j w, In (j, w) N -> g j w == 0.
Proof.
  induction N as [|[j0 w0] t IH]; intros Hp Hs j w Hin; [contradiction|].
  cbn [nsum] in Hs.
  assert (H0 : 0 <= g j0 w0) by (apply Hp; now left).
  assert (Ht : 0 <= nsum t g).
  { clear - Hp. induction t as [|[j1 w1] t IH]; simpl; [lra|].
    assert (0 <= g j1 w1) by (apply Hp; right; now left).
    assert (0 <= nsum t g) by (apply IH; intros; apply Hp; destruct H0; [now left | right; now right]). lra. }
  destruct Hin as [E|Hin].
  - inversion E; subst. lra.
  - apply IH; auto. { intros; apply Hp; now right. } lra.
Qed.

Lemma list_max (f : Z -> Q) (l : list Z) : l <> [] -> exists m, In m l /\ forall x, In x l -> f x <= f m.
Proof.
  induction l as [|a t IH]; [congruence|]. intros _.
  destruct t as [|b t'].
  - exists a. split; [now left|]. intros x [->|[]]. lra.
  - destruct IH as (m & Hm & Hmax); [congruence|].
    destruct (Qlt_le_dec (f m) (f a)) as [L|L].
    + exists a. split; [now left|]. intros x [->|Hx]; [lra|]. specialize (Hmax x Hx). lra.
    + exists m. split; [now right|]. intros x [->|Hx]; [lra|]. now apply Hmax.
Qed.

Section MaxPrinciple.
  Variable N : Z -> list (Z * Q).          (* weighted neighbours *)
  Variables free bnd : list Z.
  Variable f : Z -> Q.

  (* i is joined to the border by a chain of edges through interior vertices *)
  Inductive linked : Z -> Prop :=
  | link_border i j w : In (j, w) (N i) -> In j bnd -> linked i
  | link_step i j w : In (j, w) (N i) -> linked j -> linked i.

  Hypothesis Hharm : forall i, In i free -> nsum (N i) (fun j w => w * (f i - f j)) == 0.
  Hypothesis Hpos : forall i j w, In i free -> In (j, w) (N i) -> 0 < w.
  Hypothesis Hclosed : forall i j w, In i free -> In (j, w) (N i) -> In j free \/ In j bnd.
  Hypothesis Hlink : forall i, In i free -> linked i.

  Theorem max_principle_scalar (g : Q) : (forall b, In b bnd -> f b <= g) -> forall i, In i free -> f i <= g.
  Proof.
    intros Hb i0 Hi0. destruct (Qlt_le_dec g (f i0)) as [Hgt|]; [exfalso|assumption].
    destruct (list_max f free) as (m & Hm & Hmax); [intros E; rewrite E in Hi0; contradiction|].
    assert (Hgm : g < f m) by (specialize (Hmax i0 Hi0); lra).
    (* no linked interior vertex can carry the maximal value *)
    assert (K : forall x, linked x -> In x free -> f x == f m -> False).
    { intros x L. induction L as [x j w Hin Hjb | x j w Hin Lj IH]; intros Hx Ex.
      - (* the neighbour j is on the border but must carry the maximum *)
        assert (Z0 : forall j' w', In (j', w') (N x) -> w' * (f x - f j') == 0).
        { apply nsum_nonneg_zero; [|apply Hharm; exact Hx].
          intros j' w' Hin'. pose proof (Hpos x j' w' Hx Hin') as Hw.
          assert (f j' <= f m).
          { destruct (Hclosed x j' w' Hx Hin') as [F|B]; [now apply Hmax | specialize (Hb j' B); lra]. }
          apply Qmult_le_0_compat; lra. }
        specialize (Z0 j w Hin). pose proof (Hpos x j w Hx Hin) as Hw.
        assert (E : f x - f j == 0).
        { destruct (Qmult_integral _ _ Z0) as [Ew|E]; [lra|exact E]. }
        specialize (Hb j Hjb). lra.
      - assert (Z0 : forall j' w', In (j', w') (N x) -> w' * (f x - f j') == 0).
        { apply nsum_nonneg_zero; [|apply Hharm; exact Hx].
          intros j' w' Hin'. pose proof (Hpos x j' w' Hx Hin') as Hw.
          assert (f j' <= f m).
          { destruct (Hclosed x j' w' Hx Hin') as [F|B]; [now apply Hmax | specialize (Hb j' B); lra]. }
          apply Qmult_le_0_compat; lra. }
        specialize (Z0 j w Hin). pose proof (Hpos x j w Hx Hin) as Hw.
        assert (E : f x - f j == 0).
        { destruct (Qmult_integral _ _ Z0) as [Ew|E]; [lra|exact E]. }
        destruct (Hclosed x j w Hx Hin) as [F|B].
        + apply IH; [exact F|lra].
        + specialize (Hb j B). lra. }
    apply (K m (Hlink m Hm) Hm). reflexivity.
  Qed.
End MaxPrinciple.

Lemma nsum_lin N (a b : Q) (x y : Q) (fx fy : Z -> Q) :
  nsum N (fun j w => w * ((a * x + b * y) - (a * fx j + b * fy j)))
  == a * nsum N (fun j w => w * (x - fx j)) + b * nsum N (fun j w => w * (y - fy j)).
Proof. induction N as [|[j w] t IH]; simpl; [ring|]. rewrite IH. ring. Qed.

(* the embedding: every half-plane  a u + b v <= g  that contains the border positions contains the interior ones *)
Theorem max_principle fs use_cotan cot free bnd U V Ub Vb :
  NoDup (free ++ bnd) -> length Ub = length bnd -> length Vb = length bnd ->
  let T := lap_triplets fs use_cotan cot in
  is_solution_U T free bnd Ub Vb U -> is_solution_V T free bnd Ub Vb V ->
  let p := pos free bnd U V Ub Vb in
  let N := fun i => nbrs 0 fs (cot_opt use_cotan cot) i in
  (forall i j w, In i free -> In (j, w) (N i) -> 0 < w) ->                       (* positive weights *)
  (forall i j w, In i free -> In (j, w) (N i) -> In j free \/ In j bnd) ->       (* all vertices are listed *)
  (forall i, In i free -> linked N bnd i) ->                                     (* every interior vertex reaches the border *)
  forall a b g : Q,
    (forall x, In x bnd -> a * fst (p x) + b * snd (p x) <= g) ->
    forall i, In i free -> a * fst (p i) + b * snd (p i) <= g.
Proof.
  intros ND LUb LVb T SU SV p N Hpos Hcl Hlink a b g Hb i Hi.
  apply (max_principle_scalar N free bnd (fun c => a * fst (p c) + b * snd (p c))); auto.
  intros i' Hi'. rewrite nsum_lin.
  destruct (harmonic fs use_cotan cot free bnd U V Ub Vb ND LUb LVb SU SV i' Hi') as [A B].
  fold p in A, B. unfold N. rewrite A, B. ring.
Qed.

(* ------------------------------------------------------------------ convex hull form.
   [in_hull pts x]: x lies in every closed half-plane that contains all the points pts - for a finite point set this
   intersection IS its closed convex hull (finite-dimensional separation; that classical fact is not re-proved here,
   the easy inclusion is [hull_contains_combinations] below). *)
Definition in_hull (pts : list (Q * Q)) (x : Q * Q) : Prop :=
  forall a b g : Q, (forall y, In y pts -> a * fst y + b * snd y <= g) -> a * fst x + b * snd x <= g.

(* every convex combination of the points is in the hull *)
Fixpoint comb (l : list (Q * (Q * Q))) : Q * Q :=
  match l with [] => (0, 0) | (w, y) :: t => (w * fst y + fst (comb t), w * snd y + snd (comb t)) end.
Fixpoint wtot (l : list (Q * (Q * Q))) : Q := match l with [] => 0 | (w, _) :: t => w + wtot t end.

Lemma hull_contains_combinations pts l :
  (forall w y, In (w, y) l -> 0 <= w /\ In y pts) -> wtot l == 1 -> in_hull pts (comb l).
Proof.
  intros Hl H1 a b g Hg.
  assert (K : a * fst (comb l) + b * snd (comb l) <= wtot l * g).
  { clear H1. induction l as [|[w y] t IH]; cbn [comb wtot fst snd]; [lra|].
    destruct (Hl w y (or_introl eq_refl)) as [Hw Hy]. specialize (Hg y Hy).
    assert (IH' : a * fst (comb t) + b * snd (comb t) <= wtot t * g).
    { apply IH. intros w' y' H'. apply Hl. now right. }
    assert (w * (a * fst y + b * snd y) <= w * g) by nra.
    lra. }
  rewrite H1 in K. lra.
Qed.

(* uniform weights (the generated 1/2 per face edge): positivity is automatic *)
Theorem max_principle_uniform fs cot free bnd U V Ub Vb :
  NoDup (free ++ bnd) -> length Ub = length bnd -> length Vb = length bnd ->
  let T := lap_triplets fs false cot in
  is_solution_U T free bnd Ub Vb U -> is_solution_V T free bnd Ub Vb V ->
  let p := pos free bnd U V Ub Vb in
  let N := fun i => nbrs 0 fs (cot_opt false cot) i in
  (forall i j w, In i free -> In (j, w) (N i) -> In j free \/ In j bnd) ->
  (forall i, In i free -> linked N bnd i) ->
  forall i, In i free -> in_hull (map p bnd) (p i).
Proof.
  intros ND LUb LVb T SU SV p N Hcl Hlink i Hi a b g Hg.
  apply (max_principle fs false cot free bnd U V Ub Vb ND LUb LVb SU SV) with (i := i); auto.
  - intros i' j w _ Hin. unfold cot_opt in Hin. cbn in Hin. rewrite (nbrs_uniform _ _ _ _ _ Hin). reflexivity.
  - intros x Hx. apply Hg. apply in_map. exact Hx.
Qed.

(* general weights: the hull form of max_principle *)
Theorem max_principle_hull fs use_cotan cot free bnd U V Ub Vb :
  NoDup (free ++ bnd) -> length Ub = length bnd -> length Vb = length bnd ->
  let T := lap_triplets fs use_cotan cot in
  is_solution_U T free bnd Ub Vb U -> is_solution_V T free bnd Ub Vb V ->
  let p := pos free bnd U V Ub Vb in
  let N := fun i => nbrs 0 fs (cot_opt use_cotan cot) i in
  (forall i j w, In i free -> In (j, w) (N i) -> 0 < w) ->
  (forall i j w, In i free -> In (j, w) (N i) -> In j free \/ In j bnd) ->
  (forall i, In i free -> linked N bnd i) ->
  forall i, In i free -> in_hull (map p bnd) (p i).
Proof.
  intros ND LUb LVb T SU SV p N Hpos Hcl Hlink i Hi a b g Hg.
  apply (max_principle fs use_cotan cot free bnd U V Ub Vb ND LUb LVb SU SV) with (i := i); auto.
  intros x Hx. apply Hg. apply in_map. exact Hx.
Qed.

(* consequence on the square target: a point in the hull of points of the unit square lies in the unit square *)
Lemma hull_in_box pts x :
  (forall y, In y pts -> 0 <= fst y /\ fst y <= 1 /\ 0 <= snd y /\ snd y <= 1) -> in_hull pts x ->
  0 <= fst x /\ fst x <= 1 /\ 0 <= snd x /\ snd x <= 1.
Proof.
  intros Hb Hx. repeat split.
  - specialize (Hx (-1) 0 0). assert (-1 * fst x + 0 * snd x <= 0); [|lra].
    apply Hx. intros y Hy. destruct (Hb y Hy) as (A & B & C & D). lra.
  - specialize (Hx 1 0 1). assert (1 * fst x + 0 * snd x <= 1); [|lra].
    apply Hx. intros y Hy. destruct (Hb y Hy) as (A & B & C & D). lra.
  - specialize (Hx 0 (-1) 0). assert (0 * fst x + -1 * snd x <= 0); [|lra].
    apply Hx. intros y Hy. destruct (Hb y Hy) as (A & B & C & D). lra.
  - specialize (Hx 0 1 1). assert (0 * fst x + 1 * snd x <= 1); [|lra].
    apply Hx. intros y Hy. destruct (Hb y Hy) as (A & B & C & D). lra.
Qed.
