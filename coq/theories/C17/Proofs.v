(* C17 - the statements exported by Props.v, assembled from the Proofs_* files, each with a non-vacuity example. *)
From Coq Require Import ZArith QArith List Bool Lia Lqa.
Import ListNotations.
Require Import MV.Lib.Base MV.C17.Gen MV.C17.Model.
Require Import MV.C17.Proofs_Gate MV.C17.Proofs_Border MV.C17.Proofs_Lap MV.C17.Proofs_Harmonic MV.C17.Proofs_Max
               MV.C17.Proofs_Scatter MV.C17.Proofs_Cert.
Open Scope Z_scope.
Open Scope Q_scope.

(* ------------------------------------------------------------------ border placement, square, all n >= 3 *)
Lemma border_placement_square : forall n : Z, (3 <= n)%Z ->
  (forall v, (0 <= v < n)%Z ->
     sq_U n v == fst (sq_curve (sq_param n v)) /\ sq_V n v == snd (sq_curve (sq_param n v)) /\
     0 <= sq_param n v /\ sq_param n v < 4) /\
  (forall v w, (0 <= v)%Z -> (v < w)%Z -> (w < n)%Z -> sq_param n v < sq_param n w) /\
  (forall s t, 0 <= s -> s < 4 -> 0 <= t -> t < 4 ->
     fst (sq_curve s) == fst (sq_curve t) -> snd (sq_curve s) == snd (sq_curve t) -> s == t) /\
  (forall s, 0 <= s -> s < 4 ->
     let p := sq_curve s in
     ((fst p == 0 \/ fst p == 1) /\ 0 <= snd p /\ snd p <= 1) \/ ((snd p == 0 \/ snd p == 1) /\ 0 <= fst p /\ fst p <= 1)).
Proof.
  intros n Hn. split; [|split; [|split]].
  - intros v Hv. now apply sq_placement.
  - intros v w H0 H1 H2. now apply sq_param_mono.
  - exact sq_curve_inj.
  - exact sq_curve_on_square.
Qed.

Lemma border_placement_circle : forall n i j : Z, (0 < n)%Z -> (0 <= i)%Z -> (i < j)%Z -> (j < n)%Z ->
  (0 <= circle_turn n i /\ circle_turn n i < circle_turn n j /\ circle_turn n j < 1) /\
  circle_turn n i == inject_Z i / inject_Z n /\
  circle_U_part = PReal /\ circle_V_part = PImag /\ circle_radius == 1.
Proof.
  intros n i j Hn Hi Hij Hj. split; [now apply circle_params|]. split; [now apply circle_turn_eq|]. exact circle_parts.
Qed.

Lemma border_placement_custom : forall rows : list (list Q),
  border_custom rows = map (fun r => (znth r 0%Z 0, znth r 1%Z 0)) rows.
Proof. reflexivity. Qed.

Lemma laplacian_rows : forall fs t cot k f,
  rowdot (row_of (lap_from t fs cot) k) f == nsum (nbrs t fs cot k) (fun j w => w * (f k - f j)).
Proof. intros. rewrite lap_rowdot. apply face_sum_nbrs. Qed.

(* ------------------------------------------------------------------ harmonic: uniform weights *)
Lemma harmonic_uniform_weights : forall fs cot k j w,
  In (j, w) (nbrs 0 fs (cot_opt false cot) k) -> w = (1 # 2).
Proof. intros fs cot k j w H. eapply nbrs_uniform. exact H. Qed.

(* ------------------------------------------------------------------ what a run's certificate establishes *)
Lemma fold_free_checker_soundness_partial : forall fs use_cotan cot free bnd Ub Vb D NU NV,
  let T := lap_triplets fs use_cotan cot in
  check_cert_with rhs_U T free bnd (comp_list U_border_data [] [] Ub Vb) D NU = true ->
  check_cert_with rhs_V T free bnd (comp_list V_border_data [] [] Ub Vb) D NV = true ->
  let U := cert_values D NU in
  let V := cert_values D NV in
  let p := read0 (vertex_writes free bnd U V Ub Vb) in
  fold_free p fs = true ->
  is_solution_U T free bnd Ub Vb U /\ is_solution_V T free bnd Ub Vb V /\
  ((forall f, In f fs -> 0 < face_det p f) \/ (forall f, In f fs -> face_det p f < 0)).
Proof.
  intros fs use_cotan cot free bnd Ub Vb D NU NV T HU HV U V p HF.
  split; [now apply cert_sound_U|]. split; [now apply cert_sound_V|]. now apply fold_free_spec.
Qed.

(* ------------------------------------------------------------------ non-vacuity of the hypotheses of
   harmonic / harmonic_average / max_principle: the fan over the 4 square corners (interior vertex 4) *)
Definition exU := cert_values 2 [1%Z].
Definition exUb := map fst ex_B.
Definition exVb := map snd ex_B.
Example ex_nodup : NoDup ([4%Z] ++ [0; 1; 2; 3]%Z).
Proof. repeat constructor; simpl; intuition lia. Qed.
Example ex_sol_U : is_solution_U (lap_triplets ex_faces false []) [4%Z] [0; 1; 2; 3]%Z exUb exVb exU.
Proof. apply cert_sound_U. exact ex_cert_U. Qed.
Example ex_sol_V : is_solution_V (lap_triplets ex_faces false []) [4%Z] [0; 1; 2; 3]%Z exUb exVb exU.
Proof. apply cert_sound_V. exact ex_cert_V. Qed.
Example ex_positive : forall i j w, In i [4%Z] -> In (j, w) (nbrs 0 ex_faces (cot_opt false []) i) -> 0 < w.
Proof. intros i j w _ H. rewrite (harmonic_uniform_weights _ _ _ _ _ H). reflexivity. Qed.
Example ex_closed : forall i j w, In i [4%Z] -> In (j, w) (nbrs 0 ex_faces (cot_opt false []) i) ->
  In j [4%Z] \/ In j [0; 1; 2; 3]%Z.
Proof.
  intros i j w [<-|[]] H. right. vm_compute in H.
  repeat (destruct H as [H|H]; [inversion H; subst; simpl; tauto|]). contradiction.
Qed.
Example ex_linked : forall i, In i [4%Z] -> linked (fun i => nbrs 0 ex_faces (cot_opt false []) i) [0; 1; 2; 3]%Z i.
Proof.
  intros i [<-|[]]. apply (link_border _ _ 4%Z 0%Z (1 # 2)); [vm_compute; tauto | simpl; tauto].
Qed.
(* the interior vertex of the example sits at (1/2, 1/2) = the average of the four corners *)
Example ex_centre : read0 (vertex_writes [4%Z] [0; 1; 2; 3]%Z exU exU exUb exVb) 4%Z = (1 # 2, 1 # 2).
Proof. vm_compute. reflexivity. Qed.
