(* C17 - every solution of the partitioned system  LI X = rhs (LB . B)  puts each interior vertex at the weighted
   average of its neighbours; discrete maximum principle for positive weights. *)
From Coq Require Import ZArith QArith List Bool Lia Lqa Qfield.
Import ListNotations.
Require Import MV.Lib.Base MV.C17.Gen MV.C17.Model MV.C17.Proofs_Lap.
Open Scope Z_scope.
Open Scope Q_scope.

(* ------------------------------------------------------------------ entry_in / dotl as rowdot *)
Definition ind (j : Z) (c : Z) : Q := if (c =? j)%Z then 1 else 0.

Lemma entry_in_rowdot R j : entry_in R j == rowdot R (ind j).
Proof.
  induction R as [|[[r c] x] t IH]; cbn [entry_in rowdot]; [reflexivity|]. unfold ind at 1.
  destruct (Z.eqb_spec c j); [rewrite (Qred_correct (x + entry_in t j)), IH; ring | rewrite IH; ring].
Qed.

(* first value stored under key c, 0 if none *)
Fixpoint lk (l : list (Z * Q)) (c : Z) : Q :=
  match l with [] => 0 | (k, v) :: t => if (k =? c)%Z then v else lk t c end.

Lemma lk_notin l c : ~ In c (map fst l) -> lk l c = 0.
Proof.
  induction l as [|[k v] t IH]; simpl; intros H; [reflexivity|].
  destruct (Z.eqb_spec k c); [exfalso; apply H; now left | apply IH; tauto].
Qed.

Lemma dotl_cons R k v t : dotl R ((k, v) :: t) == entry_in R k * v + dotl R t.
Proof.
  cbn [dotl]. destruct (Qeq_bool (entry_in R k) 0) eqn:E; [|reflexivity].
  apply Qeq_bool_iff in E. rewrite E. ring.
Qed.

Lemma dotl_rowdot R l : NoDup (map fst l) -> dotl R l == rowdot R (lk l).
Proof.
  induction l as [|[k v] t IH]; intros ND.
  - simpl. induction R as [|[[r c] x] R' IHR]; simpl; [reflexivity|]. rewrite <- IHR. ring.
  - inversion ND as [|? ? Hk ND']; subst. rewrite dotl_cons, (IH ND'), entry_in_rowdot.
    (* rowdot R (lk ((k,v)::t)) = rowdot R (ind k) * v + rowdot R (lk t) *)
    clear IH. induction R as [|[[r c] x] R' IHR]; cbn [rowdot]; [ring|].
    rewrite <- IHR. cbn [lk]. unfold ind.
    destruct (Z.eqb_spec k c) as [->|N].
    + rewrite Z.eqb_refl. rewrite (lk_notin t c Hk). ring.
    + destruct (Z.eqb_spec c k); [congruence|]. ring.
Qed.

Lemma lk_app l1 l2 c : NoDup (map fst l1 ++ map fst l2) -> lk (l1 ++ l2) c == lk l1 c + lk l2 c.
Proof.
  induction l1 as [|[k v] t IH]; simpl; intros ND; [ring|].
  inversion ND as [|? ? Hk ND']; subst.
  destruct (Z.eqb_spec k c) as [->|N].
  - rewrite (lk_notin l2 c); [ring|]. intros H. apply Hk. apply in_or_app. now right.
  - now apply IH.
Qed.

Lemma NoDup_app_l {A} (l1 l2 : list A) : NoDup (l1 ++ l2) -> NoDup l1.
Proof.
  induction l1 as [|a l IH]; simpl; intros H; [constructor|].
  inversion H; subst. constructor; [intros Hin; apply H2; apply in_or_app; now left | now apply IH].
Qed.
Lemma NoDup_app_r {A} (l1 l2 : list A) : NoDup (l1 ++ l2) -> NoDup l2.
Proof. induction l1 as [|a l IH]; simpl; intros H; [exact H|]. inversion H; subst. now apply IH. Qed.

(* ------------------------------------------------------------------ the stored positions as key lookups *)
Definition proj1s (w : uvmap) : list (Z * Q) := map (fun it => (fst it, fst (snd it))) w.
Definition proj2s (w : uvmap) : list (Z * Q) := map (fun it => (fst it, snd (snd it))) w.

Lemma read_none w c : ~ In c (map fst w) -> read w c = None.
Proof.
  induction w as [|[k x] t IH]; simpl; intros H; [reflexivity|].
  rewrite IH by tauto. destruct (Z.eqb_spec k c); [exfalso; apply H; now left | reflexivity].
Qed.

Lemma read0_lk w c : NoDup (map fst w) ->
  fst (read0 w c) == lk (proj1s w) c /\ snd (read0 w c) == lk (proj2s w) c.
Proof.
  unfold read0. induction w as [|[k x] t IH]; intros ND; [simpl; split; reflexivity|].
  inversion ND as [|? ? Hk ND']; subst. cbn [read proj1s proj2s map lk fst snd].
  destruct (Z.eqb_spec k c) as [->|N].
  - rewrite (read_none t c Hk). simpl. split; reflexivity.
  - specialize (IH ND'). destruct (read t c) eqn:E; exact IH.
Qed.

Lemma proj1s_combine ks : forall A B, length A = length B ->
  proj1s (combine ks (combine A B)) = combine ks A /\ proj2s (combine ks (combine A B)) = combine ks B.
Proof.
  unfold proj1s, proj2s.
  induction ks as [|k ks IH]; intros A B L; [split; reflexivity|].
  destruct A as [|a A]; destruct B as [|b B]; try discriminate; [split; reflexivity|].
  simpl in L. injection L as L. destruct (IH A B L) as [E1 E2]. simpl. rewrite E1, E2. split; reflexivity.
Qed.

Lemma map_fst_combine {A} (ks : list Z) : forall (vs : list A), length ks = length vs -> map fst (combine ks vs) = ks.
Proof.
  induction ks as [|k ks IH]; intros [|v vs] L; try discriminate; [reflexivity|].
  simpl. f_equal. apply IH. simpl in L. lia.
Qed.

Lemma vertex_writes_eq free bnd U V Ub Vb :
  vertex_writes free bnd U V Ub Vb = combine free (combine U V) ++ combine bnd (combine Ub Vb).
Proof. unfold vertex_writes, scatter_vertex. cbn [flat_map scatter_items sel_list comp_list]. now rewrite app_nil_r. Qed.

Section Positions.
  Variables (free bnd : list Z) (U V Ub Vb : list Q).
  Hypothesis ND : NoDup (free ++ bnd).
  Hypothesis LU : length U = length free.
  Hypothesis LV : length V = length free.
  Hypothesis LUb : length Ub = length bnd.
  Hypothesis LVb : length Vb = length bnd.

  Definition pos (c : Z) : Q * Q := read0 (vertex_writes free bnd U V Ub Vb) c.

  Lemma keys_writes : map fst (vertex_writes free bnd U V Ub Vb) = free ++ bnd.
  Proof.
    rewrite vertex_writes_eq, map_app, !map_fst_combine; [reflexivity| |].
    - rewrite combine_length. lia.
    - rewrite combine_length. lia.
  Qed.

  Lemma pos_fst c : fst (pos c) == lk (combine free U) c + lk (combine bnd Ub) c.
  Proof.
    unfold pos. destruct (read0_lk (vertex_writes free bnd U V Ub Vb) c) as [E _]; [rewrite keys_writes; exact ND|].
    rewrite E, vertex_writes_eq. unfold proj1s. rewrite map_app. fold (proj1s (combine free (combine U V))).
    fold (proj1s (combine bnd (combine Ub Vb))).
    destruct (proj1s_combine free U V) as [-> _]; [lia|]. destruct (proj1s_combine bnd Ub Vb) as [-> _]; [lia|].
    apply lk_app. rewrite !map_fst_combine by lia. exact ND.
  Qed.

  Lemma pos_snd c : snd (pos c) == lk (combine free V) c + lk (combine bnd Vb) c.
  Proof.
    unfold pos. destruct (read0_lk (vertex_writes free bnd U V Ub Vb) c) as [_ E]; [rewrite keys_writes; exact ND|].
    rewrite E, vertex_writes_eq. unfold proj2s. rewrite map_app. fold (proj2s (combine free (combine U V))).
    fold (proj2s (combine bnd (combine Ub Vb))).
    destruct (proj1s_combine free U V) as [_ ->]; [lia|]. destruct (proj1s_combine bnd Ub Vb) as [_ ->]; [lia|].
    apply lk_app. rewrite !map_fst_combine by lia. exact ND.
  Qed.

End Positions.

  (* one row of the system, read back on the stored positions *)
Lemma row_on_positions (free bnd : list Z) (ND : NoDup (free ++ bnd)) R X B (g : Z -> Q) :
    length X = length free -> length B = length bnd ->
    (forall c, g c == lk (combine free X) c + lk (combine bnd B) c) ->
    dotl R (combine free X) == - dotl R (combine bnd B) ->
    rowdot R g == 0.
  Proof.
    intros LX LB Hg E.
    assert (NDf : NoDup free) by (eapply NoDup_app_l; exact ND).
    assert (NDb : NoDup bnd) by (eapply NoDup_app_r; exact ND).
    rewrite (rowdot_ext R g _ Hg), rowdot_plus.
    rewrite <- !dotl_rowdot by (rewrite map_fst_combine by lia; assumption).
    rewrite E. ring.
  Qed.


(* ------------------------------------------------------------------ the harmonic property *)
Definition cot_opt (use_cotan : bool) (cot : list Q) : option (list Q) :=
  if lap_cotan_flag use_cotan then Some cot else None.

Lemma sys_rows_free free bnd : sys_rows free bnd = combine free free.
Proof. reflexivity. Qed.

Lemma in_combine_same {A} (l : list A) x : In x l -> In (x, x) (combine l l).
Proof. induction l as [|a l IH]; simpl; [tauto|]. intros [->|H]; [now left | right; auto]. Qed.

Theorem harmonic fs use_cotan cot free bnd U V Ub Vb :
  NoDup (free ++ bnd) ->
  length Ub = length bnd -> length Vb = length bnd ->
  let T := lap_triplets fs use_cotan cot in
  is_solution_U T free bnd Ub Vb U -> is_solution_V T free bnd Ub Vb V ->
  forall i, In i free ->
    let p := pos free bnd U V Ub Vb in
    let N := nbrs 0 fs (cot_opt use_cotan cot) i in
    (* sum over the face edges at i of  w * (p_i - p_j)  vanishes, in both coordinates ... *)
    nsum N (fun j w => w * (fst (p i) - fst (p j))) == 0 /\
    nsum N (fun j w => w * (snd (p i) - snd (p j))) == 0.
Proof.
  intros ND LUb LVb T [LU SU] [LV SV] i Hi p N.
  cbn [sel_list LI_cols] in LU, LV.
  rewrite Forall_forall in SU, SV.
  pose proof (in_combine_same free i Hi) as Hr. rewrite <- sys_rows_free with (bnd := bnd) in Hr.
  specialize (SU _ Hr). specialize (SV _ Hr). cbn [fst snd] in SU, SV.
  unfold sys_lhs, lb_dot, rhs_U, rhs_V in SU, SV. cbn [sel_list LI_cols LB_cols comp_list U_border_data V_border_data] in SU, SV.
  unfold N, cot_opt. split.
  - rewrite <- (face_sum_nbrs fs 0%Z _ i (fun c => fst (p c))), <- lap_rowdot.
    change (lap_from 0%Z fs (if lap_cotan_flag use_cotan then Some cot else None)) with T.
    eapply (row_on_positions free bnd ND (row_of T i) U Ub); [exact LU|exact LUb| |exact SU].
    intros c. unfold p. apply pos_fst; assumption.
  - rewrite <- (face_sum_nbrs fs 0%Z _ i (fun c => snd (p c))), <- lap_rowdot.
    change (lap_from 0%Z fs (if lap_cotan_flag use_cotan then Some cot else None)) with T.
    eapply (row_on_positions free bnd ND (row_of T i) V Vb); [exact LV|exact LVb| |exact SV].
    intros c. unfold p. apply pos_snd; assumption.
Qed.

(* the same as "weighted average":  (sum w) * p_i = sum w * p_j *)
Lemma nsum_average N (f : Z -> Q) (x : Q) :
  nsum N (fun j w => w * (x - f j)) == 0 ->
  nsum N (fun _ w => w) * x == nsum N (fun j w => w * f j).
Proof.
  assert (E : nsum N (fun j w => w * (x - f j)) == nsum N (fun _ w => w) * x - nsum N (fun j w => w * f j)).
  { induction N as [|[j w] t IH]; simpl; [ring|]. rewrite IH. ring. }
  rewrite E. intros H. lra.
Qed.

Corollary harmonic_average fs use_cotan cot free bnd U V Ub Vb :
  NoDup (free ++ bnd) -> length Ub = length bnd -> length Vb = length bnd ->
  let T := lap_triplets fs use_cotan cot in
  is_solution_U T free bnd Ub Vb U -> is_solution_V T free bnd Ub Vb V ->
  forall i, In i free ->
    let p := pos free bnd U V Ub Vb in
    let N := nbrs 0 fs (cot_opt use_cotan cot) i in
    let W := nsum N (fun _ w => w) in
    W * fst (p i) == nsum N (fun j w => w * fst (p j)) /\ W * snd (p i) == nsum N (fun j w => w * snd (p j)).
Proof.
  intros ND LUb LVb T SU SV i Hi p N W.
  destruct (harmonic fs use_cotan cot free bnd U V Ub Vb ND LUb LVb SU SV i Hi) as [A B].
  split; apply nsum_average; assumption.
Qed.
