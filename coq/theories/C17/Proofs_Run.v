(* C17 - what a successful per-case check [check_ok] establishes about that case. *)
From Coq Require Import ZArith QArith List Bool Lia.
Import ListNotations.
Require Import MV.Lib.Base MV.C17.Gen MV.C17.Model MV.C17.Run MV.C17.Proofs_Cert MV.C17.Proofs_Harmonic MV.C17.Proofs_Max MV.C17.Proofs_Disk.
Require Import MV.C17.Proofs_Scaled.
Open Scope Z_scope.
Open Scope Q_scope.

Theorem check_ok_establishes : forall c : tcase, check_ok c = true ->
  let B := border_data c in
  let Ub := map fst B in
  let Vb := map snd B in
  let T := lap_triplets (c_faces c) (c_cotan c) (c_cot c) in
  let U := cert_values (k_D c) (k_NU c) in
  let V := cert_values (k_D c) (k_NV c) in
  let p := read0 (vertex_writes (o_free c) (o_bnd c) U V Ub Vb) in
  is_solution_U T (o_free c) (o_bnd c) Ub Vb U /\ is_solution_V T (o_free c) (o_bnd c) Ub Vb V /\
  (promised c (fun v => znth (tabulate (exact_vertex_map c) (c_nv c)) v zero2) = true -> k_exact_orient c = true ->
   (forall f, In f (c_faces c) -> 0 < face_det p f) \/ (forall f, In f (c_faces c) -> face_det p f < 0)) /\
  (c_cotan c = false -> forall i, In i (o_free c) -> in_hull (map p (o_bnd c)) (p i)).
Proof.
  intros c H B Ub Vb T U V p. unfold check_ok in H.
  repeat (apply andb_true_iff in H; let H' := fresh "K" in destruct H as [H H']).
  match goal with
  | HU : check_cert_with rhs_U _ _ _ _ _ _ = true, HV : check_cert_with rhs_V _ _ _ _ _ _ = true |- _ =>
      pose proof (cert_sound_U _ _ _ _ _ _ _ HU) as SU; pose proof (cert_sound_V _ _ _ _ _ _ _ HV) as SV;
      pose proof HU as CU
  end.
  split; [exact SU|]. split; [exact SV|]. split; cycle 1.
  { intros Hc i Hi.
    match goal with
    | HL : disk_links_b _ _ _ _ = true, HB : (length (border_data c) =? length (o_bnd c))%nat = true |- _ =>
        rename HL into DL; rename HB into LB
    end.
    apply Nat.eqb_eq in LB.
    unfold T in SU, SV. rewrite Hc in SU, SV, DL.
    change (in_hull (map (pos (o_free c) (o_bnd c) U V Ub Vb) (o_bnd c)) (pos (o_free c) (o_bnd c) U V Ub Vb i)).
    apply (max_principle_uniform_checked (c_faces c) (c_cot c)); try assumption.
    - unfold Ub, B. rewrite map_length. exact LB.
    - unfold Vb, B. rewrite map_length. exact LB. }
  intros Hp He.
  match goal with
  | H0 : (if promised c _ then _ else true) = true |- _ => rename H0 into HF
  end.
  rewrite Hp, He in HF. apply andb_true_iff in HF. destruct HF as [_ HF].
  apply fold_free_spec. unfold p, U, V, Ub, Vb, B.
  assert (HD : (0 < k_D c)%Z).
  { unfold check_cert_with in CU. apply andb_true_iff in CU as [CU _]. apply andb_true_iff in CU as [CU _]. now apply Z.ltb_lt. }
  apply (scaled_fold_free _ _ _ _ _ _ _ _ HD).
  exact HF.
Qed.

(* non-vacuity: a complete case record (fan over the 4 square corners, as the harness writes it) passes check_ok *)
Definition ex_case : tcase :=
  mk_case 5 [(4, 0, 1); (4, 1, 2); (4, 2, 3); (4, 3, 0)]%Z false [] MSquare [] false 8 [4%Z] [0; 1; 2; 3]%Z
          [(0, 0); (1, 0); (1, 1); (0, 1); (1 # 2, 1 # 2)] 
          [(1 # 2, 1 # 2); (0, 0); (1, 0); (1 # 2, 1 # 2); (1, 0); (1, 1); (1 # 2, 1 # 2); (1, 1); (0, 1); (1 # 2, 1 # 2); (0, 1); (0, 0)]
          [(0, 0); (1, 0); (1, 1); (0, 1); (1 # 2, 1 # 2)] [(0, 0); (1, 0); (1, 1); (0, 1); (1 # 2, 1 # 2)]
          [] 2 [1%Z] [1%Z] true true.
Example ex_case_ok : check_ok ex_case = true /\
  promised ex_case (fun v => znth (tabulate (exact_vertex_map ex_case) (c_nv ex_case)) v zero2) = true.
Proof. split; vm_compute; reflexivity. Qed.
