(* C17 - what the assembled Laplacian does to a vertex function:
     (L f)_k  =  sum over the face edges {k,j} (one per adjacent face) of  w * (f k - f j),
   proved from the GENERATED coefficient pattern (lap_edge_entries / lap_face_entries). *)
From Coq Require Import ZArith QArith List Bool Lia Lqa Qfield.
Import ListNotations.
Require Import MV.Lib.Base MV.C17.Gen MV.C17.Model.
Open Scope Z_scope.
Open Scope Q_scope.

(* row R applied to a vertex function *)
Fixpoint rowdot (R : list triplet) (f : Z -> Q) : Q :=
  match R with
  | [] => 0
  | (_, c, x) :: t => x * f c + rowdot t f
  end.

Lemma rowdot_app R1 R2 f : rowdot (R1 ++ R2) f == rowdot R1 f + rowdot R2 f.
Proof.
  induction R1 as [|[[r c] x] t IH]; simpl; [ring|]. rewrite IH. ring.
Qed.

Lemma rowdot_ext R f g : (forall c, f c == g c) -> rowdot R f == rowdot R g.
Proof.
  intros E. induction R as [|[[r c] x] t IH]; simpl; [reflexivity|]. rewrite IH, (E c). reflexivity.
Qed.

Lemma rowdot_plus R f g : rowdot R (fun c => f c + g c) == rowdot R f + rowdot R g.
Proof.
  induction R as [|[[r c] x] t IH]; simpl; [ring|]. rewrite IH. ring.
Qed.

Lemma rowdot_scale R f a : rowdot R (fun c => a * f c) == a * rowdot R f.
Proof.
  induction R as [|[[r c] x] t IH]; simpl; [ring|]. rewrite IH. ring.
Qed.

Lemma row_of_app T1 T2 i : row_of (T1 ++ T2) i = row_of T1 i ++ row_of T2 i.
Proof. unfold row_of. apply filter_app. Qed.

(* contribution of one weighted face edge (i,j) to row k *)
Definition edge_term (i j : Z) (w : Q) (k : Z) (f : Z -> Q) : Q :=
  (if (i =? k)%Z then w * (f i - f j) else 0) + (if (j =? k)%Z then w * (f j - f i) else 0).

Lemma edge_row i j w k f : rowdot (row_of (lap_edge_entries i j w) k) f == edge_term i j w k f.
Proof.
  unfold lap_edge_entries, edge_term, row_of. cbn [filter fst snd].
  destruct (Z.eqb_spec i k); destruct (Z.eqb_spec j k); cbn [rowdot]; ring.
Qed.

Definition face_term (p q r : Z) (a b c : Q) (k : Z) (f : Z -> Q) : Q :=
  edge_term p q c k f + edge_term q r a k f + edge_term r p b k f.

Lemma face_row p q r a b c k f :
  rowdot (row_of (lap_face_entries p q r a b c) k) f == face_term p q r a b c k f.
Proof.
  unfold lap_face_entries, face_term. rewrite !row_of_app, !rowdot_app, !edge_row. ring.
Qed.

Fixpoint face_sum (t : Z) (fs : list face) (cot : option (list Q)) (k : Z) (f : Z -> Q) : Q :=
  match fs with
  | [] => 0
  | (p, q, r) :: rest =>
      (let '(a, b, c) := face_weights cot t in face_term p q r a b c k f) + face_sum (t + 1)%Z rest cot k f
  end.

Lemma lap_rowdot fs : forall t cot k f, rowdot (row_of (lap_from t fs cot) k) f == face_sum t fs cot k f.
Proof.
  induction fs as [|[[p q] r] rest IH]; intros t cot k f; cbn [lap_from face_sum]; [reflexivity|].
  destruct (face_weights cot t) as [[a b] c].
  rewrite row_of_app, rowdot_app, face_row, IH. reflexivity.
Qed.

(* [edge_nbrs], [nbrs] (the neighbours of k with their weights, one item per adjacent face edge) are in Model.v *)

(* sum_{(j,w)} w * (f k - f j) *)
Fixpoint nsum (N : list (Z * Q)) (g : Z -> Q -> Q) : Q :=
  match N with [] => 0 | (j, w) :: t => g j w + nsum t g end.

Lemma nsum_app N1 N2 g : nsum (N1 ++ N2) g == nsum N1 g + nsum N2 g.
Proof. induction N1 as [|[j w] t IH]; simpl; [ring|]. rewrite IH. ring. Qed.

Lemma edge_term_nbrs i j w k f : edge_term i j w k f == nsum (edge_nbrs i j w k) (fun j' w' => w' * (f k - f j')).
Proof.
  unfold edge_term, edge_nbrs.
  destruct (Z.eqb_spec i k); destruct (Z.eqb_spec j k); subst; simpl; ring.
Qed.

Lemma face_sum_nbrs fs : forall t cot k f,
  face_sum t fs cot k f == nsum (nbrs t fs cot k) (fun j w => w * (f k - f j)).
Proof.
  induction fs as [|[[p q] r] rest IH]; intros t cot k f; cbn [face_sum nbrs]; [reflexivity|].
  destruct (face_weights cot t) as [[a b] c].
  rewrite !nsum_app, <- IH. unfold face_term. rewrite !edge_term_nbrs. ring.
Qed.

(* with uniform weights every item weighs 1/2 (an interior edge has two adjacent faces: total weight 1) *)
Lemma nbrs_uniform fs : forall t k j w, In (j, w) (nbrs t fs None k) -> w = (1 # 2).
Proof.
  induction fs as [|[[p q] r] rest IH]; intros t k j w H; cbn [nbrs] in H; [contradiction|].
  apply in_app_or in H. destruct H as [H|H]; [|eapply IH; eauto].
  cbn [face_weights] in H. unfold lap_uniform_abc in H. unfold edge_nbrs in H.
  repeat (apply in_app_or in H; destruct H as [H|H]);
  repeat match goal with
         | H : In _ (if ?b then _ else _) |- _ => destruct b
         | H : In _ [] |- _ => contradiction
         | H : In _ [_] |- _ => destruct H as [H|[]]; inversion H; reflexivity
         end.
Qed.
