(* C10 property theorems only: each closed by `exact <lemma>` with Print Assumptions beneath.
   Vocabulary: Model.v (bfs, traverse, forest, kruskal, adm, adm_nbrs), Proofs_BFS.v (reach_in),
   Proofs_Refine.v (wf_raw, bfs_tree_spec, children_of), Proofs_Forest.v (conn, sym_nb, tree_tables,
   traversal_ok, count_seen), Proofs_Check.v (bfs_parent_ok), Proofs_Conn.v (econn, eds, idforest),
   Proofs_Orient.v (adj), Proofs_KModel.v (kin_ok, kruskal_spec), Run.v (the checkers, sumz). *)
From Coq Require Import List Arith Bool ZArith.
Import ListNotations.
Require Import MV.C10.Prelude MV.C10.Gen MV.C10.Model MV.C10.Run MV.C10.Proofs_BFS MV.C10.Proofs_Refine
        MV.C10.Proofs_Trav MV.C10.Proofs_Forest MV.C10.Proofs_Check MV.C10.Proofs_Conn MV.C10.Proofs_Kruskal
        MV.C10.Proofs_Orient MV.C10.Proofs_KModel MV.C10.Proofs MV.C10.Proofs_More.

(* --- tie to the generated source: the decision taken by put_neighbours_in_queue for one neighbour slot
       (generated l_slot / avoid_edge) is "admissible and not yet seen"; admissible means: not in the
       exclusion set, and not on the border when avoid_boundary is set on a non-polyline mesh. (full) *)
Theorem C10_admissibility : forall c seen a,
  push_target c seen a =
  match a_tgt a with
  | Some t => if adm c a && negb (getb seen t) then Some t else None
  | None => None
  end.
Proof. exact push_target_spec. Qed.
Print Assumptions C10_admissibility.

Theorem C10_admissible_edge : forall c a, c_kind c = KEdge ->
  (adm c a = true <-> (c_has_avoid c = true -> a_forb a = false) /\
                      (c_avoid_bound c = true -> c_polyline c = false -> a_bord a = false)).
Proof. exact adm_edge_spec. Qed.
Print Assumptions C10_admissible_edge.

Theorem C10_admissible_face_cell : forall c a, c_kind c <> KEdge -> (adm c a = true <-> a_forb a = false).
Proof. exact adm_other_spec. Qed.
Print Assumptions C10_admissible_face_cell.

Theorem C10_admissible_neighbours_unfolded : forall c g v t,
  In t (adm_nbrs c g v) <-> exists a, In a (getl g v) /\ a_tgt a = Some t /\ adm c a = true.
Proof. exact adm_nbrs_spec. Qed.
Print Assumptions C10_admissible_neighbours_unfolded.

(* --- C10_bfs_tree (full): for every mesh (neighbour slots g with targets in range), configuration and root,
       the BFS of edge_sp/face_sp/cell_sp ends within its fuel; reached = reachable from the root in the admissible
       graph; depth = hop distance (attained and minimal); parent/children mutually inverse; tree edges are
       admissible adjacencies going one level down; |edges| + 1 = |reached|. See bfs_tree_spec. *)
Theorem C10_bfs_tree : forall c g root t, wf_raw g -> bfs c g root = Some t -> bfs_tree_spec c g root t.
Proof. exact bfs_correct. Qed.
Print Assumptions C10_bfs_tree.

Theorem C10_bfs_defined_iff_root_is_element : forall c g root,
  (root < length g -> exists t, bfs c g root = Some t) /\ (length g <= root -> bfs c g root = None).
Proof. exact bfs_defined. Qed.
Print Assumptions C10_bfs_defined_iff_root_is_element.

(* acyclic, explicitly: no element is its own proper ancestor; every reached element climbs to the root *)
Theorem C10_bfs_acyclic : forall c g root t, bfs_tree_spec c g root t ->
  (forall k v, climb (t_parent t) k v = Some v -> k = 0) /\
  (forall v, getb (t_seen t) v = true -> climb (t_parent t) (depth_of t v) v = Some root).
Proof. exact bfs_acyclic. Qed.
Print Assumptions C10_bfs_acyclic.

(* --- C10_traverse (full): both orders, on any tables of a rooted tree: ends within the fuel, each element of
       the tree exactly once, reported parent = table, parents before children *)
Theorem C10_traverse : forall n root inT par ch dep,
  tree_tables n root inT par ch dep ->
  forall order_is_BFS, exists out, traverse order_is_BFS root ch = (out, true) /\ traversal_ok inT par out.
Proof. exact traverse_correct. Qed.
Print Assumptions C10_traverse.

Theorem C10_traverse_bfs_tree : forall c g root t, wf_raw g -> bfs c g root = Some t ->
  forall order_is_BFS, exists out,
    traverse order_is_BFS (t_root t) (t_children t) = (out, true) /\
    traversal_ok (fun v => getb (t_seen t) v = true) (t_parent t) out.
Proof. exact traverse_bfs_tree. Qed.
Print Assumptions C10_traverse_bfs_tree.

(* --- soundness of the checkers through which the correspondence accepts the implementation's answer *)
Theorem C10_checkers_sound : forall c g root t par ch, wf_raw g -> bfs c g root = Some t ->
  is_bfs_tree (length g) (adm_nbrs c g) root (t_seen t) (t_dist t) par = true ->
  is_tree_table (length g) par ch = true ->
  bfs_parent_ok c g root t par /\
  forall order_is_BFS, exists out,
    traverse order_is_BFS root ch = (out, true) /\ traversal_ok (fun v => getb (t_seen t) v = true) par out.
Proof. exact traverse_checked. Qed.
Print Assumptions C10_checkers_sound.

Theorem C10_edge_checker_sound : forall n par es, is_edge_list n par es = true ->
  NoDup es /\ length es = length (expected_edges n par) /\ forall e, In e es <-> In e (expected_edges n par).
Proof. exact is_edge_list_sound. Qed.
Print Assumptions C10_edge_checker_sound.

(* --- C10_forest (full): on a symmetric admissible adjacency, every tree of the forest is the BFS tree of its
       root (reached set = component of the root), every element lies in exactly one tree, the roots are distinct
       and each is the least element of its component (so: exactly one tree per component) *)
Theorem C10_forest : forall k polyline g,
  wf_raw g ->
  let c := forest_cfg k polyline in
  let g' := forest_graph k g in
  sym_nb (adm_nbrs c g') ->
  let f := forest k polyline g in
  (forall t, In t f -> bfs_tree_spec c g' (t_root t) t) /\
  (forall v, v < length g' -> count_seen v f = 1) /\
  NoDup (forest_roots f) /\
  (forall t w, In t f -> conn (adm_nbrs c g') (t_root t) w -> t_root t <= w).
Proof. exact forest_correct. Qed.
Print Assumptions C10_forest.

(* --- every decision the translator reads off the source has the meaning the model relies on (full):
       a changed operator / pop side / forwarded argument in the source changes Gen.v and breaks this proof *)
Theorem C10_generated_decisions :
  (forall k, let ops := ops_of k in
     l_popleft ops = true /\ (forall s, l_skip ops s = s) /\
     (forall dv dnv, l_better ops dv dnv = onat_lt (onat_add dv 1) dnv) /\
     (forall dv, l_newdist ops dv = onat_add dv 1) /\ l_root_dist ops = 0 /\
     (forall pn, l_child ops false pn = negb pn) /\ l_child ops true true = false) /\
  (trav_popleft (trav_is_bfs true) = true /\ trav_popleft (trav_is_bfs false) = false) /\
  (kr_sort_reverse = false /\ (forall b, kr_take b = negb b) /\
   (forall m1 m2 l c, kr_weight m1 m2 l c = if m1 then 1%Z else if m2 then l else c) /\
   (forall ab ip, kr_all_edges ab ip = negb ab || ip) /\ (forall b, kr_keep b = negb b) /\
   (forall b, kr_child_keep b = negb b)) /\
  ((forall b, forest_new_root b = negb b) /\ forest_forwards_exclusions KFace = true /\
   (forall k p, forest_cfg k p = mkCfg k false false p)) /\
  ((forall k r n, root_ok k r n = (Z.leb 0 r && Z.ltb r n)) /\
   (forall k, tree_resets k = true) /\ kr_resets = true /\ (forall k, forest_resets k = true)) /\
  (ctor_defaults_immutable = true /\ exclusion_defaults_are_none = true /\
   forall k p, default_cfg k p = Some (mkCfg k false false p)) /\
  (call_runs_compute = true /\ forall (old new : option tree), call_again old new = new).
Proof. exact generated_decisions. Qed.
Print Assumptions C10_generated_decisions.

(* --- Kruskal: which edges are candidates (admissible) *)
Theorem C10_kruskal_candidates : forall i e,
  In e (kr_candidates i) <->
  e < length (ki_edges i) /\ (ki_avoid_bound i = true -> ki_polyline i = false -> getb (ki_bord i) e = false).
Proof. exact kr_candidates_spec. Qed.
Print Assumptions C10_kruskal_candidates.

(* --- C10_kruskal (full): the edge list is a spanning forest of the admissible edges (members are candidates,
       built by bridging additions = acyclic, connects exactly what the candidates connect, in every component);
       C10_kruskal_minimal (full, inside kruskal_spec.ks_min): its weight is minimal among all spanning forests of
       the candidates, for arbitrary integer weights (ties and negatives included);
       parent/children orient exactly the root's component (tree_tables on econn-from-root, nothing outside,
       every parent edge is a forest edge, every forest edge of the component is a parent edge);
       the orientation pass ends within its fuel. *)
Theorem C10_kruskal : forall i kt, kin_ok i -> kruskal i = Some kt -> kruskal_spec i kt.
Proof. exact kruskal_correct. Qed.
Print Assumptions C10_kruskal.

Theorem C10_kruskal_minimal : forall i kt, kin_ok i -> kruskal i = Some kt ->
  forall F, idforest (edge_at (ki_edges i)) F -> incl F (kr_candidates i) ->
            (forall u v, econn (eds (edge_at (ki_edges i)) (kr_candidates i)) u v ->
                         econn (eds (edge_at (ki_edges i)) F) u v) ->
            (sumz (kr_key i) (kt_ids kt) <= sumz (kr_key i) F)%Z.
Proof. exact kruskal_minimal_model. Qed.
Print Assumptions C10_kruskal_minimal.

Theorem C10_kruskal_defined_iff_root_is_vertex : forall i,
  (ki_root i < ki_n i -> exists kt, kruskal i = Some kt) /\ (ki_n i <= ki_root i -> kruskal i = None).
Proof. exact kruskal_defined. Qed.
Print Assumptions C10_kruskal_defined_iff_root_is_vertex.

(* acyclicity in its order-free form: in a forest (built by bridging additions) every edge is a bridge, and
   conversely a list in which every edge is a bridge is such a forest *)
Theorem C10_forest_iff_every_edge_is_a_bridge : forall (ed : nat -> nat * nat) T,
  idforest ed T <->
  (forall l1 e l2, T = l1 ++ e :: l2 -> ~ econn (eds ed (l1 ++ l2)) (fst (ed e)) (snd (ed e))).
Proof. exact forest_iff_bridges. Qed.
Print Assumptions C10_forest_iff_every_edge_is_a_bridge.

(* --- soundness of the Kruskal checker: an edge list accepted by is_spanning_forest whose weight equals the
       model's is itself a minimum spanning forest of the admissible edges *)
Theorem C10_kruskal_checker_sound : forall i kt tl ids,
  kin_ok i -> kruskal i = Some kt ->
  is_spanning_forest (ki_n i) (ki_edges i) (kr_candidates i) tl = true ->
  ids_of (ki_edges i) (kr_candidates i) tl = Some ids ->
  sumz (kr_key i) ids = sumz (kr_key i) (kt_ids kt) ->
  idforest (edge_at (ki_edges i)) ids /\ incl ids (kr_candidates i) /\
  (forall u v, econn (eds (edge_at (ki_edges i)) (kr_candidates i)) u v <-> econn (eds (edge_at (ki_edges i)) ids) u v) /\
  forall F, idforest (edge_at (ki_edges i)) F -> incl F (kr_candidates i) ->
            (forall u v, econn (eds (edge_at (ki_edges i)) (kr_candidates i)) u v -> econn (eds (edge_at (ki_edges i)) F) u v) ->
            (sumz (kr_key i) ids <= sumz (kr_key i) F)%Z.
Proof. exact checked_kruskal_minimal. Qed.
Print Assumptions C10_kruskal_checker_sound.

(* the parent/children tables the checker recomputes from an accepted edge list (and compares with the
   implementation's) orient exactly the root's component of that edge list *)
Theorem C10_kruskal_orientation_checker_sound : forall es n cand tl ids root,
  ids_in (edge_at es) n cand -> root < n ->
  is_spanning_forest n es cand tl = true -> ids_of es cand tl = Some ids ->
  exists par ch dep,
    orient n (nb_of n tl) root = (par, ch, true) /\
    let L := eds (edge_at es) ids in
    let inT := fun v => econn L root v in
    tree_tables n root inT par ch dep /\
    (forall v, ~ inT v -> geto par v = None /\ getl ch v = []) /\
    (forall v p, geto par v = Some p -> inT v /\ adj L p v) /\
    (forall u w, inT u -> adj L u w -> geto par w = Some u \/ geto par u = Some w).
Proof. exact orient_checked. Qed.
Print Assumptions C10_kruskal_orientation_checker_sound.

(* --- all roots (full): the starting element is a Python integer; exactly 0..n-1 are accepted - a negative
       index is refused, not wrapped around - and then the tree is the one of C10_bfs_tree / C10_kruskal *)
Theorem C10_all_roots : forall c g r,
  ((0 <= r < Z.of_nat (length g))%Z -> bfs_z c g r = bfs c g (Z.to_nat r) /\ exists t, bfs_z c g r = Some t) /\
  (~ (0 <= r < Z.of_nat (length g))%Z -> bfs_z c g r = None).
Proof. exact bfs_z_spec. Qed.
Print Assumptions C10_all_roots.

Theorem C10_kruskal_all_roots : forall i r,
  ((0 <= r < Z.of_nat (ki_n i))%Z -> exists kt, kruskal_z i r = Some kt) /\
  (~ (0 <= r < Z.of_nat (ki_n i))%Z -> kruskal_z i r = None).
Proof. exact kruskal_z_spec. Qed.
Print Assumptions C10_kruskal_all_roots.

(* --- compute() / __call__ called again (full): the tables are those of one computation, for trees, forests
       and the minimal spanning tree (the generated reset flags are what makes `recompute` the identity) *)
Theorem C10_recompute_idempotent :
  (forall c g r calls, bfs_calls c g r calls = bfs_z c g r) /\
  (forall k p g calls, forest_calls k p g calls = forest k p g) /\
  (forall i r calls, kruskal_calls i r calls = kruskal_z i r).
Proof. exact recompute_idem. Qed.
Print Assumptions C10_recompute_idempotent.

(* --- the symmetry hypothesis of C10_forest is evaluated on every observed forest case *)
Theorem C10_symmetry_checker_sound : forall c g, symb (length g) (adm_nbrs c g) = true -> sym_nb (adm_nbrs c g).
Proof. exact symb_sound. Qed.
Print Assumptions C10_symmetry_checker_sound.

(* --- forest.traverse (full): every element of the mesh exactly once, both orders *)
Theorem C10_forest_traverse : forall k polyline g order_is_BFS,
  wf_raw g ->
  let c := forest_cfg k polyline in
  let g' := forest_graph k g in
  sym_nb (adm_nbrs c g') ->
  let out := forest_traverse order_is_BFS (forest k polyline g) in
  NoDup (map fst out) /\ (forall v, In v (map fst out) <-> v < length g').
Proof. exact forest_traverse_correct. Qed.
Print Assumptions C10_forest_traverse.

(* --- traverse on the oriented minimal spanning tree (full), whatever the order of each children list
       (they come from Python sets): exactly the root's component, each once, parents first *)
Theorem C10_kruskal_traverse : forall i kt ch, kruskal_spec i kt -> length ch = ki_n i ->
  (forall v, v < ki_n i -> same_set (getl (kt_children kt) v) (getl ch v) = true) ->
  forall order_is_BFS, exists out,
    traverse order_is_BFS (ki_root i) ch = (out, true) /\
    traversal_ok (fun v => econn (eds (edge_at (ki_edges i)) (kt_ids kt)) (ki_root i) v) (kt_parent kt) out.
Proof. exact kruskal_traverse. Qed.
Print Assumptions C10_kruskal_traverse.

(* --- tables of a rooted tree stay tables of that tree when each children list is reordered (accepted by
       same_set): closes the gap between the orientation the checker recomputes and the implementation's
       children lists, which come from Python sets *)
Theorem C10_tables_up_to_children_order : forall n root inT par ch ch' dep,
  tree_tables n root inT par ch dep -> length ch' = n ->
  (forall v, v < n -> same_set (getl ch v) (getl ch' v) = true) ->
  tree_tables n root inT par ch' dep.
Proof. exact tree_tables_perm. Qed.
Print Assumptions C10_tables_up_to_children_order.

(* --- round 7.  "exactly one tree per connected component": on a symmetric admissible adjacency (where
       connectivity is an equivalence, C10_connectivity_is_an_equivalence) every element is connected to exactly
       one root of the forest, and a forest of k trees on n elements has n - k edges (full) *)
Theorem C10_connectivity_is_an_equivalence : forall nb, sym_nb nb ->
  (forall u, conn nb u u) /\ (forall u v, conn nb u v -> conn nb v u) /\
  (forall u v w, conn nb u v -> conn nb v w -> conn nb u w).
Proof. exact conn_equivalence. Qed.
Print Assumptions C10_connectivity_is_an_equivalence.

Theorem C10_forest_one_tree_per_component : forall k polyline g,
  wf_raw g ->
  let c := forest_cfg k polyline in
  let g' := forest_graph k g in
  sym_nb (adm_nbrs c g') ->
  let f := forest k polyline g in
  (forall v, v < length g' ->
     exists r, In r (forest_roots f) /\ conn (adm_nbrs c g') r v /\
               forall r', In r' (forest_roots f) -> conn (adm_nbrs c g') r' v -> r' = r) /\
  length (forest_edges f) + length f = length g'.
Proof. exact forest_components. Qed.
Print Assumptions C10_forest_one_tree_per_component.

(* --- traverse("BFS") is breadth-first (full): on any tables of a rooted tree the depths along the output never
       decrease; on the BFS tree these depths are the hop distances to the root *)
Theorem C10_traverse_bfs_level_by_level : forall n root inT par ch dep,
  tree_tables n root inT par ch dep ->
  forall out fin, traverse true root ch = (out, fin) -> nondecr (map (fun e => dep (fst e)) out).
Proof. exact traverse_bfs_level_order. Qed.
Print Assumptions C10_traverse_bfs_level_by_level.

Theorem C10_traverse_bfs_by_hop_distance : forall c g root t, wf_raw g -> bfs c g root = Some t ->
  forall out fin, traverse true (t_root t) (t_children t) = (out, fin) ->
  nondecr (map (fun e => depth_of t (fst e)) out).
Proof. exact bfs_traverse_by_distance. Qed.
Print Assumptions C10_traverse_bfs_by_hop_distance.
