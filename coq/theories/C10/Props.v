(* C10 property theorems only: each closed by `exact <lemma>` with Print Assumptions beneath. *)
From Coq Require Import List Arith Bool ZArith.
Require Import MV.C10.Prelude MV.C10.Gen MV.C10.Model MV.C10.Run MV.C10.Proofs.

Theorem C10_avoid_edge_spec : forall ha ia ab ip ob,
  avoid_edge ha ia ab ip ob = (ha && ia) || (ab && negb ip && ob).
Proof. exact avoid_edge_spec. Qed.
Print Assumptions C10_avoid_edge_spec.
