(* C10 - boolean checkers: (a) the Gallina checkers `is_bfs_tree`, `is_tree_table`, `is_spanning_forest`
   that accept any answer within the freedom the property leaves (proved sound in Proofs_Check.v), and
   (b) the case checkers evaluated by the correspondence batches. No proofs here. *)
From Coq Require Import List Arith Bool ZArith.
Import ListNotations.
Require Import MV.C10.Prelude MV.C10.Gen MV.C10.Model.

Definition memn (x : nat) (l : list nat) : bool := existsb (Nat.eqb x) l.
Fixpoint nodupb (l : list nat) : bool :=
  match l with [] => true | x :: t => negb (memn x t) && nodupb t end.
Definition oeqb (a b : option nat) : bool :=
  match a, b with
  | Some x, Some y => Nat.eqb x y
  | None, None => true
  | _, _ => false
  end.
Definition paireqb (a b : nat * nat) : bool := Nat.eqb (fst a) (fst b) && Nat.eqb (snd a) (snd b).
Definition memp (x : nat * nat) (l : list (nat * nat)) : bool := existsb (paireqb x) l.
Fixpoint nodupp (l : list (nat * nat)) : bool :=
  match l with [] => true | x :: t => negb (memp x t) && nodupp t end.
Definition entry_eqb (a b : nat * option nat) : bool := Nat.eqb (fst a) (fst b) && oeqb (snd a) (snd b).
Fixpoint leqb {A} (eqb : A -> A -> bool) (a b : list A) : bool :=
  match a, b with
  | [], [] => true
  | x :: s, y :: t => eqb x y && leqb eqb s t
  | _, _ => false
  end.

(* ---------------------------------------------------------------- checker: a BFS tree of the admissible graph
   nb    : admissible neighbours
   seen  : the set that must be spanned, dist : its hop distances (both taken from the model, for which
           Proofs_BFS shows seen = reachable set and dist = hop distance)
   par   : the candidate parent table *)
Definition is_bfs_tree (n : nat) (nb : nat -> list nat) (root : nat) (seen : list bool) (dist : list (option nat))
           (par : list (option nat)) : bool :=
  Nat.eqb (length par) n &&
  forallb (fun v =>
             match geto par v with
             | None => negb (getb seen v) || Nat.eqb v root
             | Some p => getb seen v && negb (Nat.eqb v root) && Nat.ltb p n && getb seen p && memn v (nb p)
                         && oeqb (onat_add (geto dist p) 1) (geto dist v)
             end) (seq 0 n).

(* children is the inverse table of parent (each list in any order, no repetition) *)
Definition is_tree_table (n : nat) (par : list (option nat)) (ch : list (list nat)) : bool :=
  Nat.eqb (length ch) n &&
  forallb (fun p => nodupb (getl ch p) &&
                    forallb (fun v => Nat.ltb v n) (getl ch p) &&
                    forallb (fun v => Bool.eqb (memn v (getl ch p)) (oeqb (geto par v) (Some p))) (seq 0 n))
          (seq 0 n).

(* the edge list is exactly { keyify(parent v, v) }, each once, in any order *)
Definition expected_edges (n : nat) (par : list (option nat)) : list (nat * nat) :=
  flat_map (fun v => match geto par v with Some p => [keyify2 p v] | None => [] end) (seq 0 n).
Definition is_edge_list (n : nat) (par : list (option nat)) (es : list (nat * nat)) : bool :=
  let ex := expected_edges n par in
  Nat.eqb (length es) (length ex) && nodupp es && forallb (fun e => memp e ex) es.

(* the traversal output: every element of the tree exactly once, parents first, reported parent = table *)
Fixpoint parents_first (seen_so_far : list nat) (out : list (nat * option nat)) : bool :=
  match out with
  | [] => true
  | (v, p) :: t => match p with None => true | Some q => memn q seen_so_far end && parents_first (v :: seen_so_far) t
  end.
Definition is_traversal (n : nat) (root : nat) (seen : list bool) (par : list (option nat))
           (out : list (nat * option nat)) : bool :=
  nodupb (map fst out) &&
  forallb (fun v => Bool.eqb (getb seen v) (memn v (map fst out))) (seq 0 n) &&
  forallb (fun e => Nat.ltb (fst e) n && oeqb (snd e) (geto par (fst e))) out &&
  parents_first [] out.

Record tobs := mkTO {
  o_parent : list (option nat);
  o_children : list (list nat);
  o_edges : list (nat * nat);
  o_bfs : list (nat * option nat);
  o_dfs : list (nat * option nat)
}.

(* the implementation's tree object `o` against the model's tree `t` of the same root *)
Definition check_obs (c : cfg) (g : raw) (t : tree) (o : tobs) : bool :=
  let n := length g in
  let root := t_root t in
  t_done t &&
  is_bfs_tree n (adm_nbrs c g) root (t_seen t) (t_dist t) (o_parent o) &&
  is_tree_table n (o_parent o) (o_children o) &&
  is_edge_list n (o_parent o) (o_edges o) &&
  (* the model's own answer passes the same checkers *)
  is_bfs_tree n (adm_nbrs c g) root (t_seen t) (t_dist t) (t_parent t) &&
  is_tree_table n (t_parent t) (t_children t) &&
  is_edge_list n (t_parent t) (t_edges t) &&
  (* traverse() is deterministic given the children table: exact agreement on the implementation's table *)
  (let '(out, fin) := traverse true root (o_children o) in fin && leqb entry_eqb out (o_bfs o)) &&
  (let '(out, fin) := traverse false root (o_children o) in fin && leqb entry_eqb out (o_dfs o)) &&
  is_traversal n root (t_seen t) (o_parent o) (o_bfs o) &&
  is_traversal n root (t_seen t) (o_parent o) (o_dfs o).

(* the admissible adjacency the implementation sees is symmetric (hypothesis of the forest theorem) *)
Definition symb (n : nat) (nb : nat -> list nat) : bool :=
  forallb (fun u => forallb (fun v => Nat.ltb v n && memn u (nb v)) (nb u)) (seq 0 n).

(* tc_root: the Python integer given as starting element; tc_calls: how many times compute() was called *)
Record tcase := mkTC { tc_cfg : cfg; tc_raw : raw; tc_root : Z; tc_calls : nat; tc_err : bool; tc_obs : tobs }.

Definition check_tree (k : tcase) : bool :=
  match bfs_calls (tc_cfg k) (tc_raw k) (tc_root k) (tc_calls k) with
  | None => tc_err k
  | Some t => negb (tc_err k) && check_obs (tc_cfg k) (tc_raw k) t (tc_obs k)
  end.

(* ---------------------------------------------------------------- forests *)
Record fcase := mkFC {
  fc_kind : kind; fc_polyline : bool; fc_raw : raw; fc_calls : nat;
  fc_roots : list nat;
  fc_trees : list tobs;
  fc_edges : list (nat * nat);
  fc_bfs : list (nat * option nat);
  fc_dfs : list (nat * option nat)
}.

Fixpoint check_trees (c : cfg) (g : raw) (ts : list tree) (os : list tobs) : bool :=
  match ts, os with
  | [], [] => true
  | t :: ts', o :: os' => check_obs c g t o && check_trees c g ts' os'
  | _, _ => false
  end.

Definition count_in (v : nat) (ts : list tobs) : nat :=
  length (filter (fun o => memn v (map fst (o_bfs o))) ts).

Definition check_forest (k : fcase) : bool :=
  let g := forest_graph (fc_kind k) (fc_raw k) in
  let c := forest_cfg (fc_kind k) (fc_polyline k) in
  let f := forest_calls (fc_kind k) (fc_polyline k) (fc_raw k) (fc_calls k) in
  symb (length g) (adm_nbrs c g) &&
  leqb Nat.eqb (forest_roots f) (fc_roots k) &&
  check_trees c g f (fc_trees k) &&
  leqb paireqb (flat_map o_edges (fc_trees k)) (fc_edges k) &&
  leqb entry_eqb (flat_map o_bfs (fc_trees k)) (fc_bfs k) &&
  leqb entry_eqb (flat_map o_dfs (fc_trees k)) (fc_dfs k) &&
  (* every element lies in exactly one tree *)
  forallb (fun v => Nat.eqb (count_in v (fc_trees k)) 1) (seq 0 (length g)).

(* ---------------------------------------------------------------- Kruskal *)
Fixpoint find_id (es : list (nat * nat)) (cand : list nat) (e : nat * nat) : option nat :=
  match cand with
  | [] => None
  | i :: t => let '(a, b) := edge_at es i in
              if paireqb (keyify2 a b) e then Some i else find_id es t e
  end.

Fixpoint ids_of (es : list (nat * nat)) (cand : list nat) (l : list (nat * nat)) : option (list nat) :=
  match l with
  | [] => Some []
  | e :: t => match find_id es cand e, ids_of es cand t with
              | Some i, Some r => Some (i :: r)
              | _, _ => None
              end
  end.

(* acyclic: every edge joins two different classes of the previous ones; returns the final labelling *)
Fixpoint forest_run (lab : list nat) (l : list (nat * nat)) : option (list nat) :=
  match l with
  | [] => Some lab
  | (a, b) :: t => if uf_connected lab a b then None else forest_run (uf_union lab a b) t
  end.

Definition sumz (key : nat -> Z) (ids : list nat) : Z := fold_right (fun e acc => (key e + acc)%Z) 0%Z ids.

(* `tl` (keyified pairs) is a spanning forest of the candidate edges `cand` of the mesh edge table `es`:
   its members are candidate edges, each at most once, no cycle, and every candidate edge joins two vertices
   already connected by `tl` *)
Definition is_spanning_forest (n : nat) (es : list (nat * nat)) (cand : list nat) (tl : list (nat * nat)) : bool :=
  match ids_of es cand tl with
  | None => false
  | Some ids =>
      nodupb ids &&
      forallb (fun e => Nat.ltb (fst e) n && Nat.ltb (snd e) n) tl &&
      match forest_run (uf_init n) tl with
      | None => false
      | Some lab => forallb (fun i => let '(a, b) := edge_at es i in uf_connected lab a b) cand
      end
  end.

Definition nb_of (n : nat) (l : list (nat * nat)) : list (list nat) :=
  fold_left (fun nb e => add_nb (add_nb nb (fst e) (snd e)) (snd e) (fst e)) l (repeat [] n).

Definition same_set (a b : list nat) : bool :=
  Nat.eqb (length a) (length b) && nodupb a && nodupb b && forallb (fun x => memn x b) a.

(* kc_root: the Python integer given as starting vertex (ki_root of kc_in is ignored); kc_calls: calls of compute() *)
Record kcase := mkKC { kc_in : kinput; kc_root : Z; kc_calls : nat; kc_err : bool; kc_obs : tobs }.

Definition check_kruskal (k : kcase) : bool :=
  let i := kc_in k in
  let o := kc_obs k in
  let root := Z.to_nat (kc_root k) in
  match kruskal_calls i (kc_root k) (kc_calls k) with
  | None => kc_err k
  | Some t =>
      negb (kc_err k) && kt_done t &&
      let cand := kr_candidates i in
      let n := ki_n i in
      is_spanning_forest n (ki_edges i) cand (o_edges o) &&
      is_spanning_forest n (ki_edges i) cand (kt_edges t) &&
      match ids_of (ki_edges i) cand (o_edges o) with
      | Some ids => Z.eqb (sumz (kr_key i) ids) (sumz (kr_key i) (kt_ids t))
      | None => false
      end &&
      (* orientation: determined by the edge list (children lists up to order) *)
      (let '(par, ch, fin) := orient n (nb_of n (o_edges o)) root in
       fin && leqb oeqb par (o_parent o) && Nat.eqb (length ch) (length (o_children o)) &&
       forallb (fun v => same_set (getl ch v) (getl (o_children o) v)) (seq 0 n)) &&
      (let '(out, fin) := traverse true root (o_children o) in fin && leqb entry_eqb out (o_bfs o)) &&
      (let '(out, fin) := traverse false root (o_children o) in fin && leqb entry_eqb out (o_dfs o))
  end.
