(* C10 - the breadth-first search with a queue of (parent, child) pairs and the seen test at pop time,
   over an arbitrary adjacency function `nb`: invariants, termination within the fuel, reached set =
   reachable set, depth = hop distance, parent structure. *)
From Coq Require Import List Arith Bool Lia PeanoNat.
Import ListNotations.
Require Import MV.C10.Prelude MV.C10.Model MV.C10.Proofs_Util.

(* k-step reachability along nb *)
Inductive reach_in (nb : nat -> list nat) (u : nat) : nat -> nat -> Prop :=
| R0 : reach_in nb u 0 u
| RS : forall k v w, reach_in nb u k v -> In w (nb v) -> reach_in nb u (S k) w.

Fixpoint sorted_k (k : nat * nat -> nat) (q : list (nat * nat)) : Prop :=
  match q with
  | [] => True
  | e :: t => (forall e', In e' t -> k e <= k e') /\ sorted_k k t
  end.

Lemma sorted_k_app k q l :
  sorted_k k (q ++ l) <-> sorted_k k q /\ sorted_k k l /\ (forall a b, In a q -> In b l -> k a <= k b).
Proof.
  induction q as [|e t IH]; simpl.
  - split; [intros H; repeat split; auto; intros ? ? [] | tauto].
  - rewrite IH. split.
    + intros [H1 (H2 & H3 & H4)]. repeat split; auto.
      * intros e' He'. apply H1. apply in_or_app; auto.
      * intros a b [<-|Ha] Hb; [apply H1; apply in_or_app; auto | auto].
    + intros [[H1 H2] (H3 & H4)]. repeat split; auto.
      intros e' He'. apply in_app_or in He' as [?|?]; auto.
Qed.

Lemma sorted_k_ext k k' q : (forall e, In e q -> k e = k' e) -> sorted_k k q -> sorted_k k' q.
Proof.
  induction q as [|e t IH]; simpl; auto. intros He [H1 H2]. split.
  - intros e' He'. rewrite <- (He e), <- (He e'); auto.
  - apply IH; auto.
Qed.

Lemma list_sum_map_update (f g : nat -> nat) l x :
  NoDup l -> In x l -> (forall y, y <> x -> g y = f y) ->
  list_sum (map g l) + f x = list_sum (map f l) + g x.
Proof.
  induction 1 as [|a l Hn Hd IH]; simpl; [tauto|]. intros [->|Hx] Hy.
  - assert (E : map g l = map f l).
    { apply map_ext_in. intros y Hyl. apply Hy. intros ->. contradiction. }
    rewrite E. lia.
  - rewrite (Hy a) by (intros ->; contradiction). specialize (IH Hx Hy). lia.
Qed.

Section GBFS.
Variable nb : nat -> list nat.
Variable n : nat.
Variable root : nat.
Hypothesis wf : forall v w, In w (nb v) -> w < n.
Hypothesis root_lt : root < n.

Definition gpush (seen : list bool) (v : nat) : list (nat * nat) :=
  map (fun t => (v, t)) (filter (fun t => negb (getb seen t)) (nb v)).

Definition gstep (s : st) : option st :=
  match s_q s with
  | [] => None
  | (v, nv) :: q' =>
      if getb (s_seen s) nv then Some (mkSt (s_seen s) (s_par s) (s_dist s) q')
      else
        let seen' := set_nth (s_seen s) nv true in
        let dv := geto (s_dist s) v in
        let upd := onat_lt (onat_add dv 1) (geto (s_dist s) nv) in
        Some (mkSt seen' (if upd then set_nth (s_par s) nv (Some v) else s_par s)
                   (if upd then set_nth (s_dist s) nv (onat_add dv 1) else s_dist s)
                   (q' ++ gpush seen' nv))
  end.

Fixpoint gloop (fuel : nat) (s : st) : st * bool :=
  match fuel with
  | 0 => (s, false)
  | S f => match gstep s with None => (s, true) | Some s' => gloop f s' end
  end.

Definition ginit : st :=
  mkSt (set_nth (repeat false n) root true) (repeat None n) (set_nth (repeat None n) root (Some 0))
       (gpush (repeat false n) root).

Definition dd (s : st) (x : nat) : nat := match geto (s_dist s) x with Some d => d | None => 0 end.

Lemma dd_some s x d : geto (s_dist s) x = Some d -> dd s x = d.
Proof. unfold dd. now intros ->. Qed.

Record Inv (s : st) : Prop := {
  i_lens : length (s_seen s) = n;
  i_lenp : length (s_par s) = n;
  i_lend : length (s_dist s) = n;
  i_root : getb (s_seen s) root = true /\ geto (s_dist s) root = Some 0 /\ geto (s_par s) root = None;
  i_seen : forall v, getb (s_seen s) v = true -> exists d, geto (s_dist s) v = Some d;
  i_unseen : forall v, getb (s_seen s) v = false -> geto (s_dist s) v = None /\ geto (s_par s) v = None;
  i_par : forall v p, geto (s_par s) v = Some p ->
                      getb (s_seen s) v = true /\ getb (s_seen s) p = true /\ In v (nb p) /\ dd s v = S (dd s p);
  i_nonroot : forall v, getb (s_seen s) v = true -> v <> root -> exists p, geto (s_par s) v = Some p;
  i_q : forall u w, In (u, w) (s_q s) -> getb (s_seen s) u = true /\ In w (nb u);
  i_sorted : sorted_k (fun e => dd s (fst e)) (s_q s);
  i_bound : forall x u w, getb (s_seen s) x = true -> In (u, w) (s_q s) -> dd s x <= S (dd s u);
  i_clos : forall u w, getb (s_seen s) u = true -> In w (nb u) ->
                       (getb (s_seen s) w = true /\ dd s w <= S (dd s u)) \/ In (u, w) (s_q s)
}.

Lemma in_gpush seen v u w : In (u, w) (gpush seen v) <-> u = v /\ In w (nb v) /\ getb seen w = false.
Proof.
  unfold gpush. rewrite in_map_iff. split.
  - intros [t [E Ht]]. inversion E; subst. apply filter_In in Ht as [H1 H2].
    repeat split; auto. now destruct (getb seen w).
  - intros (-> & H1 & H2). exists w. split; auto. apply filter_In. split; auto. now rewrite H2.
Qed.

Lemma Inv_init : Inv ginit.
Proof.
  assert (Hs : forall v, getb (s_seen ginit) v = Nat.eqb root v).
  { intros v. simpl. rewrite getb_set_true, getb_repeat_false, repeat_length.
    destruct (Nat.ltb_spec root n); [|lia]. now rewrite andb_true_r, orb_false_r. }
  assert (Hd : forall v, geto (s_dist ginit) v = if Nat.eqb root v then Some 0 else None).
  { intros v. simpl. rewrite geto_set_nth, geto_repeat_none, repeat_length.
    destruct (Nat.ltb_spec root n); [|lia]. reflexivity. }
  assert (Hp : forall v, geto (s_par ginit) v = None) by (intros; simpl; apply geto_repeat_none).
  constructor.
  - simpl. now rewrite set_nth_length, repeat_length.
  - simpl. now rewrite repeat_length.
  - simpl. now rewrite set_nth_length, repeat_length.
  - rewrite Hs, Hd, Hp, Nat.eqb_refl. auto.
  - intros v. rewrite Hs, Hd. intros ->. eauto.
  - intros v. rewrite Hs, Hd, Hp. intros ->. auto.
  - intros v p. rewrite Hp. discriminate.
  - intros v. rewrite Hs. intros E%Nat.eqb_eq. congruence.
  - intros u w Hin. simpl in Hin. apply in_gpush in Hin as (-> & H1 & _). rewrite Hs, Nat.eqb_refl. auto.
  - simpl. unfold gpush. induction (filter _ (nb root)) as [|a l IH]; simpl; auto. split; auto.
    intros e' He'. apply in_map_iff in He' as [t [<- _]]. simpl. lia.
  - intros x u w. rewrite Hs. intros E%Nat.eqb_eq _. subst x. unfold dd. rewrite Hd, Nat.eqb_refl. lia.
  - intros u w. rewrite Hs. intros E%Nat.eqb_eq Hw. subst u. right. simpl. apply in_gpush.
    repeat split; auto. apply getb_repeat_false.
Qed.

Lemma gstep_Inv s s' : Inv s -> gstep s = Some s' -> Inv s'.
Proof.
  intros I. unfold gstep. destruct (s_q s) as [|[v nv] q'] eqn:Eq; [discriminate|].
  assert (Hhead : In (v, nv) (s_q s)) by (rewrite Eq; simpl; auto).
  assert (Htail : forall e, In e q' -> In e (s_q s)) by (intros; rewrite Eq; simpl; auto).
  destruct (i_q s I v nv Hhead) as [Hv Hnv].
  pose proof (i_sorted s I) as Hsort. rewrite Eq in Hsort. simpl in Hsort. destruct Hsort as [Hhd Hsort].
  destruct (getb (s_seen s) nv) eqn:Env.
  - (* already seen: continue *)
    intros E; inversion E; subst s'; clear E.
    constructor; simpl; try apply I.
    + intros u w H. apply (i_q s I). auto.
    + exact Hsort.
    + intros x u w Hx H. apply (i_bound s I x u w); auto.
    + intros u w Hu Hw. destruct (i_clos s I u w Hu Hw) as [H|H]; auto.
      rewrite Eq in H. destruct H as [H|H]; auto.
      injection H as E1 E2; subst u w. left. split; auto. apply (i_bound s I nv v nv); auto.
  - (* a new element *)
    assert (Hlt : nv < n) by (eapply wf; eauto).
    destruct (i_seen s I v Hv) as [d Hd].
    destruct (i_unseen s I nv Env) as [Hdn Hpn].
    assert (Hvn : v <> nv) by (intros ->; congruence).
    rewrite Hd, Hdn. simpl.
    intros E; inversion E; subst s'; clear E.
    set (seen' := set_nth (s_seen s) nv true).
    set (s' := mkSt seen' (set_nth (s_par s) nv (Some v)) (set_nth (s_dist s) nv (Some (d + 1))) (q' ++ gpush seen' nv)).
    assert (Hseen' : forall x, getb seen' x = Nat.eqb nv x || getb (s_seen s) x).
    { intros x. unfold seen'. rewrite getb_set_true, (i_lens s I).
      destruct (Nat.ltb_spec nv n); [|lia]. now rewrite andb_true_r. }
    assert (Hdist' : forall x, geto (s_dist s') x = if Nat.eqb nv x then Some (d + 1) else geto (s_dist s) x).
    { intros x. simpl. rewrite geto_set_nth, (i_lend s I). destruct (Nat.ltb_spec nv n); [|lia]. reflexivity. }
    assert (Hpar' : forall x, geto (s_par s') x = if Nat.eqb nv x then Some v else geto (s_par s) x).
    { intros x. simpl. rewrite geto_set_nth, (i_lenp s I). destruct (Nat.ltb_spec nv n); [|lia]. reflexivity. }
    assert (Hdd' : forall x, x <> nv -> dd s' x = dd s x).
    { intros x Hx. unfold dd. rewrite Hdist'. destruct (Nat.eqb_spec nv x); [congruence|reflexivity]. }
    assert (Hddnv : dd s' nv = S (dd s v)).
    { unfold dd at 1. rewrite Hdist', Nat.eqb_refl. rewrite (dd_some s v d Hd). lia. }
    assert (Hold : forall x, getb (s_seen s) x = true -> x <> nv) by (intros x Hx ->; congruence).
    change (Inv s').
    constructor.
    + simpl. unfold seen'. rewrite set_nth_length. apply I.
    + simpl. rewrite set_nth_length. apply I.
    + simpl. rewrite set_nth_length. apply I.
    + destruct (i_root s I) as (R1 & R2 & R3). simpl s_seen. rewrite Hseen', Hdist', Hpar', R1, R2, R3.
      destruct (Nat.eqb_spec nv root) as [->|]; [congruence|]. rewrite orb_true_r. auto.
    + intros x. simpl s_seen. rewrite Hseen', Hdist'. destruct (Nat.eqb_spec nv x); simpl; eauto. apply I.
    + intros x. simpl s_seen. rewrite Hseen', Hdist', Hpar'. destruct (Nat.eqb_spec nv x); simpl; [discriminate|]. apply I.
    + intros x p. rewrite Hpar'. simpl s_seen. rewrite !Hseen'. destruct (Nat.eqb_spec nv x) as [<-|Hx].
      * intros E; inversion E; subst p. rewrite Hv, orb_true_r. simpl. repeat split; auto.
        rewrite Hddnv, Hdd'; auto.
      * intros Hp. destruct (i_par s I x p Hp) as (P1 & P2 & P3 & P4).
        rewrite P1, P2, !orb_true_r. repeat split; auto. rewrite !Hdd'; auto.
    + intros x. simpl s_seen. rewrite Hseen', Hpar'. destruct (Nat.eqb_spec nv x); simpl; eauto. apply I.
    + intros u w Hin. simpl in Hin. simpl s_seen. rewrite Hseen'. apply in_app_or in Hin as [Hin|Hin].
      * destruct (i_q s I u w (Htail _ Hin)) as [Q1 Q2]. rewrite Q1, orb_true_r. auto.
      * apply in_gpush in Hin as (-> & Q2 & _). rewrite Nat.eqb_refl. auto.
    + simpl s_q. apply sorted_k_app. repeat split.
      * eapply sorted_k_ext; [|exact Hsort]. intros [u w] He. simpl. symmetry. apply Hdd'.
        apply Hold. apply (i_q s I u w). auto.
      * unfold gpush. induction (filter _ (nb nv)) as [|a l IH]; simpl; auto. split; auto.
        intros e' He'. apply in_map_iff in He' as [t [<- _]]. simpl. lia.
      * intros [u w] [u2 w2] Ha Hb. apply in_gpush in Hb as (-> & _ & _). simpl.
        rewrite Hddnv, Hdd'.
        -- apply (i_bound s I u v nv); auto. apply (i_q s I u w). auto.
        -- apply Hold. apply (i_q s I u w). auto.
    + intros x u w. simpl s_seen. simpl s_q. rewrite Hseen'. intros Hx Hin.
      apply in_app_or in Hin as [Hin|Hin].
      * assert (Hu : getb (s_seen s) u = true) by (apply (i_q s I u w); auto).
        rewrite (Hdd' u) by auto.
        destruct (Nat.eqb_spec nv x) as [<-|Hne].
        -- rewrite Hddnv. specialize (Hhd (u, w) Hin). simpl in Hhd. lia.
        -- simpl in Hx. rewrite Hdd' by auto. apply (i_bound s I x u w); auto.
      * apply in_gpush in Hin as (-> & _ & _). rewrite Hddnv.
        destruct (Nat.eqb_spec nv x) as [<-|Hne].
        -- rewrite Hddnv. lia.
        -- simpl in Hx. rewrite Hdd' by auto. pose proof (i_bound s I x v nv Hx Hhead). lia.
    + intros u w. simpl s_seen. simpl s_q. rewrite !Hseen'. intros Hu Hw.
      destruct (Nat.eqb_spec nv u) as [<-|Hne].
      * destruct (Nat.eqb_spec nv w) as [<-|Hnw].
        -- left. simpl. split; auto.
        -- simpl. destruct (getb (s_seen s) w) eqn:Ew.
           ++ left. split; auto. rewrite Hddnv, Hdd' by auto.
              pose proof (i_bound s I w v nv Ew Hhead). lia.
           ++ right. apply in_or_app. right. apply in_gpush. repeat split; auto.
              rewrite Hseen'. destruct (Nat.eqb_spec nv w); [congruence|]. simpl. exact Ew.
      * simpl in Hu. destruct (i_clos s I u w Hu Hw) as [[C1 C2]|C].
        -- left. rewrite C1, orb_true_r. split; auto. rewrite !Hdd'; auto.
        -- rewrite Eq in C. destruct C as [C|C].
           ++ injection C as E1 E2; subst u w. left. rewrite Nat.eqb_refl. simpl. split; auto.
              rewrite Hddnv, Hdd'; auto.
           ++ right. apply in_or_app. auto.
Qed.

(* ------------------------------------------------------------ termination *)
Definition pend (seen : list bool) (v : nat) : nat := if getb seen v then 0 else length (nb v).
Definition pot (s : st) : nat := length (s_q s) + list_sum (map (pend (s_seen s)) (seq 0 n)).
Definition total : nat := list_sum (map (fun v => length (nb v)) (seq 0 n)).

Lemma gpush_length seen v : length (gpush seen v) <= length (nb v).
Proof. unfold gpush. rewrite map_length. apply filter_length_le. Qed.

Lemma gstep_pot s s' : Inv s -> gstep s = Some s' -> pot s' < pot s.
Proof.
  intros I. unfold gstep. destruct (s_q s) as [|[v nv] q'] eqn:Eq; [discriminate|].
  assert (Hhead : In (v, nv) (s_q s)) by (rewrite Eq; simpl; auto).
  destruct (i_q s I v nv Hhead) as [Hv Hnv].
  destruct (getb (s_seen s) nv) eqn:Env.
  - intros E; inversion E; subst. unfold pot. simpl. rewrite Eq. simpl. lia.
  - assert (Hlt : nv < n) by (eapply wf; eauto).
    intros E; inversion E; subst; clear E. unfold pot. simpl s_q. simpl s_seen. rewrite Eq.
    rewrite app_length. simpl length.
    pose proof (gpush_length (set_nth (s_seen s) nv true) nv) as Hg.
    pose proof (list_sum_map_update (pend (s_seen s)) (pend (set_nth (s_seen s) nv true)) (seq 0 n) nv
                                    (seq_NoDup n 0)) as Hu.
    assert (Hin : In nv (seq 0 n)) by (apply in_seq0; auto).
    specialize (Hu Hin).
    assert (Hy : forall y, y <> nv -> pend (set_nth (s_seen s) nv true) y = pend (s_seen s) y).
    { intros y Hy. unfold pend. rewrite getb_set_true. destruct (Nat.eqb_spec nv y); [congruence|]. reflexivity. }
    specialize (Hu Hy).
    assert (E1 : pend (s_seen s) nv = length (nb nv)) by (unfold pend; now rewrite Env).
    assert (E2 : pend (set_nth (s_seen s) nv true) nv = 0).
    { unfold pend. rewrite getb_set_true, Nat.eqb_refl, (i_lens s I).
      destruct (Nat.ltb_spec nv n); [reflexivity|lia]. }
    lia.
Qed.

Lemma gloop_terminates fuel s :
  Inv s -> pot s < fuel -> exists s', gloop fuel s = (s', true) /\ Inv s' /\ s_q s' = [].
Proof.
  revert s. induction fuel as [|f IH]; intros s I Hp; [lia|].
  simpl. destruct (gstep s) as [s1|] eqn:E.
  - apply IH.
    + eapply gstep_Inv; eauto.
    + pose proof (gstep_pot s s1 I E). lia.
  - exists s. split; [reflexivity|]. split; [exact I|]. revert E. unfold gstep. destruct (s_q s) as [|[v nv] q']; auto.
    destruct (getb (s_seen s) nv); discriminate.
Qed.

Lemma pot_init : pot ginit <= total.
Proof.
  unfold pot, total. simpl s_q. simpl s_seen.
  pose proof (gpush_length (repeat false n) root) as Hg.
  pose proof (list_sum_map_update (fun v => length (nb v)) (pend (set_nth (repeat false n) root true)) (seq 0 n) root
                                  (seq_NoDup n 0)) as Hu.
  assert (Hin : In root (seq 0 n)) by (apply in_seq0; auto).
  specialize (Hu Hin).
  assert (Hy : forall y, y <> root -> pend (set_nth (repeat false n) root true) y = length (nb y)).
  { intros y Hy. unfold pend. rewrite getb_set_true, getb_repeat_false.
    destruct (Nat.eqb_spec root y); [congruence|]. reflexivity. }
  specialize (Hu Hy).
  assert (E2 : pend (set_nth (repeat false n) root true) root = 0).
  { unfold pend. rewrite getb_set_true, Nat.eqb_refl, repeat_length.
    destruct (Nat.ltb_spec root n); [reflexivity|lia]. }
  lia.
Qed.

(* ------------------------------------------------------------ what a final state says *)
Section Final.
Variable s : st.
Hypothesis I : Inv s.
Hypothesis Hq : s_q s = [].

Lemma fin_closed u w : getb (s_seen s) u = true -> In w (nb u) -> getb (s_seen s) w = true /\ dd s w <= S (dd s u).
Proof.
  intros Hu Hw. destruct (i_clos s I u w Hu Hw) as [H|H]; auto. rewrite Hq in H. contradiction.
Qed.

Lemma fin_reach_seen k v : reach_in nb root k v -> getb (s_seen s) v = true /\ dd s v <= k.
Proof.
  induction 1 as [|k v w _ [IH1 IH2] Hw].
  - destruct (i_root s I) as (R1 & R2 & _). split; auto. rewrite (dd_some s root 0 R2). lia.
  - destruct (fin_closed v w IH1 Hw). split; auto. lia.
Qed.

Lemma seen_reach : forall d v, getb (s_seen s) v = true -> dd s v = d -> reach_in nb root d v.
Proof.
  induction d as [|d IH]; intros v Hv Hd.
  - destruct (Nat.eq_dec v root) as [->|Hne]; [constructor|].
    destruct (i_nonroot s I v Hv Hne) as [p Hp]. destruct (i_par s I v p Hp) as (_ & _ & _ & P4). lia.
  - destruct (Nat.eq_dec v root) as [->|Hne].
    + destruct (i_root s I) as (_ & R2 & _). rewrite (dd_some s root 0 R2) in Hd. lia.
    + destruct (i_nonroot s I v Hv Hne) as [p Hp]. destruct (i_par s I v p Hp) as (_ & P2 & P3 & P4).
      econstructor; [apply IH; [exact P2|lia] | exact P3].
Qed.

(* reached set = set reachable from the root *)
Theorem fin_seen_iff v : getb (s_seen s) v = true <-> exists k, reach_in nb root k v.
Proof.
  split.
  - intros Hv. exists (dd s v). now apply seen_reach.
  - intros [k Hk]. now apply fin_reach_seen in Hk.
Qed.

(* depth = hop distance: attained, and minimal *)
Theorem fin_depth v : getb (s_seen s) v = true ->
  geto (s_dist s) v = Some (dd s v) /\ reach_in nb root (dd s v) v /\ (forall k, reach_in nb root k v -> dd s v <= k).
Proof.
  intros Hv. repeat split.
  - destruct (i_seen s I v Hv) as [d Hd]. now rewrite (dd_some s v d Hd).
  - now apply seen_reach.
  - intros k Hk. now apply fin_reach_seen in Hk.
Qed.
End Final.

Theorem gbfs_run :
  exists s, gloop (S total) ginit = (s, true) /\ Inv s /\ s_q s = [].
Proof. apply gloop_terminates; [apply Inv_init | pose proof pot_init; lia]. Qed.

End GBFS.
