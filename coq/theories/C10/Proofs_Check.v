(* C10 - soundness of the Gallina checkers through which the correspondence accepts the implementation's
   BFS trees: whatever `is_bfs_tree`, `is_tree_table`, `is_edge_list` accept is a breadth-first spanning tree
   of the root's component, with consistent tables - so the theorems (traverse included) apply to it. *)
From Coq Require Import List Arith Bool Lia PeanoNat.
Import ListNotations.
Require Import MV.C10.Prelude MV.C10.Gen MV.C10.Model MV.C10.Run MV.C10.Proofs_Util MV.C10.Proofs_BFS
        MV.C10.Proofs_Refine MV.C10.Proofs_Trav MV.C10.Proofs_Forest.

Lemma oeqb_eq a b : oeqb a b = true <-> a = b.
Proof.
  destruct a, b; simpl; split; try congruence; try discriminate.
  - intros H. apply Nat.eqb_eq in H. congruence.
  - intros H. inversion H. apply Nat.eqb_refl.
Qed.

Lemma memn_In x l : memn x l = true <-> In x l.
Proof. apply existsb_eqb_In. Qed.

Lemma nodupb_NoDup l : nodupb l = true -> NoDup l.
Proof.
  induction l as [|x t IH]; simpl; [constructor|]. intros H. apply andb_true_iff in H as [H1 H2].
  constructor; auto. intros Hin. apply memn_In in Hin. rewrite Hin in H1. discriminate.
Qed.

(* a candidate parent table accepted against the model's reached set and depths *)
Record bfs_parent_ok (c : cfg) (g : raw) (root : nat) (t : tree) (par : list (option nat)) : Prop := {
  bp_len : length par = length g;
  bp_root : geto par root = None;
  bp_has : forall v, getb (t_seen t) v = true -> v <> root -> exists p, geto par v = Some p;
  bp_none : forall v, getb (t_seen t) v = false -> geto par v = None;
  bp_par : forall v p, geto par v = Some p ->
                       getb (t_seen t) v = true /\ getb (t_seen t) p = true /\ In v (adm_nbrs c g p) /\
                       depth_of t v = S (depth_of t p)
}.

Theorem is_bfs_tree_sound c g root t par :
  bfs_tree_spec c g root t ->
  is_bfs_tree (length g) (adm_nbrs c g) root (t_seen t) (t_dist t) par = true ->
  bfs_parent_ok c g root t par.
Proof.
  intros B H. unfold is_bfs_tree in H. apply andb_true_iff in H as [Hl H]. apply Nat.eqb_eq in Hl.
  rewrite forallb_forall in H.
  destruct (bs_root _ _ _ _ B) as [_ Hr]. destruct (bs_lens _ _ _ _ B) as (_ & _ & L3).
  assert (Hv : forall v, v < length g ->
            match geto par v with
            | None => getb (t_seen t) v = false \/ v = root
            | Some p => getb (t_seen t) v = true /\ v <> root /\ p < length g /\ getb (t_seen t) p = true /\
                        In v (adm_nbrs c g p) /\ onat_add (geto (t_dist t) p) 1 = geto (t_dist t) v
            end).
  { intros v Hvn. specialize (H v (proj2 (in_seq0 _ _) Hvn)). destruct (geto par v) as [p|].
    - repeat (apply andb_true_iff in H as [H ?]).
      repeat split; auto.
      + intros ->. rewrite Nat.eqb_refl in H4. discriminate.
      + now apply Nat.ltb_lt.
      + now apply memn_In.
      + now apply oeqb_eq.
    - apply orb_true_iff in H as [H|H]; [left|right].
      + now destruct (getb (t_seen t) v).
      + now apply Nat.eqb_eq. }
  constructor.
  - exact Hl.
  - specialize (Hv root Hr). destruct (geto par root); auto. destruct Hv as (_ & E & _). congruence.
  - intros v Hs Hne. assert (Hvn : v < length g) by (apply getb_lt in Hs; lia).
    specialize (Hv v Hvn). destruct (geto par v); eauto. destruct Hv; congruence.
  - intros v Hs. destruct (Nat.lt_ge_cases v (length g)) as [Hvn|Hvn].
    + specialize (Hv v Hvn). destruct (geto par v); auto. destruct Hv as (E & _). congruence.
    + unfold geto. apply nth_overflow. lia.
  - intros v p Hp. assert (Hvn : v < length g) by (apply geto_lt in Hp; lia).
    specialize (Hv v Hvn). rewrite Hp in Hv. destruct Hv as (V1 & V2 & V3 & V4 & V5 & V6).
    repeat split; auto.
    destruct (bs_depth _ _ _ _ B v V1) as [Dv _]. destruct (bs_depth _ _ _ _ B p V4) as [Dp _].
    rewrite Dv, Dp in V6. simpl in V6. inversion V6. lia.
Qed.

Theorem is_tree_table_sound n par ch :
  is_tree_table n par ch = true ->
  length ch = n /\
  forall p, p < n -> NoDup (getl ch p) /\ forall c, In c (getl ch p) <-> c < n /\ geto par c = Some p.
Proof.
  unfold is_tree_table. intros H. apply andb_true_iff in H as [Hl H]. apply Nat.eqb_eq in Hl.
  split; auto. rewrite forallb_forall in H. intros p Hp.
  specialize (H p (proj2 (in_seq0 _ _) Hp)). apply andb_true_iff in H as [H H3]. apply andb_true_iff in H as [H1 H2].
  split; [now apply nodupb_NoDup|]. rewrite forallb_forall in H2, H3. intros c. split.
  - intros Hc. assert (Hcn : c < n) by (apply Nat.ltb_lt, H2, Hc). split; auto.
    specialize (H3 c (proj2 (in_seq0 _ _) Hcn)). apply memn_In in Hc. rewrite Hc in H3.
    apply eqb_prop in H3. symmetry in H3. now apply oeqb_eq.
  - intros [Hcn Hc]. specialize (H3 c (proj2 (in_seq0 _ _) Hcn)).
    assert (E : oeqb (geto par c) (Some p) = true) by (now apply oeqb_eq). rewrite E in H3.
    apply eqb_prop in H3. now apply memn_In.
Qed.

(* the accepted tables are the tables of a rooted tree on the reached set: traverse_correct applies *)
Theorem checked_tables c g root t par ch :
  bfs_tree_spec c g root t ->
  is_bfs_tree (length g) (adm_nbrs c g) root (t_seen t) (t_dist t) par = true ->
  is_tree_table (length g) par ch = true ->
  tree_tables (length g) root (fun v => getb (t_seen t) v = true) par ch (depth_of t).
Proof.
  intros B H1 H2. pose proof (is_bfs_tree_sound _ _ _ _ _ B H1) as P.
  destruct (is_tree_table_sound _ _ _ H2) as [L C].
  destruct (bs_lens _ _ _ _ B) as (_ & _ & L3).
  assert (Hlt : forall v, getb (t_seen t) v = true -> v < length g) by (intros v Hv; apply getb_lt in Hv; lia).
  constructor.
  - split; [|apply P]. apply (bs_reached _ _ _ _ B). exists 0. constructor.
  - intros v p _ Hp. destruct (bp_par _ _ _ _ _ P v p Hp) as (_ & A & _ & D). auto.
  - apply P.
  - exact Hlt.
  - intros p x Hp. destruct (C p (Hlt p Hp)) as [_ Hc]. rewrite Hc. split; intros [A1 A2]; split; auto.
    now destruct (bp_par _ _ _ _ _ P x p A2).
  - intros p Hp. now destruct (C p (Hlt p Hp)).
  - exact L.
Qed.

Lemma memp_In x l : memp x l = true <-> In x l.
Proof.
  unfold memp. rewrite existsb_exists. split.
  - intros [y [Hy E]]. unfold paireqb in E. apply andb_true_iff in E as [E1 E2].
    apply Nat.eqb_eq in E1, E2. destruct x, y; simpl in *; subst; auto.
  - intros H. exists x. split; auto. unfold paireqb. now rewrite !Nat.eqb_refl.
Qed.

Lemma nodupp_NoDup l : nodupp l = true -> NoDup l.
Proof.
  induction l as [|x t IH]; simpl; [constructor|]. intros H. apply andb_true_iff in H as [H1 H2].
  constructor; auto. intros Hin. apply memp_In in Hin. rewrite Hin in H1. discriminate.
Qed.

(* the accepted edge list is { keyify(parent v, v) } without repetition: as many edges as parents *)
Theorem is_edge_list_sound n par es :
  is_edge_list n par es = true ->
  NoDup es /\ length es = length (expected_edges n par) /\ forall e, In e es <-> In e (expected_edges n par).
Proof.
  unfold is_edge_list. intros H. apply andb_true_iff in H as [H H3]. apply andb_true_iff in H as [H1 H2].
  apply Nat.eqb_eq in H1. apply nodupp_NoDup in H2. rewrite forallb_forall in H3.
  assert (Hincl : incl es (expected_edges n par)) by (intros e He; apply memp_In; auto).
  repeat split; auto.
  apply NoDup_length_incl; auto. lia.
Qed.
