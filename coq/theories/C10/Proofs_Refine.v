(* C10 - the model's BFS (built on the generated decisions of Gen.v) is the generic pair-queue BFS of
   Proofs_BFS.v on the admissible adjacency; the children / edges derivation; the theorem about `bfs`. *)
From Coq Require Import List Arith Bool Lia PeanoNat.
Import ListNotations.
Require Import MV.C10.Prelude MV.C10.Gen MV.C10.Model MV.C10.Run MV.C10.Proofs_Util MV.C10.Proofs_BFS.

(* ------------------------------------------------------------ the generated pieces say what they should *)
Lemma ops_spec k :
  let ops := ops_of k in
  l_popleft ops = true /\
  (forall s, l_skip ops s = s) /\
  (forall dv dnv, l_better ops dv dnv = onat_lt (onat_add dv 1) dnv) /\
  (forall dv, l_newdist ops dv = onat_add dv 1) /\
  l_root_dist ops = 0 /\
  (forall pn, l_child ops false pn = negb pn) /\
  l_child ops true true = false.
Proof.
  destruct k; cbn; repeat split; try reflexivity; intros []; reflexivity.
Qed.

Lemma avoid_edge_spec ha ia ab ip ob :
  avoid_edge ha ia ab ip ob = (ha && ia) || (ab && negb ip && ob).
Proof. destruct ha, ia, ab, ip, ob; reflexivity. Qed.

Lemma push_target_spec c seen a :
  push_target c seen a =
  match a_tgt a with
  | Some t => if adm c a && negb (getb seen t) then Some t else None
  | None => None
  end.
Proof.
  unfold push_target, adm, arc_avoid. destruct (a_tgt a) as [t|]; [|reflexivity].
  destruct c as [k ha ab ip]; simpl. destruct k; simpl.
  - rewrite avoid_edge_spec. destruct (getb seen t), ha, (a_forb a), ab, ip, (a_bord a); reflexivity.
  - destruct (a_forb a), (getb seen t); reflexivity.
  - destruct (a_forb a), (getb seen t); reflexivity.
Qed.

(* a tree edge is an adjacency of the mesh that is neither excluded nor (when asked) on the border *)
Lemma adm_nbrs_spec c g v t :
  In t (adm_nbrs c g v) <-> exists a, In a (getl g v) /\ a_tgt a = Some t /\ adm c a = true.
Proof.
  unfold adm_nbrs. rewrite in_flat_map. split.
  - intros [a [Ha Ht]]. exists a. destruct (a_tgt a) as [t'|]; [|contradiction].
    destruct (adm c a); [|contradiction]. destruct Ht as [<-|[]]. auto.
  - intros [a (Ha & Ht & Hadm)]. exists a. split; auto. rewrite Ht, Hadm. simpl. auto.
Qed.

Lemma adm_edge_spec c a : c_kind c = KEdge ->
  (adm c a = true <-> (c_has_avoid c = true -> a_forb a = false) /\
                      (c_avoid_bound c = true -> c_polyline c = false -> a_bord a = false)).
Proof.
  intros E. unfold adm. rewrite E.
  destruct (c_has_avoid c), (a_forb a), (c_avoid_bound c), (c_polyline c), (a_bord a); simpl;
    intuition congruence.
Qed.

Lemma adm_other_spec c a : c_kind c <> KEdge -> (adm c a = true <-> a_forb a = false).
Proof. unfold adm. destruct (c_kind c); [congruence| |]; intros _; destruct (a_forb a); simpl; split; congruence. Qed.

Lemma push_nbrs_spec c g seen v : push_nbrs c g seen v = gpush (adm_nbrs c g) seen v.
Proof.
  unfold push_nbrs, gpush, adm_nbrs. induction (getl g v) as [|a l IH]; simpl; [reflexivity|].
  rewrite IH, push_target_spec. destruct (a_tgt a) as [t|]; simpl; [|reflexivity].
  destruct (adm c a); simpl; [|reflexivity].
  destruct (getb seen t); simpl; reflexivity.
Qed.

Lemma bfs_step_spec c g s : bfs_step c g s = gstep (adm_nbrs c g) s.
Proof.
  unfold bfs_step, gstep.
  destruct (ops_spec (c_kind c)) as (P1 & P2 & P3 & P4 & _).
  rewrite P1. simpl pop_q. destruct (s_q s) as [|[v nv] q']; [reflexivity|].
  rewrite P2, P3, P4, push_nbrs_spec. reflexivity.
Qed.

Lemma bfs_loop_spec fuel c g s : bfs_loop fuel c g s = gloop (adm_nbrs c g) fuel s.
Proof.
  revert s; induction fuel as [|f IH]; intros s; simpl; [reflexivity|].
  rewrite bfs_step_spec. destruct (gstep (adm_nbrs c g) s); auto.
Qed.

Lemma bfs_init_spec c g root : bfs_init c g root = ginit (adm_nbrs c g) (length g) root.
Proof.
  unfold bfs_init, ginit. destruct (ops_spec (c_kind c)) as (_ & _ & _ & _ & P5 & _).
  rewrite P5, push_nbrs_spec. reflexivity.
Qed.

(* ------------------------------------------------------------ fuel *)
Lemma adm_nbrs_length c g v : length (adm_nbrs c g v) <= length (getl g v).
Proof.
  unfold adm_nbrs. induction (getl g v) as [|a l IH]; simpl; auto.
  rewrite app_length. destruct (a_tgt a); simpl; [destruct (adm c a); simpl|]; lia.
Qed.

Lemma sum_rows_concat {A} (g : list (list A)) :
  list_sum (map (fun v => length (getl g v)) (seq 0 (length g))) = length (concat g).
Proof.
  induction g as [|r g IH]; simpl; [reflexivity|].
  rewrite app_length, <- IH, <- seq_shift, map_map. reflexivity.
Qed.

Lemma list_sum_map_le (f h : nat -> nat) l : (forall x, f x <= h x) -> list_sum (map f l) <= list_sum (map h l).
Proof. intros H. induction l; simpl; auto. specialize (H a). lia. Qed.

Lemma total_le_narcs c g : total (adm_nbrs c g) (length g) <= narcs g.
Proof.
  unfold total, narcs. rewrite <- sum_rows_concat. apply list_sum_map_le. intros; apply adm_nbrs_length.
Qed.

(* ------------------------------------------------------------ children / edges derivation *)
Definition children_of (n : nat) (par : list (option nat)) (p : nat) : list nat :=
  filter (fun v => oeqb (geto par v) (Some p)) (seq 0 n).

Lemma getl_app_nth {A} (l : list (list A)) p x q :
  p < length l -> getl (app_nth l p x) q = if Nat.eqb p q then getl l p ++ [x] else getl l q.
Proof.
  intros H. unfold app_nth. rewrite getl_set_nth. destruct (Nat.ltb_spec p (length l)); [reflexivity|lia].
Qed.

Lemma app_nth_length {A} (l : list (list A)) p x : length (app_nth l p x) = length l.
Proof. unfold app_nth. apply set_nth_length. Qed.

Section Derive.
Variable ops : loop_ops.
Variable n : nat.
Variables par dist : list (option nat).
Hypothesis Hc1 : forall pn, l_child ops false pn = negb pn.
Hypothesis Hpar : forall v p, geto par v = Some p -> p < n /\ geto dist v <> None.

Let step := (fun (acc : list (list nat) * list (nat * nat)) v =>
               let p := geto par v in
               if l_child ops (onat_isinf (geto dist v)) (is_none p) then
                 match p with
                 | Some p => (app_nth (fst acc) p v, snd acc ++ [keyify2 p v])
                 | None => acc
                 end
               else acc).

Lemma derive_gen k a acc :
  length (fst acc) = n ->
  let r := fold_left step (seq a k) acc in
  length (fst r) = n /\
  snd r = snd acc ++ flat_map (fun v => match geto par v with Some p => [keyify2 p v] | None => [] end) (seq a k) /\
  forall p, getl (fst r) p = getl (fst acc) p ++ filter (fun v => oeqb (geto par v) (Some p)) (seq a k).
Proof.
  revert a acc. induction k as [|k IH]; intros a acc Hl; simpl.
  - repeat split; auto; intros; now rewrite app_nil_r.
  - assert (Hstep : step acc a = match geto par a with
                                  | Some p => (app_nth (fst acc) p a, snd acc ++ [keyify2 p a])
                                  | None => acc end).
    { unfold step. destruct (geto par a) as [p|] eqn:Ep; simpl.
      - destruct (Hpar a p Ep) as [_ Hd]. destruct (geto dist a); [|congruence]. simpl. now rewrite Hc1.
      - destruct (l_child ops (onat_isinf (geto dist a)) true); reflexivity. }
    rewrite Hstep. destruct (geto par a) as [p|] eqn:Ep.
    + destruct (Hpar a p Ep) as [Hp _].
      destruct (IH (S a) (app_nth (fst acc) p a, snd acc ++ [keyify2 p a])) as (I1 & I2 & I3).
      { simpl. now rewrite app_nth_length. }
      repeat split; auto.
      * rewrite I2. simpl. now rewrite <- app_assoc.
      * intros q. rewrite I3. simpl fst. rewrite getl_app_nth by lia. simpl.
        destruct (Nat.eqb_spec p q) as [->|Hne]; [now rewrite <- app_assoc | reflexivity].
    + destruct (IH (S a) acc Hl) as (I1 & I2 & I3). repeat split; auto.
Qed.

Lemma derive_spec :
  let r := derive ops n par dist in
  length (fst r) = n /\ snd r = expected_edges n par /\ forall p, getl (fst r) p = children_of n par p.
Proof.
  destruct (derive_gen n 0 (repeat [] n, [])) as (H1 & H2 & H3).
  { simpl. apply repeat_length. }
  change (derive ops n par dist) with (fold_left step (seq 0 n) (repeat [] n, [])).
  cbv zeta. repeat split; auto. intros p. rewrite (H3 p). simpl. now rewrite getl_repeat_nil.
Qed.
End Derive.

Lemma children_of_In n par p c : In c (children_of n par p) <-> c < n /\ geto par c = Some p.
Proof.
  unfold children_of. rewrite filter_In, in_seq0. split; intros [H1 H2]; split; auto.
  - destruct (geto par c) as [x|]; simpl in H2; [|discriminate]. apply Nat.eqb_eq in H2. congruence.
  - rewrite H2. simpl. apply Nat.eqb_refl.
Qed.

Lemma children_of_NoDup n par p : NoDup (children_of n par p).
Proof. apply NoDup_filter, seq_NoDup. Qed.

(* ------------------------------------------------------------ counting: |edges| = |reached| - 1 *)
Lemma filter_length_ext_in {A} (f h : A -> bool) l :
  (forall x, In x l -> f x = h x) -> length (filter f l) = length (filter h l).
Proof. intros H. rewrite (filter_ext_in f h l H). reflexivity. Qed.

Lemma expected_edges_length n par :
  length (expected_edges n par) = length (filter (fun v => negb (is_none (geto par v))) (seq 0 n)).
Proof.
  unfold expected_edges. induction (seq 0 n) as [|a l IH]; simpl; auto.
  rewrite app_length, IH. destruct (geto par a); simpl; lia.
Qed.

Lemma count_root (seen hasp : nat -> bool) n root :
  root < n -> seen root = true -> hasp root = false ->
  (forall v, v < n -> v <> root -> seen v = hasp v) ->
  length (filter seen (seq 0 n)) = S (length (filter hasp (seq 0 n))).
Proof.
  intros Hr Hs Hh Heq.
  replace n with (root + S (n - root - 1)) by lia.
  rewrite seq_app. simpl seq. rewrite !filter_app. simpl. rewrite Hs, Hh. rewrite !app_length. simpl.
  rewrite (filter_length_ext_in seen hasp (seq 0 root)).
  2:{ intros x Hx. apply in_seq in Hx. apply Heq; lia. }
  rewrite (filter_length_ext_in seen hasp (seq (S root) _)).
  2:{ intros x Hx. apply in_seq in Hx. apply Heq; lia. }
  lia.
Qed.

(* ------------------------------------------------------------ the theorem about the model's `bfs` *)
Definition wf_raw (g : raw) : Prop :=
  forall v a t, In a (getl g v) -> a_tgt a = Some t -> t < length g.

Lemma wf_adm c g : wf_raw g -> forall v w, In w (adm_nbrs c g v) -> w < length g.
Proof. intros W v w H. apply adm_nbrs_spec in H as [a (H1 & H2 & _)]. eapply W; eauto. Qed.

(* depth table read as a function *)
Definition depth_of (t : tree) (v : nat) : nat := match geto (t_dist t) v with Some d => d | None => 0 end.

Record bfs_tree_spec (c : cfg) (g : raw) (root : nat) (t : tree) : Prop := {
  bs_done : t_done t = true;                                   (* the fuel bound was not what stopped the loop *)
  bs_root : t_root t = root /\ root < length g;
  bs_lens : length (t_parent t) = length g /\ length (t_children t) = length g /\ length (t_seen t) = length g;
  (* reached set = the elements reachable from the root in the admissible graph *)
  bs_reached : forall v, getb (t_seen t) v = true <-> exists k, reach_in (adm_nbrs c g) root k v;
  (* BFS depth = hop distance: attained and minimal *)
  bs_depth : forall v, getb (t_seen t) v = true ->
                       geto (t_dist t) v = Some (depth_of t v) /\
                       reach_in (adm_nbrs c g) root (depth_of t v) v /\
                       forall k, reach_in (adm_nbrs c g) root k v -> depth_of t v <= k;
  bs_root_par : geto (t_parent t) root = None /\ depth_of t root = 0;
  (* every reached element but the root has a parent; elements not reached have none *)
  bs_has_par : forall v, getb (t_seen t) v = true -> v <> root -> exists p, geto (t_parent t) v = Some p;
  bs_no_par : forall v, getb (t_seen t) v = false -> geto (t_parent t) v = None;
  (* a tree edge joins two reached elements, is an admissible adjacency, and goes one level down (hence no cycle) *)
  bs_par : forall v p, geto (t_parent t) v = Some p ->
                       getb (t_seen t) v = true /\ getb (t_seen t) p = true /\ In v (adm_nbrs c g p) /\
                       depth_of t v = S (depth_of t p);
  (* children is the inverse of parent *)
  bs_children : forall p, getl (t_children t) p = children_of (length g) (t_parent t) p;
  (* edges = { keyify(parent v, v) }, one per reached element other than the root *)
  bs_edges : t_edges t = expected_edges (length g) (t_parent t);
  bs_count : S (length (t_edges t)) = length (filter (getb (t_seen t)) (seq 0 (length g)))
}.

Theorem bfs_correct c g root t : wf_raw g -> bfs c g root = Some t -> bfs_tree_spec c g root t.
Proof.
  intros W. unfold bfs. destruct (Nat.ltb_spec root (length g)) as [Hr|]; [|discriminate].
  rewrite bfs_loop_spec, bfs_init_spec.
  set (nb := adm_nbrs c g). set (n := length g).
  assert (Hwf : forall v w, In w (nb v) -> w < n) by (apply wf_adm; auto).
  destruct (gloop_terminates nb n root Hwf Hr (S (narcs g)) (ginit nb n root)) as (s & E & I & Hq).
  { apply Inv_init; auto. }
  { pose proof (pot_init nb n root Hr). pose proof (total_le_narcs c g). fold nb n in H0. lia. }
  rewrite E.
  destruct (ops_spec (c_kind c)) as (_ & _ & _ & _ & _ & P6 & P7).
  assert (Hpar : forall v p, geto (s_par s) v = Some p -> p < n /\ geto (s_dist s) v <> None).
  { intros v p Hp. destruct (i_par nb n root s I v p Hp) as (A1 & A2 & _).
    split.
    - apply getb_lt in A2. now rewrite (i_lens nb n root s I) in A2.
    - destruct (i_seen nb n root s I v A1) as [d ->]. discriminate. }
  pose proof (derive_spec (ops_of (c_kind c)) n (s_par s) (s_dist s) P6 Hpar) as D.
  destruct (derive (ops_of (c_kind c)) n (s_par s) (s_dist s)) as [ch es]. simpl in D. destruct D as (D1 & D2 & D3).
  intros E2; inversion E2; subst t; clear E2.
  assert (Hdd : forall v, depth_of (mkTree root (s_par s) ch es (s_seen s) (s_dist s) true) v = dd s v) by reflexivity.
  destruct (i_root nb n root s I) as (R1 & R2 & R3).
  constructor; simpl.
  - reflexivity.
  - auto.
  - repeat split; auto; apply I.
  - intros v. apply (fin_seen_iff nb n root Hr s I Hq).
  - intros v Hv. rewrite Hdd. apply (fin_depth nb n root Hr s I Hq v Hv).
  - split; auto. rewrite Hdd. apply (dd_some s root 0 R2).
  - apply I.
  - intros v Hv. apply (i_unseen nb n root s I v Hv).
  - intros v p Hp. rewrite !Hdd. apply (i_par nb n root s I v p Hp).
  - exact D3.
  - exact D2.
  - rewrite D2, expected_edges_length. symmetry.
    apply (count_root (getb (s_seen s)) (fun v => negb (is_none (geto (s_par s) v))) n root); auto.
    + now rewrite R3.
    + intros v Hv Hne. destruct (getb (s_seen s) v) eqn:Es.
      * destruct (i_nonroot nb n root s I v Es Hne) as [p ->]. reflexivity.
      * destruct (i_unseen nb n root s I v Es) as [_ ->]. reflexivity.
Qed.

Lemma bfs_some c g root : root < length g -> exists t, bfs c g root = Some t.
Proof.
  intros H. unfold bfs. destruct (Nat.ltb_spec root (length g)); [|lia].
  destruct (bfs_loop _ c g _) as [s fin]. destruct (derive _ _ _ _) as [ch es]. eauto.
Qed.

Lemma bfs_none c g root : length g <= root -> bfs c g root = None.
Proof. intros H. unfold bfs. destruct (Nat.ltb_spec root (length g)); [lia|reflexivity]. Qed.
