(* C10 - the theorems about the model's `kruskal` (EdgeMinimalSpanningTree.compute) and the soundness of the
   `is_spanning_forest` checker through which the correspondence accepts the implementation's edge list. *)
From Coq Require Import List Arith Bool Lia PeanoNat ZArith.
Import ListNotations.
Require Import MV.C10.Prelude MV.C10.Gen MV.C10.Model MV.C10.Run MV.C10.Proofs_Util MV.C10.Proofs_BFS
        MV.C10.Proofs_Refine MV.C10.Proofs_Trav MV.C10.Proofs_Forest MV.C10.Proofs_Check MV.C10.Proofs_Conn
        MV.C10.Proofs_Kruskal MV.C10.Proofs_Orient.

(* every edge of the mesh table has its end points among the vertices *)
Definition kin_ok (i : kinput) : Prop :=
  forall e, e < length (ki_edges i) ->
            fst (edge_at (ki_edges i) e) < ki_n i /\ snd (edge_at (ki_edges i) e) < ki_n i.

(* the candidate edges: all of them, or the non-border ones when avoid_boundary is set on a non-polyline mesh *)
Lemma kr_candidates_spec i e :
  In e (kr_candidates i) <->
  e < length (ki_edges i) /\ (ki_avoid_bound i = true -> ki_polyline i = false -> getb (ki_bord i) e = false).
Proof.
  unfold kr_candidates. rewrite kr_all_edges_spec.
  destruct (ki_avoid_bound i), (ki_polyline i); simpl; rewrite ?filter_In, in_seq0, ?kr_keep_spec;
    try (split; [intros H; split; [tauto|congruence] | tauto]).
  split.
  - intros [H1 H2]. split; auto. intros _ _. now destruct (getb (ki_bord i) e).
  - intros [H1 H2]. split; auto. now rewrite H2.
Qed.

Lemma cand_in i : kin_ok i -> ids_in (edge_at (ki_edges i)) (ki_n i) (kr_candidates i).
Proof. intros K e He. apply K. now apply kr_candidates_spec in He. Qed.

Record kruskal_spec (i : kinput) (kt : ktree) : Prop := {
  ks_root : ki_root i < ki_n i;
  ks_done : kt_done kt = true;                        (* the orientation pass ended within its fuel *)
  ks_edges : kt_edges kt = key_edges (ki_edges i) (kt_ids kt);
  ks_incl : incl (kt_ids kt) (kr_candidates i);       (* tree edges are admissible edges *)
  ks_forest : idforest (edge_at (ki_edges i)) (kt_ids kt);    (* acyclic *)
  ks_span : forall u v, econn (eds (edge_at (ki_edges i)) (kr_candidates i)) u v <->
                        econn (eds (edge_at (ki_edges i)) (kt_ids kt)) u v;     (* spanning, all components *)
  ks_min : forall F, idforest (edge_at (ki_edges i)) F -> incl F (kr_candidates i) ->
                     (forall u v, econn (eds (edge_at (ki_edges i)) (kr_candidates i)) u v ->
                                  econn (eds (edge_at (ki_edges i)) F) u v) ->
                     (sumz (kr_key i) (kt_ids kt) <= sumz (kr_key i) F)%Z;      (* minimum weight *)
  (* parent / children orient exactly the root's component of the forest *)
  ks_orient : exists dep,
      let L := eds (edge_at (ki_edges i)) (kt_ids kt) in
      let inT := fun v => econn L (ki_root i) v in
      tree_tables (ki_n i) (ki_root i) inT (kt_parent kt) (kt_children kt) dep /\
      (forall v, ~ inT v -> geto (kt_parent kt) v = None /\ getl (kt_children kt) v = []) /\
      (forall v p, geto (kt_parent kt) v = Some p -> inT v /\ adj L p v) /\
      (forall u w, inT u -> adj L u w -> geto (kt_parent kt) w = Some u \/ geto (kt_parent kt) u = Some w)
}.

Theorem kruskal_correct i kt : kin_ok i -> kruskal i = Some kt -> kruskal_spec i kt.
Proof.
  intros K. unfold kruskal. destruct (Nat.ltb_spec (ki_root i) (ki_n i)) as [Hr|]; [|discriminate].
  set (es := ki_edges i). set (n := ki_n i). set (cand := kr_candidates i). set (w := kr_key i).
  assert (Ein : ids_in (edge_at es) n cand) by (apply cand_in; auto).
  assert (Es : kruskal_edges i = fold_left (kruskal_step es) (sort_by false w cand) (k0 n)) by reflexivity.
  rewrite Es. set (s := fold_left (kruskal_step es) (sort_by false w cand) (k0 n)).
  pose proof (final_inv es n w cand Ein) as I. fold s in I.
  assert (Hl : ids_in (edge_at es) n (sort_by false w cand)) by (apply l_in; auto).
  pose proof (NbInv_fold es n _ (k0 n) (NbInv_init es n) Hl) as NI. fold s in NI.
  pose proof (T_forest es n w cand Ein) as TF. fold s in TF.
  pose proof (T_in es n w cand Ein) as TI. fold s in TI.
  destruct (orientable (edge_at es) n (k_ids s) TF TI (ki_root i) Hr) as (parw & dep & O).
  destruct (pass_tables n (ki_root i) (eds (edge_at es) (k_ids s)) (k_nb s) parw dep Hr) as (par & ch & E & TT & P1 & P2 & P3).
  { now apply eds_edges_in. }
  { apply NI. }
  { apply NI. }
  { apply NI. }
  { exact O. }
  fold n. rewrite E. intros E2; inversion E2; subst kt; clear E2.
  constructor; simpl.
  - exact Hr.
  - reflexivity.
  - apply (k_keyed _ _ _ _ I).
  - apply (T_incl es n w cand Ein).
  - exact TF.
  - apply (T_spanning es n w cand Ein).
  - apply (kruskal_minimal es n w cand Ein).
  - exists dep. cbv zeta. split; [exact TT|]. split; [exact P1|]. split; [exact P2|exact P3].
Qed.

Lemma kruskal_some i : ki_root i < ki_n i -> exists kt, kruskal i = Some kt.
Proof.
  intros H. unfold kruskal. destruct (Nat.ltb_spec (ki_root i) (ki_n i)); [|lia].
  destruct (orient _ _ _) as [[par ch] fin]. eauto.
Qed.

(* ------------------------------------------------------------ soundness of is_spanning_forest *)
Section Checker.
Variable es : list (nat * nat).
Variable n : nat.
Let ed := edge_at es.
Let edk := fun e => keyify2 (fst (ed e)) (snd (ed e)).

Lemma keyify2_cases a b : keyify2 a b = (a, b) \/ keyify2 a b = (b, a).
Proof. unfold keyify2. destruct (Nat.leb a b); auto. Qed.

Lemma edk_cases e : edk e = (fst (ed e), snd (ed e)) \/ edk e = (snd (ed e), fst (ed e)).
Proof. apply keyify2_cases. Qed.

Lemma econn_edk ids u v : econn (eds edk ids) u v <-> econn (eds ed ids) u v.
Proof.
  split; intros E.
  - induction E as [u|x y Hin|u v _ IH|u v w _ IH1 _ IH2].
    + apply ec_refl.
    + unfold eds in Hin. apply in_map_iff in Hin as [e [E He]].
      assert (Hed : In (ed e) (eds ed ids)) by (unfold eds; now apply in_map).
      destruct (edk_cases e) as [C|C]; rewrite C in E; inversion E; subst.
      * apply ec_edge. now destruct (ed e).
      * apply ec_sym, ec_edge. now destruct (ed e).
    + now apply ec_sym.
    + eapply ec_trans; eauto.
  - induction E as [u|x y Hin|u v _ IH|u v w _ IH1 _ IH2].
    + apply ec_refl.
    + unfold eds in Hin. apply in_map_iff in Hin as [e [E He]].
      assert (Hed : In (edk e) (eds edk ids)) by (unfold eds; now apply in_map).
      destruct (edk_cases e) as [C|C]; rewrite C in Hed; rewrite E in Hed; simpl in Hed.
      * now apply ec_edge.
      * now apply ec_sym, ec_edge.
    + now apply ec_sym.
    + eapply ec_trans; eauto.
Qed.

Lemma fst_snd_edk e : (fst (edk e) = fst (ed e) /\ snd (edk e) = snd (ed e)) \/
                      (fst (edk e) = snd (ed e) /\ snd (edk e) = fst (ed e)).
Proof. destruct (edk_cases e) as [C|C]; rewrite C; simpl; auto. Qed.

Lemma idforest_edk ids : idforest edk ids -> idforest ed ids.
Proof.
  induction 1 as [|T e HT IH Hn]; constructor; auto.
  intros C. apply Hn. apply econn_edk.
  destruct (fst_snd_edk e) as [[-> ->]|[-> ->]]; auto. now apply ec_sym.
Qed.

Lemma find_id_some cand e i : find_id es cand e = Some i -> In i cand /\ edk i = e.
Proof.
  induction cand as [|j t IH]; simpl; [discriminate|].
  fold ed. destruct (ed j) as [a b] eqn:Ej.
  destruct (paireqb (keyify2 a b) e) eqn:P.
  - intros E; inversion E; subst j. split; auto. unfold edk. rewrite Ej. simpl.
    unfold paireqb in P. apply andb_true_iff in P as [P1 P2]. apply Nat.eqb_eq in P1, P2.
    destruct (keyify2 a b), e; simpl in *; congruence.
  - intros E. destruct (IH E). auto.
Qed.

Lemma ids_of_some cand tl ids : ids_of es cand tl = Some ids -> incl ids cand /\ map edk ids = tl.
Proof.
  revert ids. induction tl as [|e tl IH]; simpl; intros ids.
  - intros E; inversion E. split; [intros x []|reflexivity].
  - destruct (find_id es cand e) as [i|] eqn:F; [|discriminate].
    destruct (ids_of es cand tl) as [r|]; [|discriminate].
    intros E; inversion E; subst ids. destruct (find_id_some _ _ _ F) as [Hi <-]. destruct (IH r eq_refl) as [H1 H2].
    split; [intros x [<-|Hx]; auto|]. simpl. now rewrite H2.
Qed.

Lemma forest_run_sound ids : forall lab0 T0 lab,
  labs_ok n (eds edk T0) lab0 -> idforest edk T0 -> ids_in edk n ids ->
  forest_run lab0 (map edk ids) = Some lab ->
  labs_ok n (eds edk (T0 ++ ids)) lab /\ idforest edk (T0 ++ ids).
Proof.
  induction ids as [|e ids IH]; intros lab0 T0 lab Hok HT Hin; simpl.
  - intros E; inversion E; subst. now rewrite app_nil_r.
  - destruct (edk e) as [a b] eqn:Ee.
    destruct (Hin e (or_introl eq_refl)) as [Ha Hb]. rewrite Ee in Ha, Hb. simpl in Ha, Hb.
    destruct (uf_connected lab0 a b) eqn:C; [discriminate|].
    intros E. replace (T0 ++ e :: ids) with ((T0 ++ [e]) ++ ids) by (now rewrite <- app_assoc).
    apply (IH (uf_union lab0 a b)); auto.
    + rewrite eds_snoc, Ee. simpl. apply labs_ok_union; auto.
    + constructor; auto. rewrite Ee. simpl. intros Cn.
      destruct Hok as (_ & _ & Hc). apply Hc in Cn; auto. unfold uf_connected in C. rewrite Cn, Nat.eqb_refl in C. discriminate.
    + intros x Hx. apply Hin. right. exact Hx.
Qed.

Lemma adj_edk ids u v : adj (map edk ids) u v <-> adj (eds ed ids) u v.
Proof.
  unfold adj, eds. rewrite !in_map_iff. split.
  - intros [[e [E He]]|[e [E He]]]; destruct (edk_cases e) as [C|C]; rewrite C in E; inversion E; subst.
    + left. exists e. split; auto. now destruct (ed e).
    + right. exists e. split; auto. now destruct (ed e).
    + right. exists e. split; auto. now destruct (ed e).
    + left. exists e. split; auto. now destruct (ed e).
  - intros [[e [E He]]|[e [E He]]]; destruct (edk_cases e) as [C|C]; rewrite E in C; simpl in C.
    + left. eauto.
    + right. eauto.
    + right. eauto.
    + left. eauto.
Qed.

(* whatever the checker accepts is a spanning forest of the candidate edges *)
Theorem is_spanning_forest_sound cand tl :
  ids_in ed n cand ->
  is_spanning_forest n es cand tl = true ->
  exists ids, ids_of es cand tl = Some ids /\ tl = key_edges es ids /\ NoDup ids /\ incl ids cand /\
              idforest ed ids /\
              (forall u v, econn (eds ed cand) u v <-> econn (eds ed ids) u v).
Proof.
  intros Hcand. unfold is_spanning_forest. destruct (ids_of es cand tl) as [ids|] eqn:Ei; [|discriminate].
  intros H. apply andb_true_iff in H as [H H3]. apply andb_true_iff in H as [H1 H2].
  destruct (forest_run (uf_init n) tl) as [lab|] eqn:Fr; [|discriminate].
  destruct (ids_of_some _ _ _ Ei) as [Hincl Hmap].
  assert (Hin : ids_in edk n ids).
  { intros e He. rewrite forallb_forall in H2.
    assert (In (edk e) tl) by (rewrite <- Hmap; now apply in_map).
    specialize (H2 _ H). apply andb_true_iff in H2 as [A B]. apply Nat.ltb_lt in A, B. auto. }
  rewrite <- Hmap in Fr.
  destruct (forest_run_sound ids (uf_init n) [] lab (labs_ok_init n) (idf_nil _) Hin Fr) as [Hok HF]. simpl in Hok, HF.
  exists ids. repeat split; auto.
  - now apply nodupb_NoDup.
  - now apply idforest_edk.
  - intros E. apply econn_edk. induction E.
    + apply ec_refl.
    + unfold eds in H. apply in_map_iff in H as [e [E He]]. rewrite forallb_forall in H3. specialize (H3 e He).
      fold ed in H3. rewrite E in H3. destruct Hok as (_ & _ & Hc). apply Hc.
      * destruct (Hcand e He) as [A _]. fold ed in A. now rewrite E in A.
      * destruct (Hcand e He) as [_ B]. fold ed in B. now rewrite E in B.
      * unfold uf_connected in H3. now apply Nat.eqb_eq.
    + now apply ec_sym.
    + eapply ec_trans; eauto.
  - apply econn_mono. intros x Hx. unfold eds in *. apply in_map_iff in Hx as [e [<- He]]. apply in_map. auto.
Qed.
End Checker.

(* the neighbours table rebuilt from an edge list *)
Lemma nb_of_spec n tl : edges_in n tl ->
  length (nb_of n tl) = n /\ (forall u v, In v (getl (nb_of n tl) u) <-> adj tl u v) /\
  (forall u, NoDup (getl (nb_of n tl) u)).
Proof.
  intros Hin. unfold nb_of.
  assert (G : forall l L0 nb0, edges_in n (L0 ++ l) ->
            length nb0 = n -> (forall u v, In v (getl nb0 u) <-> adj L0 u v) -> (forall u, NoDup (getl nb0 u)) ->
            let r := fold_left (fun nb e => add_nb (add_nb nb (fst e) (snd e)) (snd e) (fst e)) l nb0 in
            length r = n /\ (forall u v, In v (getl r u) <-> adj (L0 ++ l) u v) /\ (forall u, NoDup (getl r u))).
  { induction l as [|[a b] l IH]; intros L0 nb0 Hr Hl Ha Hn; simpl.
    - rewrite app_nil_r. auto.
    - destruct (Hr a b) as [A B]; [apply in_or_app; right; simpl; auto|].
      assert (Hr' : edges_in n ((L0 ++ [(a, b)]) ++ l)) by (now rewrite <- app_assoc).
      specialize (IH (L0 ++ [(a, b)]) (add_nb (add_nb nb0 a b) b a) Hr').
      rewrite <- app_assoc in IH. simpl in IH. apply IH.
      + now rewrite !add_nb_length.
      + intros u v. rewrite adj_snoc, add_nb_In, add_nb_In, Ha; [tauto|lia|rewrite add_nb_length; lia].
      + apply add_nb_NoDup, add_nb_NoDup, Hn. }
  destruct (G tl [] (repeat [] n)) as (G1 & G2 & G3); auto.
  - apply repeat_length.
  - intros u v. rewrite getl_repeat_nil. unfold adj. simpl. tauto.
  - intros u. rewrite getl_repeat_nil. constructor.
Qed.

(* the orientation recomputed by the checker from an accepted edge list orients the root's component of it *)
Theorem orient_checked es n cand tl ids root :
  ids_in (edge_at es) n cand -> root < n ->
  is_spanning_forest n es cand tl = true -> ids_of es cand tl = Some ids ->
  exists par ch dep,
    orient n (nb_of n tl) root = (par, ch, true) /\
    let L := eds (edge_at es) ids in
    let inT := fun v => econn L root v in
    tree_tables n root inT par ch dep /\
    (forall v, ~ inT v -> geto par v = None /\ getl ch v = []) /\
    (forall v p, geto par v = Some p -> inT v /\ adj L p v) /\
    (forall u w, inT u -> adj L u w -> geto par w = Some u \/ geto par u = Some w).
Proof.
  intros Hcand Hr H Hi.
  destruct (is_spanning_forest_sound es n cand tl Hcand H) as (ids' & Hi' & Htl & _ & Hincl & HF & _).
  rewrite Hi in Hi'. inversion Hi'; subst ids'.
  assert (Hin : ids_in (edge_at es) n ids) by (intros e He; apply Hcand; auto).
  destruct (orientable (edge_at es) n ids HF Hin root Hr) as (parw & dep & O).
  assert (Etl : edges_in n tl).
  { intros a b Hab. rewrite Htl in Hab. unfold key_edges in Hab. apply in_map_iff in Hab as [e [E He]].
    destruct (Hin e He) as [A B]. destruct (keyify2_cases (fst (edge_at es e)) (snd (edge_at es e))) as [C|C];
      rewrite C in E; inversion E; subst; auto. }
  destruct (nb_of_spec n tl Etl) as (N1 & N2 & N3).
  destruct (pass_tables n root (eds (edge_at es) ids) (nb_of n tl) parw dep Hr) as (par & ch & E & TT & P1 & P2 & P3); auto.
  - now apply eds_edges_in.
  - intros u v. rewrite N2, Htl. apply (adj_edk es).
  - exists par, ch, dep. split; auto.
Qed.

(* an accepted edge list of the same weight as the model's is a minimum spanning forest as well *)
Theorem checked_kruskal_minimal i kt tl ids :
  kin_ok i -> kruskal i = Some kt ->
  is_spanning_forest (ki_n i) (ki_edges i) (kr_candidates i) tl = true ->
  ids_of (ki_edges i) (kr_candidates i) tl = Some ids ->
  sumz (kr_key i) ids = sumz (kr_key i) (kt_ids kt) ->
  idforest (edge_at (ki_edges i)) ids /\ incl ids (kr_candidates i) /\
  (forall u v, econn (eds (edge_at (ki_edges i)) (kr_candidates i)) u v <-> econn (eds (edge_at (ki_edges i)) ids) u v) /\
  forall F, idforest (edge_at (ki_edges i)) F -> incl F (kr_candidates i) ->
            (forall u v, econn (eds (edge_at (ki_edges i)) (kr_candidates i)) u v -> econn (eds (edge_at (ki_edges i)) F) u v) ->
            (sumz (kr_key i) ids <= sumz (kr_key i) F)%Z.
Proof.
  intros K E H Hi Hw.
  destruct (is_spanning_forest_sound _ _ _ _ (cand_in i K) H) as (ids' & Hi' & _ & _ & Hincl & HF & Hsp).
  rewrite Hi in Hi'. inversion Hi'; subst ids'. repeat split; auto; try apply Hsp.
  intros F F1 F2 F3. rewrite Hw. apply (ks_min _ _ (kruskal_correct i kt K E)); auto.
Qed.
