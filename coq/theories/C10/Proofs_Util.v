(* C10 - list utilities used by the proofs *)
From Coq Require Import List Arith Bool Lia PeanoNat.
Import ListNotations.
Require Import MV.C10.Prelude MV.C10.Model.

Lemma set_nth_length {A} (l : list A) i x : length (set_nth l i x) = length l.
Proof. revert i; induction l as [|h t IH]; intros [|i]; simpl; auto. Qed.

Lemma nth_set_nth_eq {A} (l : list A) i x d : i < length l -> nth i (set_nth l i x) d = x.
Proof. revert i; induction l as [|h t IH]; intros [|i] H; simpl in *; try lia; auto. apply IH; lia. Qed.

Lemma nth_set_nth_neq {A} (l : list A) i j x d : i <> j -> nth j (set_nth l i x) d = nth j l d.
Proof.
  revert i j; induction l as [|h t IH]; intros [|i] [|j] H; simpl; auto; try lia.
  all: try (apply IH; lia).
Qed.

Lemma set_nth_oob {A} (l : list A) i x : length l <= i -> set_nth l i x = l.
Proof. revert i; induction l as [|h t IH]; intros [|i] H; simpl in *; auto; try lia. f_equal; apply IH; lia. Qed.

Lemma nth_set_nth {A} (l : list A) i j x d :
  nth j (set_nth l i x) d = if Nat.eqb i j then (if Nat.ltb i (length l) then x else nth j l d) else nth j l d.
Proof.
  destruct (Nat.eqb_spec i j) as [->|H].
  - destruct (Nat.ltb_spec j (length l)).
    + now apply nth_set_nth_eq.
    + now rewrite set_nth_oob.
  - now apply nth_set_nth_neq.
Qed.

Lemma getb_set_true l i j : getb (set_nth l i true) j = (Nat.eqb i j && Nat.ltb i (length l)) || getb l j.
Proof.
  unfold getb. rewrite nth_set_nth.
  destruct (Nat.eqb i j), (Nat.ltb i (length l)); reflexivity.
Qed.

Lemma getb_lt l i : getb l i = true -> i < length l.
Proof.
  unfold getb. intros H. destruct (Nat.ltb_spec i (length l)); auto.
  rewrite nth_overflow in H by lia. discriminate.
Qed.

Lemma geto_lt {A} (l : list (option A)) i x : geto l i = Some x -> i < length l.
Proof.
  unfold geto. intros H. destruct (Nat.ltb_spec i (length l)); auto.
  rewrite nth_overflow in H by lia. discriminate.
Qed.

Lemma getb_repeat_false n i : getb (repeat false n) i = false.
Proof.
  unfold getb. destruct (Nat.ltb_spec i n).
  - apply nth_repeat.
  - apply nth_overflow. rewrite repeat_length; lia.
Qed.

Lemma geto_repeat_none {A} n i : geto (repeat (@None A) n) i = None.
Proof.
  unfold geto. destruct (Nat.ltb_spec i n).
  - apply nth_repeat.
  - apply nth_overflow. rewrite repeat_length; lia.
Qed.

Lemma getl_repeat_nil {A} n i : getl (repeat (@nil A) n) i = [].
Proof.
  unfold getl. destruct (Nat.ltb_spec i n).
  - apply nth_repeat.
  - apply nth_overflow. rewrite repeat_length; lia.
Qed.

Lemma geto_set_nth {A} (l : list (option A)) i j x :
  geto (set_nth l i x) j = if Nat.eqb i j then (if Nat.ltb i (length l) then x else geto l j) else geto l j.
Proof. unfold geto. apply nth_set_nth. Qed.

Lemma getl_set_nth {A} (l : list (list A)) i j x :
  getl (set_nth l i x) j = if Nat.eqb i j then (if Nat.ltb i (length l) then x else getl l j) else getl l j.
Proof. unfold getl. apply nth_set_nth. Qed.

Lemma filter_length_le {A} (f : A -> bool) l : length (filter f l) <= length l.
Proof. induction l; simpl; auto. destruct (f a); simpl; lia. Qed.

Lemma in_seq0 n v : In v (seq 0 n) <-> v < n.
Proof. rewrite in_seq. lia. Qed.

Lemma existsb_eqb_In x l : existsb (Nat.eqb x) l = true <-> In x l.
Proof.
  rewrite existsb_exists. split.
  - intros [y [Hy E]]. apply Nat.eqb_eq in E. now subst.
  - intros H. exists x. split; auto. apply Nat.eqb_refl.
Qed.

Lemma NoDup_filter {A} (f : A -> bool) l : NoDup l -> NoDup (filter f l).
Proof.
  induction 1; simpl; [constructor|]. destruct (f x); auto. constructor; auto.
  rewrite filter_In. tauto.
Qed.

Lemma NoDup_app_iff {A} (l1 l2 : list A) :
  NoDup (l1 ++ l2) <-> NoDup l1 /\ NoDup l2 /\ (forall x, In x l1 -> ~ In x l2).
Proof.
  induction l1 as [|a l1 IH]; simpl.
  - split; [intros H; repeat split; auto; constructor | tauto].
  - split.
    + intros H. inversion H as [|? ? Hn Hd]; subst. apply IH in Hd as (H1 & H2 & H3).
      repeat split; auto.
      * constructor; auto. intro; apply Hn; apply in_or_app; auto.
      * intros x [->|Hx]; auto. intro; apply Hn; apply in_or_app; auto.
    + intros (H1 & H2 & H3). inversion H1; subst. constructor.
      * rewrite in_app_iff. intros [?|?]; auto. eapply H3; eauto.
      * apply IH. repeat split; auto.
Qed.

(* pop_q *)
Lemma pop_q_left {A} (q : list A) : pop_q true q = match q with [] => None | x :: t => Some (x, t) end.
Proof. reflexivity. Qed.

Lemma pop_q_right_snoc {A} (q : list A) x : pop_q false (q ++ [x]) = Some (x, q).
Proof. unfold pop_q. rewrite rev_app_distr. simpl. now rewrite rev_involutive. Qed.

Lemma pop_q_nil {A} b : pop_q b (@nil A) = None.
Proof. destruct b; reflexivity. Qed.

(* every pop removes one element: the queue splits around it *)
Lemma pop_q_split {A} b (q : list A) x q' :
  pop_q b q = Some (x, q') -> exists q1 q2, q = q1 ++ x :: q2 /\ q' = q1 ++ q2.
Proof.
  destruct b; simpl.
  - destruct q as [|y t]; [discriminate|]. intros E; inversion E; subst. exists [], q'. auto.
  - unfold pop_q. destruct (rev q) as [|y t] eqn:E; [discriminate|].
    intros E2; inversion E2; subst. exists (rev t), [].
    rewrite app_nil_r. split; auto.
    rewrite <- (rev_involutive q), E. simpl. reflexivity.
Qed.

Lemma pop_q_none {A} b (q : list A) : pop_q b q = None -> q = [].
Proof.
  destruct b; simpl.
  - destruct q; [auto|discriminate].
  - unfold pop_q. destruct (rev q) eqn:E; [|discriminate]. intros _.
    rewrite <- (rev_involutive q), E. reflexivity.
Qed.

Lemma list_sum_app l1 l2 : list_sum (l1 ++ l2) = list_sum l1 + list_sum l2.
Proof. induction l1; simpl; lia. Qed.
