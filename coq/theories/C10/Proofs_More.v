(* C10 - round 7: (1) exactly one tree per connected component, stated with a unique root per element, and the
   edge count of a forest; (2) connectivity is an equivalence on a symmetric adjacency (so "reached set" is the
   connected component of the root); (3) traverse("BFS") goes level by level (non-decreasing depth). *)
From Coq Require Import List Arith Bool Lia PeanoNat.
Import ListNotations.
Require Import MV.C10.Prelude MV.C10.Gen MV.C10.Model MV.C10.Run MV.C10.Proofs_Util MV.C10.Proofs_BFS
        MV.C10.Proofs_Refine MV.C10.Proofs_Trav MV.C10.Proofs_Forest MV.C10.Proofs_Check MV.C10.Proofs.

(* ------------------------------------------------------------ (2) *)
Theorem conn_equivalence nb : sym_nb nb ->
  (forall u, conn nb u u) /\ (forall u v, conn nb u v -> conn nb v u) /\
  (forall u v w, conn nb u v -> conn nb v w -> conn nb u w).
Proof. intros S. split; [apply conn_refl|]. split; [apply conn_sym; auto | apply conn_trans]. Qed.

(* ------------------------------------------------------------ (1) *)
Lemma indicator_sum {A} (p : A -> bool) l : list_sum (map (fun v => if p v then 1 else 0) l) = length (filter p l).
Proof. induction l as [|a l IH]; simpl; auto. destruct (p a); simpl; lia. Qed.

Lemma list_sum_map_add {A} (f h : A -> nat) l :
  list_sum (map (fun v => f v + h v) l) = list_sum (map f l) + list_sum (map h l).
Proof. induction l; simpl; lia. Qed.

(* counting pairs (t, v) with p t v either way *)
Lemma double_count {A B} (p : A -> B -> bool) (f : list A) (l : list B) :
  list_sum (map (fun t => length (filter (p t) l)) f) = list_sum (map (fun v => length (filter (fun t => p t v) f)) l).
Proof.
  induction f as [|t f IH]; simpl.
  - induction l; simpl; auto.
  - rewrite IH, <- indicator_sum, <- list_sum_map_add. f_equal. apply map_ext. intros v.
    destruct (p t v); reflexivity.
Qed.

Lemma list_sum_const l : (forall x, In x l -> x = 1) -> list_sum l = length l.
Proof. induction l as [|a l IH]; simpl; auto. intros H. rewrite (H a) by auto. rewrite IH; auto. Qed.

Theorem forest_components k polyline g :
  wf_raw g ->
  let c := forest_cfg k polyline in
  let g' := forest_graph k g in
  sym_nb (adm_nbrs c g') ->
  let f := forest k polyline g in
  (* every element is connected to exactly one root of the forest: one tree per connected component *)
  (forall v, v < length g' ->
     exists r, In r (forest_roots f) /\ conn (adm_nbrs c g') r v /\
               forall r', In r' (forest_roots f) -> conn (adm_nbrs c g') r' v -> r' = r) /\
  (* a forest on n elements with k trees has n - k edges *)
  length (forest_edges f) + length f = length g'.
Proof.
  intros W c g' Sy f.
  destruct (forest_correct k polyline g W Sy) as (Hspec & Hcnt & _ & Hleast). fold c g' f in Hspec, Hcnt, Hleast.
  split.
  - intros v Hv. specialize (Hcnt v Hv). unfold count_seen in Hcnt.
    destruct (filter (fun t => getb (t_seen t) v) f) as [|t rest] eqn:E; [discriminate|].
    assert (Hin : In t (filter (fun t => getb (t_seen t) v) f)) by (rewrite E; simpl; auto).
    apply filter_In in Hin as [Ht Hs].
    assert (Hc : conn (adm_nbrs c g') (t_root t) v) by (apply (bs_reached _ _ _ _ (Hspec t Ht)); exact Hs).
    exists (t_root t). split; [unfold forest_roots; now apply in_map|]. split; auto.
    intros r' Hr' Hc'. unfold forest_roots in Hr'. apply in_map_iff in Hr' as [t' [<- Ht']].
    assert (C1 : conn (adm_nbrs c g') (t_root t') (t_root t)).
    { eapply conn_trans; [exact Hc'|]. apply conn_sym; auto. }
    assert (C2 : conn (adm_nbrs c g') (t_root t) (t_root t')) by (apply conn_sym; auto).
    pose proof (Hleast t' (t_root t) Ht' C1). pose proof (Hleast t (t_root t') Ht C2). lia.
  - assert (E1 : length (forest_edges f) + length f = list_sum (map (fun t => S (length (t_edges t))) f)).
    { unfold forest_edges. clear. induction f as [|t f IH]; simpl; auto. rewrite app_length. lia. }
    rewrite E1.
    rewrite (map_ext_in _ (fun t => length (filter (fun v => getb (t_seen t) v) (seq 0 (length g'))))).
    2:{ intros t Ht. apply (bs_count _ _ _ _ (Hspec t Ht)). }
    rewrite (double_count (fun t v => getb (t_seen t) v) f (seq 0 (length g'))).
    rewrite list_sum_const.
    + now rewrite map_length, seq_length.
    + intros x Hx. apply in_map_iff in Hx as [v [<- Hv]]. apply in_seq0 in Hv. apply (Hcnt v Hv).
Qed.

(* ------------------------------------------------------------ (3) breadth-first order is level by level *)
Fixpoint nondecr (l : list nat) : Prop :=
  match l with [] => True | a :: t => (forall b, In b t -> a <= b) /\ nondecr t end.

Lemma nondecr_app l1 l2 :
  nondecr (l1 ++ l2) <-> nondecr l1 /\ nondecr l2 /\ (forall a b, In a l1 -> In b l2 -> a <= b).
Proof.
  induction l1 as [|x l1 IH]; simpl.
  - split; [intros H; repeat split; auto; intros ? ? [] | tauto].
  - rewrite IH. split.
    + intros [H1 (H2 & H3 & H4)]. repeat split; auto.
      * intros b Hb. apply H1. apply in_or_app; auto.
      * intros a b [<-|Ha] Hb; [apply H1; apply in_or_app; auto | auto].
    + intros [[H1 H2] (H3 & H4)]. repeat split; auto.
      intros b Hb. apply in_app_or in Hb as [?|?]; auto.
Qed.

Section Level.
Variable n root : nat.
Variable inT : nat -> Prop.
Variable par : nat -> option nat.
Variable dep : nat -> nat.
Variable chf : nat -> list nat.
Hypothesis T_par : forall v p, inT v -> par v = Some p -> inT p /\ dep v = S (dep p).
Hypothesis T_ch : forall p c, inT p -> (In c (chf p) <-> inT c /\ par c = Some p).
Hypothesis T_nodup : forall p, inT p -> NoDup (chf p).

Let d (e : entry) : nat := dep (fst e).

Definition LInv (q out : list entry) : Prop :=
  nondecr (map d (out ++ q)) /\
  (forall h e, hd_error q = Some h -> In e q -> d e <= S (d h)).

Lemma kids_depth x c p : inT x -> In (c, p) (map (fun c => (c, Some x)) (chf x)) -> d (c, p) = S (dep x).
Proof.
  intros Hx H. apply in_map_iff in H as [c' [E Hc]]. inversion E; subst.
  apply (T_ch x c Hx) in Hc as [Hc1 Hc2]. unfold d. simpl. now destruct (T_par c x Hc1 Hc2).
Qed.

Lemma level_run fuel : forall q out out' fin,
  WInv root inT par chf q out -> LInv q out ->
  wl chf fuel true q out = (out', fin) -> nondecr (map d out').
Proof.
  induction fuel as [|f IH]; intros q out out' fin W [L1 L2]; simpl.
  - intros E; inversion E; subst. rewrite map_app in L1. now apply nondecr_app in L1.
  - destruct q as [|[x p] q2]; simpl.
    + intros E; inversion E; subst. now rewrite app_nil_r in L1.
    + assert (Hx : inT x).
      { apply (w_ent _ _ _ _ _ _ W x p). apply in_or_app. right. simpl. auto. }
      apply IH.
      * apply (WInv_step root inT par chf T_ch T_nodup [] x p q2 out W).
      * set (kids := map (fun c => (c, Some x)) (chf x)).
        assert (Hk : forall e, In e kids -> d e = S (dep x)) by (intros [c pc] He; now apply kids_depth).
        rewrite map_app in L1. apply nondecr_app in L1 as (A1 & A2 & A3). simpl in A2. destruct A2 as [A2 A4].
        split.
        -- rewrite <- app_assoc. rewrite !map_app. simpl.
           apply nondecr_app. split; auto. split.
           ++ simpl. split.
              ** intros b Hb. rewrite <- map_app in Hb. apply in_map_iff in Hb as [e [<- He]].
                 apply in_app_or in He as [He|He].
                 --- apply A2. now apply in_map.
                 --- rewrite (Hk e He). unfold d. simpl. lia.
              ** apply nondecr_app. repeat split; auto.
                 --- clear -Hk. induction kids as [|e k IHk]; simpl; auto. split.
                     +++ intros b Hb. apply in_map_iff in Hb as [e' [<- He']].
                         rewrite (Hk e (or_introl eq_refl)), (Hk e' (or_intror He')). lia.
                     +++ apply IHk. intros e' He'. apply Hk. now right.
                 --- intros a b Ha Hb. apply in_map_iff in Ha as [ea [<- Hea]]. apply in_map_iff in Hb as [eb [<- Heb]].
                     rewrite (Hk eb Heb).
                     specialize (L2 (x, p) ea eq_refl (or_intror Hea)). unfold d in L2 at 2. simpl in L2. exact L2.
           ++ intros a b Ha [<-|Hb].
              ** apply A3; simpl; auto.
              ** rewrite <- map_app in Hb. apply in_map_iff in Hb as [e [<- He]].
                 apply in_app_or in He as [He|He].
                 --- apply A3; [auto|]. simpl. right. now apply in_map.
                 --- rewrite (Hk e He). specialize (A3 a (d (x, p)) Ha (or_introl eq_refl)). unfold d in A3 at 1. simpl in A3. lia.
        -- intros h e Hh He. simpl in He.
           assert (De : d e <= S (dep x)).
           { apply in_app_or in He as [He|He].
             - specialize (L2 (x, p) e eq_refl (or_intror He)). exact L2.
             - rewrite (Hk e He). lia. }
           assert (Dh : dep x <= d h).
           { destruct q2 as [|y q3]; simpl in Hh.
             - destruct kids as [|k0 ks] eqn:Ek; [discriminate|]. inversion Hh; subst h.
               rewrite (Hk k0 (or_introl eq_refl)). lia.
             - inversion Hh; subst h. apply A2. simpl. auto. }
           lia.
Qed.
End Level.

Theorem traverse_bfs_level_order n root inT par ch dep :
  tree_tables n root inT par ch dep ->
  forall out fin, traverse true root ch = (out, fin) -> nondecr (map (fun e => dep (fst e)) out).
Proof.
  intros T out fin E. unfold traverse in E. rewrite trav_loop_wl in E.
  change (trav_popleft (trav_is_bfs true)) with true in E.
  eapply (level_run root inT (geto par) dep (getl ch)); try apply T.
  - apply WInv_init; apply T.
  - split.
    + simpl. split; [intros b []|exact I].
    + intros h e Hh He. simpl in Hh, He. destruct He as [<-|[]]. inversion Hh. lia.
  - exact E.
Qed.

(* non-vacuity: the forest of Proofs.ex_g (components {0,1,2,3,4} and {5}) and the BFS order of its first tree *)
Example ex_components :
  length (forest_edges (forest KEdge false ex_g)) + length (forest KEdge false ex_g) = 6 /\
  exists t, bfs ex_c ex_g 0 = Some t /\
            map (fun e => depth_of t (fst e)) (fst (traverse true 0 (t_children t))) = [0; 1; 1; 2].
Proof. split; [vm_compute; reflexivity|]. eexists. split; vm_compute; reflexivity. Qed.

(* on the BFS tree: traverse("BFS") visits the reached elements by non-decreasing hop distance to the root *)
Theorem bfs_traverse_by_distance c g root t : wf_raw g -> bfs c g root = Some t ->
  forall out fin, traverse true (t_root t) (t_children t) = (out, fin) ->
  nondecr (map (fun e => depth_of t (fst e)) out).
Proof.
  intros W E out fin Et. pose proof (bfs_correct _ _ _ _ W E) as B.
  destruct (bs_root _ _ _ _ B) as [Hr _]. rewrite Hr in Et.
  exact (traverse_bfs_level_order _ _ _ _ _ _ (bfs_tree_tables _ _ _ _ B) out fin Et).
Qed.
