(* C10 - Kruskal over the abstract partition: the chosen edges are a spanning forest of the candidate
   (admissible) edges, of minimum total weight.  Minimality by the rank / threshold argument:
   for every threshold t the chosen edges of weight <= t are a spanning forest of the candidates of weight <= t,
   so they are at least as many as the edges of weight <= t of any forest; a layer-cake summation concludes. *)
From Coq Require Import List Arith Bool Lia PeanoNat ZArith Permutation.
Import ListNotations.
Require Import MV.C10.Prelude MV.C10.Gen MV.C10.Model MV.C10.Run MV.C10.Proofs_Util MV.C10.Proofs_Conn.

(* ------------------------------------------------------------ generated pieces *)
Lemma kr_take_spec b : kr_take b = negb b.
Proof. destruct b; reflexivity. Qed.
Lemma kr_sort_reverse_spec : kr_sort_reverse = false.
Proof. reflexivity. Qed.
Lemma kr_all_edges_spec ab ip : kr_all_edges ab ip = negb ab || ip.
Proof. destruct ab, ip; reflexivity. Qed.
Lemma kr_keep_spec b : kr_keep b = negb b.
Proof. destruct b; reflexivity. Qed.
Lemma kr_weight_spec m1 m2 l c : kr_weight m1 m2 l c = if m1 then 1%Z else if m2 then l else c.
Proof. destruct m1, m2; reflexivity. Qed.

(* ------------------------------------------------------------ stable insertion sort *)
Fixpoint sorted_z (key : nat -> Z) (l : list nat) : Prop :=
  match l with
  | [] => True
  | x :: t => (forall y, In y t -> (key x <= key y)%Z) /\ sorted_z key t
  end.

Lemma insert_In key x l y : In y (insert_by false key x l) <-> y = x \/ In y l.
Proof.
  induction l as [|z t IH]; simpl; [intuition|].
  destruct (Z.leb (key x) (key z)); simpl; [intuition|]. rewrite IH. intuition.
Qed.

Lemma insert_sorted key x l : sorted_z key l -> sorted_z key (insert_by false key x l).
Proof.
  induction l as [|z t IH]; simpl; [intuition|]. intros [H1 H2].
  destruct (Z.leb_spec (key x) (key z)); simpl.
  - repeat split; auto. intros y [<-|Hy]; auto. specialize (H1 y Hy). lia.
  - split; [|auto]. intros y Hy. apply insert_In in Hy as [->|Hy]; [lia|auto].
Qed.

Lemma sort_In key l y : In y (sort_by false key l) <-> In y l.
Proof.
  unfold sort_by. induction l as [|x t IH]; simpl; [tauto|]. rewrite insert_In, IH. intuition.
Qed.

Lemma sort_sorted key l : sorted_z key (sort_by false key l).
Proof. unfold sort_by. induction l; simpl; auto. now apply insert_sorted. Qed.

Lemma sorted_split key t l : sorted_z key l ->
  l = filter (fun e => Z.leb (key e) t) l ++ filter (fun e => negb (Z.leb (key e) t)) l.
Proof.
  induction l as [|x r IH]; simpl; auto. intros [H1 H2].
  destruct (Z.leb_spec (key x) t); simpl.
  - f_equal. auto.
  - assert (E : filter (fun e => Z.leb (key e) t) r = []).
    { clear IH H2. induction r as [|y r IHr]; simpl; auto.
      destruct (Z.leb_spec (key y) t).
      - specialize (H1 y (or_introl eq_refl)). lia.
      - apply IHr. intros z Hz. apply H1. right. exact Hz. }
    rewrite E. simpl. f_equal.
    clear IH. induction r as [|y r IHr]; simpl; auto.
    assert (Hy : (t < key y)%Z) by (specialize (H1 y (or_introl eq_refl)); lia).
    destruct (Z.leb_spec (key y) t); [lia|]. simpl. f_equal. apply IHr.
    + intros z Hz. apply H1. right. exact Hz.
    + destruct H2. auto.
    + simpl in E. destruct (Z.leb_spec (key y) t); [lia|auto].
Qed.

Lemma filter_all {A} (p : A -> bool) l : (forall x, In x l -> p x = true) -> filter p l = l.
Proof. induction l; simpl; auto. intros H. rewrite (H a) by auto. f_equal. auto. Qed.

Lemma filter_none {A} (p : A -> bool) l : (forall x, In x l -> p x = false) -> filter p l = [].
Proof. induction l; simpl; auto. intros H. rewrite (H a) by auto. auto. Qed.

(* ------------------------------------------------------------ the Kruskal loop *)
Section Kruskal.
Variable es : list (nat * nat).
Variable n : nat.
Let ed := edge_at es.

Definition key_edges (ids : list nat) : list (nat * nat) := map (fun e => keyify2 (fst (ed e)) (snd (ed e))) ids.

Record KInv (P : list nat) (s : kstate) : Prop := {
  k_labs : labs_ok n (eds ed (k_ids s)) (k_lab s);
  k_forest : idforest ed (k_ids s);
  k_incl : incl (k_ids s) P;
  k_span : forall e, In e P -> econn (eds ed (k_ids s)) (fst (ed e)) (snd (ed e));
  k_keyed : k_edges s = key_edges (k_ids s)
}.

Definition k0 : kstate := mkK (uf_init n) [] [] (repeat [] n).

Lemma KInv_init : KInv [] k0.
Proof.
  constructor; simpl.
  - apply labs_ok_init.
  - constructor.
  - intros x [].
  - intros e [].
  - reflexivity.
Qed.

Lemma kruskal_step_eq s e :
  kruskal_step es s e =
  if uf_connected (k_lab s) (fst (ed e)) (snd (ed e)) then s
  else mkK (uf_union (k_lab s) (fst (ed e)) (snd (ed e))) (k_ids s ++ [e])
           (k_edges s ++ [keyify2 (fst (ed e)) (snd (ed e))])
           (add_nb (add_nb (k_nb s) (fst (ed e)) (snd (ed e))) (snd (ed e)) (fst (ed e))).
Proof.
  unfold kruskal_step, ed. destruct (edge_at es e) as [a b]. simpl. rewrite kr_take_spec.
  destruct (uf_connected (k_lab s) a b); reflexivity.
Qed.

Lemma KInv_step P s e :
  KInv P s -> fst (ed e) < n -> snd (ed e) < n -> KInv (P ++ [e]) (kruskal_step es s e).
Proof.
  intros I Ha Hb. rewrite kruskal_step_eq.
  destruct (k_labs _ _ I) as (Hl & Hr & Hc).
  unfold uf_connected. destruct (Nat.eqb_spec (uf_label (k_lab s) (fst (ed e))) (uf_label (k_lab s) (snd (ed e)))) as [E|E].
  - (* already connected: rejected *)
    constructor; try apply I.
    + intros x Hx. apply in_or_app. left. now apply (k_incl _ _ I).
    + intros x Hx. apply in_app_or in Hx as [Hx|[<-|[]]]; [now apply (k_span _ _ I)|]. now apply Hc.
  - constructor; simpl.
    + rewrite eds_snoc. apply labs_ok_union; auto. apply I.
    + constructor; [apply I|]. intros C. apply E. now apply Hc.
    + intros x Hx. apply in_app_or in Hx as [Hx|Hx]; apply in_or_app; [left; now apply (k_incl _ _ I)|right; exact Hx].
    + intros x Hx. rewrite eds_snoc. apply in_app_or in Hx as [Hx|[<-|[]]].
      * eapply econn_mono; [|apply (k_span _ _ I x Hx)]. intros z Hz. apply in_or_app. auto.
      * apply ec_edge. apply in_or_app. right. simpl. auto.
    + rewrite (k_keyed _ _ I). unfold key_edges. now rewrite map_app.
Qed.

Lemma KInv_fold l : forall P s, KInv P s -> ids_in ed n l ->
  KInv (P ++ l) (fold_left (kruskal_step es) l s).
Proof.
  induction l as [|e l IH]; intros P s I Hin; simpl.
  - now rewrite app_nil_r.
  - replace (P ++ e :: l) with ((P ++ [e]) ++ l) by (now rewrite <- app_assoc).
    apply IH.
    + destruct (Hin e (or_introl eq_refl)). apply KInv_step; auto.
    + intros x Hx. apply Hin. right. exact Hx.
Qed.

(* the chosen ids only grow, by elements of the list being processed *)
Lemma fold_ids_extend l : forall s, exists r, k_ids (fold_left (kruskal_step es) l s) = k_ids s ++ r /\ incl r l.
Proof.
  induction l as [|e l IH]; intros s; simpl.
  - exists []. split; [now rewrite app_nil_r | intros x []].
  - destruct (IH (kruskal_step es s e)) as (r & E & Hr). rewrite E, kruskal_step_eq.
    destruct (uf_connected _ _ _); simpl.
    + exists r. split; auto. intros x Hx. right. auto.
    + exists (e :: r). split; [now rewrite <- app_assoc|]. intros x [<-|Hx]; [left|right]; auto.
Qed.

End Kruskal.

(* ------------------------------------------------------------ layer-cake summation *)
Definition cnt (w : nat -> Z) (X : list nat) (t : Z) : nat := length (filter (fun e => Z.leb (w e) t) X).

Definition layers (w : nat -> Z) (X : list nat) (lo : Z) (l : list nat) : Z :=
  fold_right Z.add 0%Z (map (fun i => Z.of_nat (cnt w X (lo + Z.of_nat i))) l).

Lemma layers_nil w lo l : layers w [] lo l = 0%Z.
Proof. unfold layers. induction l; simpl; auto. Qed.

Lemma cnt_cons w e X t : cnt w (e :: X) t = (if Z.leb (w e) t then 1 else 0) + cnt w X t.
Proof. unfold cnt. simpl. destruct (Z.leb (w e) t); reflexivity. Qed.

Lemma layers_step w X lo i l :
  layers w X lo (i :: l) = (Z.of_nat (cnt w X (lo + Z.of_nat i)) + layers w X lo l)%Z.
Proof. reflexivity. Qed.

Lemma layers_cons w e X lo l :
  layers w (e :: X) lo l =
  (layers w X lo l + Z.of_nat (length (filter (fun i => Z.leb (w e) (lo + Z.of_nat i)) l)))%Z.
Proof.
  induction l as [|i l IH].
  - reflexivity.
  - rewrite !layers_step, IH, cnt_cons. simpl filter.
    destruct (Z.leb (w e) (lo + Z.of_nat i)); simpl length; lia.
Qed.

Lemma count_ge N : forall k, k <= N -> length (filter (fun i => Nat.leb k i) (seq 0 N)) = N - k.
Proof.
  induction N as [|N IH]; intros k Hk.
  - reflexivity.
  - rewrite seq_S, filter_app, app_length. cbn [filter Nat.add].
    destruct (Nat.leb_spec k N).
    + rewrite IH by lia. cbn [length]. lia.
    + assert (k = S N) by lia. subst k.
      rewrite filter_none; [cbn [length]; lia|]. intros x Hx. apply in_seq in Hx. apply Nat.leb_gt. lia.
Qed.

Lemma layer_cake w lo N X :
  (forall e, In e X -> (lo <= w e <= lo + Z.of_nat N)%Z) ->
  sumz w X = (Z.of_nat (length X) * (lo + Z.of_nat N) - layers w X lo (seq 0 N))%Z.
Proof.
  induction X as [|e X IH]; intros H.
  - simpl. rewrite layers_nil. reflexivity.
  - simpl sumz. rewrite IH by (intros; apply H; right; auto). rewrite layers_cons.
    destruct (H e (or_introl eq_refl)) as [H1 H2].
    rewrite (filter_ext _ (fun i => Nat.leb (Z.to_nat (w e - lo)) i)).
    + rewrite count_ge by lia. simpl length. lia.
    + intros i. destruct (Z.leb_spec (w e) (lo + Z.of_nat i)), (Nat.leb_spec (Z.to_nat (w e - lo)) i); auto; lia.
Qed.

Lemma layers_le w A B lo l :
  (forall t, cnt w B t <= cnt w A t) -> (layers w B lo l <= layers w A lo l)%Z.
Proof.
  intros H. unfold layers. induction l as [|i l IH]; simpl; [lia|].
  specialize (H (lo + Z.of_nat i)%Z). lia.
Qed.

Lemma bounds_exist (w : nat -> Z) X : exists lo N, forall e, In e X -> (lo <= w e <= lo + Z.of_nat N)%Z.
Proof.
  induction X as [|e X (lo & N & H)].
  - exists 0%Z, 0. intros e [].
  - exists (Z.min lo (w e)), (Z.to_nat (Z.max (lo + Z.of_nat N) (w e) - Z.min lo (w e))).
    intros x [<-|Hx]; [|specialize (H x Hx)]; lia.
Qed.

(* equally many elements, and at least as many below every threshold: not heavier *)
Lemma majorised_sum w A B :
  length A = length B -> (forall t, cnt w B t <= cnt w A t) -> (sumz w A <= sumz w B)%Z.
Proof.
  intros Hlen Hcnt. destruct (bounds_exist w (A ++ B)) as (lo & N & Hb).
  rewrite (layer_cake w lo N A), (layer_cake w lo N B).
  - pose proof (layers_le w A B lo (seq 0 N) Hcnt). rewrite Hlen. lia.
  - intros e He. apply Hb. apply in_or_app. auto.
  - intros e He. apply Hb. apply in_or_app. auto.
Qed.

(* ------------------------------------------------------------ spanning forest and minimality *)
Section Minimal.
Variable es : list (nat * nat).
Variable n : nat.
Variable w : nat -> Z.
Variable cand : list nat.
Let ed := edge_at es.
Hypothesis cand_in : ids_in ed n cand.

Let l := sort_by false w cand.
Let T := k_ids (fold_left (kruskal_step es) l (k0 n)).

Lemma l_in : ids_in ed n l.
Proof. intros e He. apply cand_in. unfold l in He. now apply sort_In in He. Qed.

Lemma final_inv : KInv es n l (fold_left (kruskal_step es) l (k0 n)).
Proof. apply (KInv_fold es n l [] (k0 n) (KInv_init es n) l_in). Qed.

Lemma T_incl : incl T cand.
Proof. intros e He. apply (k_incl _ _ _ _ final_inv) in He. unfold l in He. now apply sort_In in He. Qed.

Lemma T_in : ids_in ed n T.
Proof. intros e He. apply cand_in. now apply T_incl. Qed.

Lemma T_forest : idforest ed T.
Proof. apply (k_forest _ _ _ _ final_inv). Qed.

(* spanning: two vertices are joined by candidate edges iff they are joined by chosen edges *)
Lemma T_spanning u v : econn (eds ed cand) u v <-> econn (eds ed T) u v.
Proof.
  split.
  - intros E. induction E.
    + apply ec_refl.
    + unfold eds in H. apply in_map_iff in H as [e [E He]].
      assert (Hl : In e l) by (unfold l; now apply sort_In).
      pose proof (k_span _ _ _ _ final_inv e Hl) as S. fold ed in S. rewrite E in S. exact S.
    + now apply ec_sym.
    + eapply ec_trans; eauto.
  - apply econn_mono. intros x Hx. unfold eds in *. apply in_map_iff in Hx as [e [<- He]]. apply in_map. now apply T_incl.
Qed.

(* the chosen edges of weight <= t are those chosen while scanning the candidates of weight <= t *)
Lemma T_threshold t :
  exists T1, filter (fun e => Z.leb (w e) t) T = T1 /\ idforest ed T1 /\ ids_in ed n T1 /\
             forall e, In e cand -> (w e <= t)%Z -> econn (eds ed T1) (fst (ed e)) (snd (ed e)).
Proof.
  set (l1 := filter (fun e => Z.leb (w e) t) l).
  set (l2 := filter (fun e => negb (Z.leb (w e) t)) l).
  assert (El : l = l1 ++ l2) by (apply sorted_split, sort_sorted).
  assert (Hl1 : ids_in ed n l1) by (intros e He; apply l_in; apply filter_In in He; tauto).
  pose proof (KInv_fold es n l1 [] (k0 n) (KInv_init es n) Hl1) as I1. simpl in I1.
  set (s1 := fold_left (kruskal_step es) l1 (k0 n)) in *.
  destruct (fold_ids_extend es l2 s1) as (r & Er & Hr).
  assert (ET : T = k_ids s1 ++ r).
  { unfold T. rewrite El, fold_left_app. exact Er. }
  exists (k_ids s1). repeat split.
  - rewrite ET, filter_app, filter_all, filter_none; [now rewrite app_nil_r| |].
    + intros x Hx. apply Hr in Hx. apply filter_In in Hx as [_ Hx]. now destruct (Z.leb (w x) t).
    + intros x Hx. apply (k_incl _ _ _ _ I1) in Hx. apply filter_In in Hx. tauto.
  - apply I1.
  - apply Hl1. now apply (k_incl _ _ _ _ I1).
  - apply Hl1. now apply (k_incl _ _ _ _ I1).
  - intros e He Hw. apply (k_span _ _ _ _ I1). apply filter_In. split.
    + unfold l. now apply sort_In.
    + now apply Z.leb_le.
Qed.

Theorem kruskal_minimal F :
  idforest ed F -> incl F cand ->
  (forall u v, econn (eds ed cand) u v -> econn (eds ed F) u v) ->
  (sumz w T <= sumz w F)%Z.
Proof.
  intros HF Hincl Hspan.
  assert (HFin : ids_in ed n F) by (intros e He; apply cand_in; auto).
  apply majorised_sum.
  - (* both are spanning forests: same number of edges *)
    destruct (idforest_labels ed n T T_forest T_in) as (labT & HokT & HcT).
    destruct (idforest_labels ed n F HF HFin) as (labF & HokF & HcF).
    assert (A : length F + nclass n labT <= n).
    { apply (forest_rank ed n F (eds ed T) labT HF HFin HokT).
      intros e He. apply T_spanning. apply ec_edge. unfold eds. apply in_map_iff. exists e. split; auto.
      now destruct (ed e). }
    assert (B : length T + nclass n labF <= n).
    { apply (forest_rank ed n T (eds ed F) labF T_forest T_in HokF).
      intros e He. apply Hspan. apply ec_edge. unfold eds. apply in_map_iff. exists e. split; [now destruct (ed e)|].
      now apply T_incl. }
    lia.
  - intros t. unfold cnt.
    destruct (T_threshold t) as (T1 & -> & HT1 & HT1in & Hsp).
    destruct (idforest_labels ed n T1 HT1 HT1in) as (lab1 & Hok1 & Hc1).
    set (Ft := filter (fun e => Z.leb (w e) t) F).
    assert (A : length Ft + nclass n lab1 <= n).
    { apply (forest_rank ed n Ft (eds ed T1) lab1).
      - now apply idforest_filter.
      - intros e He. apply HFin. apply filter_In in He. tauto.
      - exact Hok1.
      - intros e He. apply filter_In in He as [He1 He2]. apply Hsp; auto. now apply Z.leb_le. }
    lia.
Qed.
End Minimal.
