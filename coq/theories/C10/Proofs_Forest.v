(* C10 - traverse on the model's BFS tree (instance of the worklist theorem) and the forests:
   one tree per connected component, every element in exactly one tree. *)
From Coq Require Import List Arith Bool Lia PeanoNat.
Import ListNotations.
Require Import MV.C10.Prelude MV.C10.Gen MV.C10.Model MV.C10.Run MV.C10.Proofs_Util MV.C10.Proofs_BFS
        MV.C10.Proofs_Refine MV.C10.Proofs_Trav.

(* ------------------------------------------------------------ connectivity *)
Definition conn (nb : nat -> list nat) (u v : nat) : Prop := exists k, reach_in nb u k v.
Definition sym_nb (nb : nat -> list nat) : Prop := forall u v, In v (nb u) -> In u (nb v).

Lemma reach_in_trans nb u k v k' w : reach_in nb u k v -> reach_in nb v k' w -> reach_in nb u (k' + k) w.
Proof. intros H1 H2. induction H2; simpl; auto. econstructor; eauto. Qed.

Lemma conn_refl nb u : conn nb u u.
Proof. exists 0. constructor. Qed.

Lemma conn_trans nb u v w : conn nb u v -> conn nb v w -> conn nb u w.
Proof. intros [k H1] [k' H2]. eexists. eapply reach_in_trans; eauto. Qed.

Lemma conn_sym nb : sym_nb nb -> forall u v, conn nb u v -> conn nb v u.
Proof.
  intros S u v [k H]. induction H as [|k v w H IH Hw].
  - apply conn_refl.
  - eapply conn_trans; [|exact IH]. exists 1. econstructor; [constructor|]. apply S. exact Hw.
Qed.

(* ------------------------------------------------------------ tables of a rooted tree, as traverse needs them *)
Record tree_tables (n root : nat) (inT : nat -> Prop) (par : list (option nat)) (ch : list (list nat))
       (dep : nat -> nat) : Prop := {
  tt_root : inT root /\ geto par root = None;
  tt_par : forall v p, inT v -> geto par v = Some p -> inT p /\ dep v = S (dep p);
  tt_nonroot : forall v, inT v -> v <> root -> exists p, geto par v = Some p;
  tt_range : forall v, inT v -> v < n;
  tt_ch : forall p c, inT p -> (In c (getl ch p) <-> inT c /\ geto par c = Some p);
  tt_nodup : forall p, inT p -> NoDup (getl ch p);
  tt_len : length ch = n
}.

Definition traversal_ok (inT : nat -> Prop) (par : list (option nat)) (out : list (nat * option nat)) : Prop :=
  NoDup (map fst out) /\
  (forall v, In v (map fst out) <-> inT v) /\
  (forall x p, In (x, p) out -> p = geto par x) /\
  (forall l1 x p l2, out = l1 ++ (x, Some p) :: l2 -> In p (map fst l1)).

(* traverse(order) for both orders: terminates within its fuel, visits exactly the tree, each element once,
   reports the table's parent, parents before children *)
Theorem traverse_correct n root inT par ch dep :
  tree_tables n root inT par ch dep ->
  forall order_is_BFS, exists out, traverse order_is_BFS root ch = (out, true) /\ traversal_ok inT par out.
Proof.
  intros T order. unfold traverse. rewrite trav_loop_wl, (tt_len _ _ _ _ _ _ T).
  apply (wl_correct n root inT (geto par) dep (getl ch)); try apply T. lia.
Qed.

Lemma bfs_tree_tables c g root t :
  bfs_tree_spec c g root t ->
  tree_tables (length g) root (fun v => getb (t_seen t) v = true) (t_parent t) (t_children t) (depth_of t).
Proof.
  intros B. destruct (bs_lens _ _ _ _ B) as (L1 & L2 & L3). constructor.
  - split; [|apply (bs_root_par _ _ _ _ B)]. apply (bs_reached _ _ _ _ B). exists 0. constructor.
  - intros v p _ Hp. destruct (bs_par _ _ _ _ B v p Hp) as (_ & P2 & _ & P4). auto.
  - apply (bs_has_par _ _ _ _ B).
  - intros v Hv. apply getb_lt in Hv. lia.
  - intros p x _. rewrite (bs_children _ _ _ _ B), children_of_In. split; intros [H1 H2]; split; auto.
    + now destruct (bs_par _ _ _ _ B x p H2).
    + apply getb_lt in H1. lia.
  - intros p _. rewrite (bs_children _ _ _ _ B). apply children_of_NoDup.
  - exact L2.
Qed.

(* ------------------------------------------------------------ forests *)
Definition count_seen (v : nat) (f : list tree) : nat := length (filter (fun t => getb (t_seen t) v) f).

Lemma mark_spec (out : list (nat * option nat)) visited w :
  getb (fold_left (fun vis e => set_nth vis (fst e) true) out visited) w
  = getb visited w || (memn w (map fst out) && Nat.ltb w (length visited)).
Proof.
  revert visited. induction out as [|[x p] out IH]; intros visited; simpl.
  - now rewrite orb_false_r.
  - rewrite IH, set_nth_length, getb_set_true. simpl.
    destruct (Nat.eqb_spec x w) as [->|Hne].
    + rewrite Nat.eqb_refl. simpl. destruct (getb visited w), (w <? length visited), (memn w (map fst out)); reflexivity.
    + destruct (Nat.eqb_spec w x); [congruence|]. simpl. reflexivity.
Qed.

Lemma mark_length (out : list (nat * option nat)) visited :
  length (fold_left (fun vis e => set_nth vis (fst e) true) out visited) = length visited.
Proof. revert visited. induction out as [|e out IH]; intros; simpl; auto. now rewrite IH, set_nth_length. Qed.

Section Forest.
Variable c : cfg.
Variable g : raw.
Hypothesis W : wf_raw g.
Let n := length g.
Let nb := adm_nbrs c g.
Hypothesis S : sym_nb nb.

Record FInv (a : nat) (visited : list bool) (acc : list tree) : Prop := {
  f_len : length visited = n;
  f_vis : forall w, getb visited w = true <-> exists t, In t acc /\ conn nb (t_root t) w;
  f_cnt : forall w, count_seen w acc = if getb visited w then 1 else 0;
  f_spec : forall t, In t acc -> bfs_tree_spec c g (t_root t) t;
  f_done : forall v, v < a -> getb visited v = true;
  f_roots : NoDup (map t_root acc);
  f_least : forall t w, In t acc -> conn nb (t_root t) w -> t_root t <= w
}.

Lemma forest_loop_inv k a visited acc :
  a + k = n -> FInv a visited acc ->
  exists visited', FInv n visited' (forest_loop c g (seq a k) visited acc).
Proof.
  revert a visited acc. induction k as [|k IH]; intros a visited acc Hn I; simpl.
  - replace n with a by lia. eauto.
  - replace (forest_new_root (getb visited a)) with (negb (getb visited a)) by (destruct (getb visited a); reflexivity).
    destruct (getb visited a) eqn:Ev; simpl.
    + apply IH; [lia|]. destruct I. constructor; auto.
      intros v Hv. destruct (Nat.eq_dec v a) as [->|]; auto. apply f_done0. lia.
    + destruct (bfs_some c g a) as [t Ht]; [fold n; lia|]. rewrite Ht.
      pose proof (bfs_correct c g a t W Ht) as B.
      destruct (bs_root _ _ _ _ B) as [Hroot _].
      destruct (traverse_correct _ _ _ _ _ _ (bfs_tree_tables _ _ _ _ B) forest_order_is_BFS) as (out & Eo & Hout).
      rewrite Hroot, Eo. simpl fst. destruct Hout as (_ & Hnodes & _).
      set (visited' := fold_left (fun vis e => set_nth vis (fst e) true) out visited).
      assert (Hv' : forall w, getb visited' w = getb visited w || getb (t_seen t) w).
      { intros w. unfold visited'. rewrite mark_spec, (f_len _ _ _ I).
        destruct (getb (t_seen t) w) eqn:Es.
        - assert (Hin : In w (map fst out)) by (apply Hnodes; auto).
          apply existsb_eqb_In in Hin. unfold memn. rewrite Hin.
          apply getb_lt in Es. destruct (bs_lens _ _ _ _ B) as (_ & _ & L3). fold n in L3.
          destruct (Nat.ltb_spec w n); [reflexivity|lia].
        - assert (Hnin : memn w (map fst out) = false).
          { destruct (memn w (map fst out)) eqn:Em; auto. apply existsb_eqb_In in Em. apply Hnodes in Em. congruence. }
          now rewrite Hnin. }
      assert (Hseen : forall w, getb (t_seen t) w = true <-> conn nb a w) by (intros; apply (bs_reached _ _ _ _ B)).
      assert (Hdisj : forall w, getb (t_seen t) w = true -> getb visited w = false).
      { intros w Hw. destruct (getb visited w) eqn:Evw; auto. exfalso.
        apply (f_vis _ _ _ I) in Evw as [t' [Ht' Hc]].
        assert (Hva : getb visited a = true).
        { apply (f_vis _ _ _ I). exists t'. split; auto. eapply conn_trans; [exact Hc|].
          apply conn_sym; auto. now apply Hseen. }
        congruence. }
      apply IH; [lia|]. constructor.
      * unfold visited'. rewrite mark_length. apply I.
      * intros w. rewrite Hv', orb_true_iff. split.
        -- intros [Hw|Hw].
           ++ apply (f_vis _ _ _ I) in Hw as [t' [Ht' Hc]]. exists t'. split; auto. apply in_or_app; auto.
           ++ exists t. split; [apply in_or_app; simpl; auto|]. rewrite Hroot. now apply Hseen.
        -- intros [t' [Ht' Hc]]. apply in_app_or in Ht' as [Ht'|[<-|[]]].
           ++ left. apply (f_vis _ _ _ I). eauto.
           ++ right. rewrite Hroot in Hc. now apply Hseen.
      * intros w. unfold count_seen. rewrite filter_app, app_length. fold (count_seen w acc).
        rewrite (f_cnt _ _ _ I), Hv'. simpl. destruct (getb (t_seen t) w) eqn:Es; simpl.
        -- rewrite (Hdisj w Es). reflexivity.
        -- rewrite orb_false_r. destruct (getb visited w); reflexivity.
      * intros t' Ht'. apply in_app_or in Ht' as [Ht'|[<-|[]]]; [apply I; auto|]. now rewrite Hroot.
      * intros v Hv. rewrite Hv'. destruct (Nat.eq_dec v a) as [->|Hne].
        -- assert (getb (t_seen t) a = true) by (apply Hseen, conn_refl). rewrite H. apply orb_true_r.
        -- rewrite (f_done _ _ _ I v) by lia. reflexivity.
      * rewrite map_app. simpl. apply NoDup_app_iff. repeat split.
        -- apply I.
        -- constructor; [intros []|constructor].
        -- intros r Hr [<-|[]]. apply in_map_iff in Hr as [t' [E Ht']].
           assert (getb visited (t_root t) = true).
           { apply (f_vis _ _ _ I). exists t'. split; auto. rewrite E. apply conn_refl. }
           rewrite Hroot in H. congruence.
      * intros t' w Ht' Hc. apply in_app_or in Ht' as [Ht'|[<-|[]]]; [eapply (f_least _ _ _ I); eauto|].
        rewrite Hroot in *. destruct (Nat.le_gt_cases a w); auto. exfalso.
        assert (Hw : getb visited w = true) by (apply (f_done _ _ _ I); auto).
        apply Hseen in Hc. rewrite (Hdisj w Hc) in Hw. discriminate.
Qed.

Theorem forest_loop_correct :
  let f := forest_loop c g (seq 0 n) (repeat false n) [] in
  (* every tree is the BFS tree of its root: its reached set is the component of the root *)
  (forall t, In t f -> bfs_tree_spec c g (t_root t) t) /\
  (* every element lies in exactly one tree *)
  (forall v, v < n -> count_seen v f = 1) /\
  (* one tree per component: the roots are distinct and each is the least element of its component *)
  NoDup (map t_root f) /\
  (forall t w, In t f -> conn nb (t_root t) w -> t_root t <= w).
Proof.
  destruct (forest_loop_inv n 0 (repeat false n) []) as [visited' I]; [lia| |].
  - constructor; simpl.
    + apply repeat_length.
    + intros w. rewrite getb_repeat_false. split; [discriminate|]. intros [t [[] _]].
    + intros w. now rewrite getb_repeat_false.
    + intros t [].
    + intros v Hv. lia.
    + constructor.
    + intros t w [].
  - cbv zeta. split; [apply I|]. split; [|split; apply I].
    intros v Hv. rewrite (f_cnt _ _ _ I), (f_done _ _ _ I v Hv). reflexivity.
Qed.
End Forest.
