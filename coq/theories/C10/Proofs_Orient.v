(* C10 - the orientation pass of EdgeMinimalSpanningTree: a BFS over the `neighbours` sets with no seen
   flags (each step only excludes the element it came from).  On a forest it ends within its fuel and fills
   parent / children for exactly the root's component.
   1. every forest admits a rooted orientation of each component (parent + depth witness, with the tree property:
      every edge of the component is a parent edge);
   2. under that witness the pass is the generic worklist of Proofs_Trav.v, whose theorem then applies. *)
From Coq Require Import List Arith Bool Lia PeanoNat ZArith.
Import ListNotations.
Require Import MV.C10.Prelude MV.C10.Gen MV.C10.Model MV.C10.Run MV.C10.Proofs_Util MV.C10.Proofs_BFS
        MV.C10.Proofs_Refine MV.C10.Proofs_Trav MV.C10.Proofs_Forest MV.C10.Proofs_Conn MV.C10.Proofs_Kruskal.

Definition adj (L : list edge) (u w : nat) : Prop := In (u, w) L \/ In (w, u) L.

Lemma adj_sym L u w : adj L u w -> adj L w u.
Proof. unfold adj. tauto. Qed.

Lemma adj_econn L u w : adj L u w -> econn L u w.
Proof. intros [H|H]; [now apply ec_edge | apply ec_sym; now apply ec_edge]. Qed.

Lemma adj_snoc L a b u w : adj (L ++ [(a, b)]) u w <-> adj L u w \/ (u = a /\ w = b) \/ (u = b /\ w = a).
Proof.
  unfold adj. rewrite !in_app_iff. simpl. split.
  - intros [[H|[H|[]]]|[H|[H|[]]]]; try (inversion H; subst); intuition.
  - intros [[H|H]|[[-> ->]|[-> ->]]]; intuition.
Qed.

Lemma econn_range n L : edges_in n L -> forall u v, econn L u v -> u = v \/ (u < n /\ v < n).
Proof.
  intros H u v E. induction E as [u|x y Hin|u v _ IH|u v w _ IH1 _ IH2].
  - now left.
  - right. apply (H x y Hin).
  - destruct IH as [->|[? ?]]; auto.
  - destruct IH1 as [->|[? ?]]; auto. destruct IH2 as [->|[? ?]]; auto.
Qed.

(* ------------------------------------------------------------ 1. rooted orientation of a forest component *)
Record oriented (L : list edge) (r : nat) (par : nat -> option nat) (dep : nat -> nat) : Prop := {
  o_root : par r = None /\ dep r = 0;
  o_has : forall v, econn L r v -> v <> r -> exists p, par v = Some p;
  o_par : forall v p, econn L r v -> par v = Some p -> adj L p v /\ dep v = S (dep p);
  o_tree : forall u w, econn L r u -> adj L u w -> par w = Some u \/ par u = Some w
}.

Lemma oriented_nil r : oriented [] r (fun _ => None) (fun _ => 0).
Proof.
  constructor; auto.
  - intros v E Hne. apply econn_nil in E. congruence.
  - intros v p _ H. discriminate.
  - intros u w _ [[]|[]].
Qed.

Section Attach.
Variables L L' : list edge.
Variables a b : nat.
Hypothesis Hadj : forall u w, adj L' u w <-> adj L u w \/ (u = a /\ w = b) \/ (u = b /\ w = a).
Hypothesis Hconn : forall u v, econn L' u v <->
                               econn L u v \/ (econn L u a /\ econn L b v) \/ (econn L u b /\ econn L a v).
Hypothesis Hnab : ~ econn L a b.

Lemma untouched r par dep :
  oriented L r par dep -> ~ econn L r a -> ~ econn L r b -> oriented L' r par dep.
Proof.
  intros O Ha Hb.
  assert (Hc : forall v, econn L' r v -> econn L r v).
  { intros v E. apply Hconn in E as [E|[[E _]|[E _]]]; tauto. }
  constructor.
  - apply O.
  - intros v E. apply (o_has _ _ _ _ O). auto.
  - intros v p E Hp. destruct (o_par _ _ _ _ O v p (Hc v E) Hp). split; auto. apply Hadj. auto.
  - intros u w E A. apply Hadj in A as [A|[[-> ->]|[-> ->]]].
    + apply (o_tree _ _ _ _ O); auto.
    + exfalso. apply Ha. auto.
    + exfalso. apply Hb. auto.
Qed.

Lemma attach r parR depR parB depB (cb : nat -> bool) :
  oriented L r parR depR -> oriented L b parB depB ->
  (forall v, cb v = true <-> econn L b v) ->
  econn L r a ->
  oriented L' r (fun v => if cb v then (if Nat.eqb v b then Some a else parB v) else parR v)
              (fun v => if cb v then depR a + 1 + depB v else depR v).
Proof.
  intros OR OB Hcb Hra.
  assert (Hnrb : forall v, econn L r v -> cb v = false).
  { intros v E. destruct (cb v) eqn:C; auto. exfalso. apply Hcb in C. apply Hnab.
    eapply ec_trans; [apply ec_sym, Hra|]. eapply ec_trans; [exact E|]. now apply ec_sym. }
  assert (Hsplit : forall v, econn L' r v -> econn L r v \/ econn L b v).
  { intros v E. apply Hconn in E as [E|[[_ E]|[E _]]]; auto.
    exfalso. pose proof (Hnrb b E) as C. assert (cb b = true) by (apply Hcb, ec_refl). congruence. }
  assert (Hcbb : cb b = true) by (apply Hcb, ec_refl).
  assert (HparBb : parB b = None) by apply OB.
  constructor.
  - rewrite (Hnrb r (ec_refl _ _)). apply OR.
  - intros v E Hne. destruct (cb v) eqn:C.
    + destruct (Nat.eqb_spec v b); eauto. apply (o_has _ _ _ _ OB); auto. now apply Hcb.
    + apply (o_has _ _ _ _ OR); auto. destruct (Hsplit v E) as [H|H]; auto. apply Hcb in H. congruence.
  - intros v p E. destruct (cb v) eqn:C.
    + destruct (Nat.eqb_spec v b) as [->|Hvb].
      * intros Hp. inversion Hp; subst p. split; [apply Hadj; auto|].
        rewrite (Hnrb a Hra). destruct (o_root _ _ _ _ OB) as [_ D0]. cbv iota. lia.
      * intros Hp. apply Hcb in C. destruct (o_par _ _ _ _ OB v p C Hp) as [A D]. split; [apply Hadj; auto|].
        assert (Cp : cb p = true).
        { apply Hcb. eapply ec_trans; [exact C|]. apply ec_sym. now apply adj_econn. }
        rewrite Cp. lia.
    + intros Hp. assert (Ev : econn L r v).
      { destruct (Hsplit v E) as [H|H]; auto. apply Hcb in H. congruence. }
      destruct (o_par _ _ _ _ OR v p Ev Hp) as [A D]. split; [apply Hadj; auto|].
      assert (Cp : cb p = false).
      { apply Hnrb. eapply ec_trans; [exact Ev|]. apply ec_sym. now apply adj_econn. }
      rewrite Cp. lia.
  - intros u w E A. apply Hadj in A as [A|[[-> ->]|[-> ->]]].
    + destruct (cb u) eqn:Cu.
      * assert (Eu : econn L b u) by now apply Hcb.
        assert (Cw : cb w = true) by (apply Hcb; eapply ec_trans; [exact Eu|now apply adj_econn]).
        rewrite Cw. destruct (o_tree _ _ _ _ OB u w Eu A) as [H|H].
        -- left. destruct (Nat.eqb_spec w b) as [->|]; [congruence|exact H].
        -- right. destruct (Nat.eqb_spec u b) as [->|]; [congruence|exact H].
      * assert (Eu : econn L r u).
        { destruct (Hsplit u E) as [H|H]; auto. apply Hcb in H. congruence. }
        assert (Cw : cb w = false) by (apply Hnrb; eapply ec_trans; [exact Eu|now apply adj_econn]).
        rewrite Cw. apply (o_tree _ _ _ _ OR); auto.
    + left. rewrite Hcbb, Nat.eqb_refl. reflexivity.
    + right. rewrite Hcbb, Nat.eqb_refl. reflexivity.
Qed.
End Attach.

Section Orientable.
Variable ed : nat -> edge.
Variable n : nat.

Lemma eds_edges_in T : ids_in ed n T -> edges_in n (eds ed T).
Proof.
  intros H x y Hxy. unfold eds in Hxy. apply in_map_iff in Hxy as [e [E He]].
  destruct (H e He) as [H1 H2]. rewrite E in *. auto.
Qed.

Theorem orientable T : idforest ed T -> ids_in ed n T ->
  forall r, r < n -> exists par dep, oriented (eds ed T) r par dep.
Proof.
  induction 1 as [|T e HT IH Hn]; intros Hin r Hr.
  - exists (fun _ => None), (fun _ => 0). apply oriented_nil.
  - assert (HinT : ids_in ed n T) by (intros x Hx; apply Hin; apply in_or_app; auto).
    destruct (Hin e) as [Ha Hb]; [apply in_or_app; simpl; auto|].
    set (a := fst (ed e)) in *. set (b := snd (ed e)) in *.
    rewrite eds_snoc. fold a b. set (L := eds ed T) in *.
    destruct (labels_exist n L (eds_edges_in T HinT)) as [lab (Hl & Hrep & Hc)].
    assert (Hrange : forall u v, econn L u v -> u = v \/ (u < n /\ v < n)) by (apply econn_range, eds_edges_in, HinT).
    assert (Hdec : forall x, x < n -> exists cb : nat -> bool, forall v, cb v = true <-> econn L x v).
    { intros x Hx. exists (fun v => Nat.ltb v n && Nat.eqb (uf_label lab x) (uf_label lab v)). intros v. split.
      - intros H. apply andb_true_iff in H as [H1 H2]. apply Nat.ltb_lt in H1. apply Nat.eqb_eq in H2. now apply Hc.
      - intros E. destruct (Hrange x v E) as [<-|[_ Hv]].
        + apply andb_true_iff. split; [now apply Nat.ltb_lt | apply Nat.eqb_refl].
        + apply andb_true_iff. split; [now apply Nat.ltb_lt | apply Nat.eqb_eq; now apply Hc]. }
    destruct (IH HinT r Hr) as (parR & depR & OR).
    destruct (Hdec r Hr) as [cr Hcr].
    destruct (cr a) eqn:Ca; [|destruct (cr b) eqn:Cb].
    + (* the root's component contains a: hang b's component below a *)
      destruct (IH HinT b Hb) as (parB & depB & OB). destruct (Hdec b Hb) as [cb Hcb].
      eexists _, _. eapply (attach L _ a b); eauto.
      * intros u w. apply adj_snoc.
      * intros u v. apply econn_snoc.
      * now apply Hcr.
    + (* contains b: hang a's component below b *)
      destruct (IH HinT a Ha) as (parA & depA & OA). destruct (Hdec a Ha) as [ca Hca].
      eexists _, _. eapply (attach L _ b a); eauto.
      * intros u w. rewrite adj_snoc. tauto.
      * intros u v. rewrite econn_snoc. tauto.
      * intros E. apply Hn. now apply ec_sym.
      * now apply Hcr.
    + (* the new edge lies elsewhere *)
      exists parR, depR. eapply (untouched L _ a b); eauto.
      * intros u w. apply adj_snoc.
      * intros u v. apply econn_snoc.
      * intros E. apply Hcr in E. congruence.
      * intros E. apply Hcr in E. congruence.
Qed.
End Orientable.

(* ------------------------------------------------------------ the neighbours table built by the Kruskal loop *)
Lemma add_nb_length nb a b : length (add_nb nb a b) = length nb.
Proof. unfold add_nb. destruct (existsb _ _); auto. unfold app_nth. apply set_nth_length. Qed.

Lemma add_nb_In nb a b u v : a < length nb ->
  (In v (getl (add_nb nb a b) u) <-> In v (getl nb u) \/ (u = a /\ v = b)).
Proof.
  intros Ha. unfold add_nb. destruct (existsb (Nat.eqb b) (getl nb a)) eqn:E.
  - apply existsb_eqb_In in E. split; auto. intros [H|[-> ->]]; auto.
  - unfold app_nth. rewrite getl_set_nth. destruct (Nat.ltb_spec a (length nb)); [|lia].
    destruct (Nat.eqb_spec a u) as [->|Hne].
    + rewrite in_app_iff. simpl. intuition (subst; auto).
    + split; [auto | intros [H0|[-> ->]]; [auto | congruence]].
Qed.

Lemma add_nb_NoDup nb a b : (forall u, NoDup (getl nb u)) -> forall u, NoDup (getl (add_nb nb a b) u).
Proof.
  intros H u. unfold add_nb. destruct (existsb (Nat.eqb b) (getl nb a)) eqn:E; auto.
  unfold app_nth. rewrite getl_set_nth. destruct (Nat.eqb_spec a u) as [->|]; auto.
  destruct (Nat.ltb u (length nb)); auto.
  apply NoDup_app_iff. repeat split; auto.
  - constructor; [intros []|constructor].
  - intros x Hx [<-|[]]. apply existsb_eqb_In in Hx. congruence.
Qed.

Section NbTable.
Variable es : list (nat * nat).
Variable n : nat.
Let ed := edge_at es.

Record NbInv (s : kstate) : Prop := {
  nb_len : length (k_nb s) = n;
  nb_adj : forall u v, In v (getl (k_nb s) u) <-> adj (eds ed (k_ids s)) u v;
  nb_nodup : forall u, NoDup (getl (k_nb s) u)
}.

Lemma NbInv_init : NbInv (k0 n).
Proof.
  constructor; simpl.
  - apply repeat_length.
  - intros u v. rewrite getl_repeat_nil. unfold adj. simpl. tauto.
  - intros u. rewrite getl_repeat_nil. constructor.
Qed.

Lemma NbInv_step s e : NbInv s -> fst (ed e) < n -> snd (ed e) < n -> NbInv (kruskal_step es s e).
Proof.
  intros I Ha Hb. rewrite kruskal_step_eq. fold ed. destruct (uf_connected _ _ _); auto.
  constructor; simpl.
  - rewrite !add_nb_length. apply I.
  - intros u v. rewrite eds_snoc, adj_snoc, add_nb_In, add_nb_In, (nb_adj _ I).
    + tauto.
    + rewrite (nb_len _ I). exact Ha.
    + rewrite add_nb_length, (nb_len _ I). exact Hb.
  - apply add_nb_NoDup, add_nb_NoDup, I.
Qed.

Lemma NbInv_fold l : forall s, NbInv s -> ids_in ed n l -> NbInv (fold_left (kruskal_step es) l s).
Proof.
  induction l as [|e l IH]; intros s I Hin; simpl; auto.
  apply IH.
  - destruct (Hin e (or_introl eq_refl)). now apply NbInv_step.
  - intros x Hx. apply Hin. right. exact Hx.
Qed.
End NbTable.

(* ------------------------------------------------------------ 2. the pass as a worklist *)
Lemma pop_q_map {A B} (f : A -> B) b (q : list A) :
  pop_q b (map f q) = match pop_q b q with Some (x, r) => Some (f x, map f r) | None => None end.
Proof.
  destruct b; simpl.
  - destruct q; reflexivity.
  - unfold pop_q. rewrite <- map_rev. destruct (rev q) as [|x r]; simpl; auto. now rewrite map_rev.
Qed.

Lemma kr_child_keep_spec b : kr_child_keep b = negb b.
Proof. destruct b; reflexivity. Qed.

Section Pass.
Variable n root : nat.
Variable L : list edge.
Variable nb : list (list nat).
Variable parw : nat -> option nat.
Variable dep : nat -> nat.
Hypothesis Hroot : root < n.
Hypothesis HL : edges_in n L.
Hypothesis Hnb_len : length nb = n.
Hypothesis Hnb_adj : forall u v, In v (getl nb u) <-> adj L u v.
Hypothesis Hnb_nodup : forall u, NoDup (getl nb u).
Hypothesis O : oriented L root parw dep.

Let inT (v : nat) : Prop := econn L root v.

Definition chf (v : nat) : list nat :=
  match parw v with
  | Some p => filter (fun x => kr_child_keep (Nat.eqb x p)) (getl nb v)
  | None => getl nb v
  end.

Lemma inT_range v : inT v -> v < n.
Proof. intros E. destruct (econn_range n L HL root v E) as [<-|[_ H]]; auto. Qed.

Lemma chf_spec p c : inT p -> (In c (chf p) <-> inT c /\ parw c = Some p).
Proof.
  intros Hp. unfold chf. destruct (parw p) as [q|] eqn:Eq.
  - rewrite filter_In, Hnb_adj, kr_child_keep_spec. split.
    + intros [A Hne]. assert (c <> q) by (intros ->; rewrite Nat.eqb_refl in Hne; discriminate).
      split; [eapply ec_trans; [exact Hp|now apply adj_econn]|].
      destruct (o_tree _ _ _ _ O p c Hp A) as [H1|H1]; auto. congruence.
    + intros [Hc Hpc]. destruct (o_par _ _ _ _ O c p Hc Hpc) as [A D]. split; auto.
      destruct (Nat.eqb_spec c q) as [->|]; auto.
      destruct (o_par _ _ _ _ O p q Hp Eq) as [_ D2]. lia.
  - rewrite Hnb_adj. split.
    + intros A. split; [eapply ec_trans; [exact Hp|now apply adj_econn]|].
      destruct (o_tree _ _ _ _ O p c Hp A) as [H1|H1]; auto. congruence.
    + intros [Hc Hpc]. now destruct (o_par _ _ _ _ O c p Hc Hpc).
Qed.

Lemma chf_nodup p : NoDup (chf p).
Proof. unfold chf. destruct (parw p); auto. now apply NoDup_filter. Qed.

Lemma T_par_ok v p : inT v -> parw v = Some p -> inT p /\ dep v = S (dep p).
Proof.
  intros Hv Hp. destruct (o_par _ _ _ _ O v p Hv Hp) as [A D]. split; auto.
  eapply ec_trans; [exact Hv|]. apply ec_sym. now apply adj_econn.
Qed.

Definition enc (e : nat * nat) : entry := (fst e, Some (snd e)).

Definition tab_step (pc : list (option nat) * list (list nat)) (e : entry) :=
  (set_nth (fst pc) (fst e) (snd e), set_nth (snd pc) (fst e) (chf (fst e))).
Definition tabs (out : list entry) := fold_left tab_step out (repeat None n, repeat [] n).

Lemma tabs_snoc out e : tabs (out ++ [e]) = tab_step (tabs out) e.
Proof. unfold tabs. now rewrite fold_left_app. Qed.

Notation WI := (WInv root inT parw chf).

Lemma pass_sim fuel : forall q out,
  WI (map enc q) out ->
  orient_loop fuel nb q (fst (tabs out)) (snd (tabs out)) =
  let '(out', fin) := wl chf fuel kr_popleft (map enc q) out in (fst (tabs out'), snd (tabs out'), fin).
Proof.
  induction fuel as [|f IH]; intros q out W; [reflexivity|].
  cbn [orient_loop wl]. rewrite pop_q_map. destruct (pop_q kr_popleft q) as [[[v prev] q']|] eqn:E; [|reflexivity].
  simpl enc. simpl fst. simpl snd.
  apply pop_q_split in E as (q1 & q2 & -> & ->).
  assert (Hent : inT v /\ Some prev = parw v).
  { apply (w_ent _ _ _ _ _ _ W). apply in_or_app. right. rewrite map_app. apply in_or_app. right. simpl. auto. }
  destruct Hent as [Hv Hpv].
  assert (Hch : filter (fun x => kr_child_keep (Nat.eqb x prev)) (getl nb v) = chf v).
  { unfold chf. now rewrite <- Hpv. }
  rewrite Hch.
  assert (Eq : map enc (q1 ++ q2) ++ map (fun c => (c, Some v)) (chf v) = map enc ((q1 ++ q2) ++ map (fun c => (c, v)) (chf v))).
  { symmetry. rewrite map_app, map_map. reflexivity. }
  change (enc (v, prev)) with (v, Some prev). cbv iota beta. rewrite Eq.
  change (set_nth (fst (tabs out)) v (Some prev)) with (fst (tab_step (tabs out) (v, Some prev))).
  change (set_nth (snd (tabs out)) v (chf v)) with (snd (tab_step (tabs out) (v, Some prev))).
  rewrite <- tabs_snoc. apply IH.
  rewrite <- Eq, map_app. rewrite map_app in W. simpl in W.
  apply (WInv_step root inT parw chf); auto.
  - intros p c Hp. now apply chf_spec.
  - intros p _. apply chf_nodup.
Qed.

Lemma orient_eq :
  orient n nb root =
  let '(out, fin) := wl chf (S n) kr_popleft [(root, None)] [] in (fst (tabs out), snd (tabs out), fin).
Proof.
  unfold orient.
  assert (Hpr : parw root = None) by apply O.
  assert (Hchr : chf root = getl nb root) by (unfold chf; now rewrite Hpr).
  assert (E0 : wl chf (S n) kr_popleft [(root, None)] [] =
               wl chf n kr_popleft (map enc (map (fun v => (v, root)) (getl nb root))) [(root, None)]).
  { simpl. rewrite map_map. simpl. rewrite Hchr. reflexivity. }
  rewrite E0.
  assert (W : WI (map enc (map (fun v => (v, root)) (getl nb root))) [(root, None)]).
  { rewrite map_map. simpl. rewrite <- Hchr.
    change (WI (([] ++ []) ++ map (fun c => (c, Some root)) (chf root)) ([] ++ [(root, None)])).
    apply (WInv_step root inT parw chf).
    - intros p c Hp. now apply chf_spec.
    - intros p _. apply chf_nodup.
    - apply WInv_init.
      + split; [apply ec_refl | exact Hpr].
      + intros v Hv Hne. apply (o_has _ _ _ _ O); auto. }
  rewrite <- (pass_sim n _ _ W). unfold tabs. simpl. rewrite Hchr. reflexivity.
Qed.

(* reading the tables back *)
Lemma tabs_lengths out : length (fst (tabs out)) = n /\ length (snd (tabs out)) = n.
Proof.
  induction out as [|e out IH] using rev_ind.
  - unfold tabs. simpl. now rewrite !repeat_length.
  - rewrite tabs_snoc. unfold tab_step. simpl. now rewrite !set_nth_length.
Qed.

Lemma tabs_notin out x : ~ In x (map fst out) -> geto (fst (tabs out)) x = None /\ getl (snd (tabs out)) x = [].
Proof.
  induction out as [|e out IH] using rev_ind; intros H.
  - unfold tabs. simpl. now rewrite geto_repeat_none, getl_repeat_nil.
  - rewrite map_app, in_app_iff in H. simpl in H. rewrite tabs_snoc. unfold tab_step. simpl.
    rewrite geto_set_nth, getl_set_nth. destruct (Nat.eqb_spec (fst e) x); [tauto|]. apply IH. tauto.
Qed.

Lemma tabs_in out x p : NoDup (map fst out) -> (forall e, In e out -> fst e < n) -> In (x, p) out ->
  geto (fst (tabs out)) x = p /\ getl (snd (tabs out)) x = chf x.
Proof.
  induction out as [|e out IH] using rev_ind; intros Hn Hr Hin; [contradiction|].
  rewrite map_app in Hn. apply NoDup_app_iff in Hn as (Hn1 & _ & Hd).
  destruct (tabs_lengths out) as [L1 L2].
  rewrite tabs_snoc. unfold tab_step. simpl. rewrite geto_set_nth, getl_set_nth, L1, L2.
  apply in_app_or in Hin as [Hin|[->|[]]].
  - assert (fst e <> x).
    { intros <-. apply (Hd (fst e)); [|simpl; auto]. apply in_map_iff. exists (fst e, p). auto. }
    destruct (Nat.eqb_spec (fst e) x); [contradiction|]. apply IH; auto.
    intros e' He'. apply Hr. apply in_or_app. auto.
  - simpl. rewrite Nat.eqb_refl.
    assert (x < n) by (apply (Hr (x, p)); apply in_or_app; simpl; auto).
    destruct (Nat.ltb_spec x n); [auto|lia].
Qed.

Theorem pass_correct :
  exists par ch,
    orient n nb root = (par, ch, true) /\
    length par = n /\ length ch = n /\
    (forall v, inT v -> geto par v = parw v /\ getl ch v = chf v) /\
    (forall v, ~ inT v -> geto par v = None /\ getl ch v = []) /\
    (forall v, inT v \/ ~ inT v).
Proof.
  destruct (wl_correct n root inT parw dep chf) with (left := kr_popleft) (fuel := S n)
    as (out & E & Hnd & Hall & Hpar & _).
  - split; [apply ec_refl | apply O].
  - apply T_par_ok.
  - intros v Hv Hne. apply (o_has _ _ _ _ O); auto.
  - apply inT_range.
  - intros p c Hp. now apply chf_spec.
  - intros p _. apply chf_nodup.
  - lia.
  - rewrite orient_eq, E. destruct (tabs_lengths out) as [L1 L2].
    exists (fst (tabs out)), (snd (tabs out)). repeat split; auto.
    + apply Hall in H. apply in_map_iff in H as [[x p] [Ex Hin]]. simpl in Ex. subst x.
      rewrite <- (Hpar v p Hin). apply (tabs_in out v p); auto.
      intros e He. apply inT_range. apply Hall. apply in_map. exact He.
    + apply Hall in H. apply in_map_iff in H as [[x p] [Ex Hin]]. simpl in Ex. subst x.
      apply (tabs_in out v p); auto.
      intros e He. apply inT_range. apply Hall. apply in_map. exact He.
    + apply tabs_notin. intros Hin. apply H. now apply Hall.
    + apply tabs_notin. intros Hin. apply H. now apply Hall.
    + intros v. destruct (in_dec Nat.eq_dec v (map fst out)) as [Hin|Hin].
      * left. now apply Hall.
      * right. intros Hv. apply Hin. now apply Hall.
Qed.

(* parent / children orient exactly the root's component *)
Theorem pass_tables :
  exists par ch,
    orient n nb root = (par, ch, true) /\
    tree_tables n root inT par ch dep /\
    (forall v, ~ inT v -> geto par v = None /\ getl ch v = []) /\
    (forall v p, geto par v = Some p -> inT v /\ adj L p v) /\
    (forall u w, inT u -> adj L u w -> geto par w = Some u \/ geto par u = Some w).
Proof.
  destruct pass_correct as (par & ch & E & L1 & L2 & Hin & Hout & Hdec).
  exists par, ch. split; auto.
  assert (Hp : forall v, inT v -> geto par v = parw v) by (intros v Hv; now destruct (Hin v Hv)).
  split; [|split; [exact Hout|split]].
  - constructor.
    + split; [apply ec_refl|]. rewrite Hp by apply ec_refl. apply O.
    + intros v p Hv Hpv. rewrite Hp in Hpv by auto. now apply T_par_ok.
    + intros v Hv Hne. rewrite Hp by auto. apply (o_has _ _ _ _ O); auto.
    + apply inT_range.
    + intros p c Hpi. destruct (Hin p Hpi) as [_ ->]. rewrite chf_spec by auto.
      split; intros [A B]; split; auto; [rewrite Hp; auto | rewrite Hp in B; auto].
    + intros p Hpi. destruct (Hin p Hpi) as [_ ->]. apply chf_nodup.
    + exact L2.
  - intros v p Hpv. destruct (Hdec v) as [Hv|Hv].
    + split; auto. rewrite Hp in Hpv by auto. now destruct (o_par _ _ _ _ O v p Hv Hpv).
    + destruct (Hout v Hv) as [Hn _]. congruence.
  - intros u w Hu A.
    assert (Hw : inT w) by (eapply ec_trans; [exact Hu|now apply adj_econn]).
    rewrite !Hp by auto. apply (o_tree _ _ _ _ O); auto.
Qed.
End Pass.
