(* C10 - the worklist traversal of a rooted tree given by a children function, popping either end:
   every element of the tree exactly once, with its parent, parents first; the fuel is never exhausted. *)
From Coq Require Import List Arith Bool Lia PeanoNat Permutation.
Import ListNotations.
Require Import MV.C10.Prelude MV.C10.Model MV.C10.Proofs_Util.

Definition entry := (nat * option nat)%type.

(* parents-first, built from the left *)
Inductive pfirst : list entry -> Prop :=
| pf_nil : pfirst []
| pf_snoc : forall out x p, pfirst out -> (forall p', p = Some p' -> In p' (map fst out)) -> pfirst (out ++ [(x, p)]).

Lemma pfirst_split out : pfirst out ->
  forall l1 x p l2, out = l1 ++ (x, Some p) :: l2 -> In p (map fst l1).
Proof.
  induction 1 as [|out y q Hpf IH Hq]; intros l1 x p l2 E.
  - destruct l1; discriminate.
  - destruct l2 as [|e l2'] using rev_ind.
    + apply app_inj_tail in E as [E1 E2]. subst l1. inversion E2; subst. apply Hq. reflexivity.
    + clear IHl2'. rewrite app_comm_cons, app_assoc in E. apply app_inj_tail in E as [E1 _].
      eapply IH; eauto.
Qed.

Lemma NoDup_bounded_length (l : list nat) n : NoDup l -> (forall x, In x l -> x < n) -> length l <= n.
Proof.
  intros Hn Hb. rewrite <- (seq_length n 0). apply NoDup_incl_length; auto.
  intros x Hx. apply in_seq0. auto.
Qed.

Section Worklist.
Variable n root : nat.
Variable inT : nat -> Prop.
Variable par : nat -> option nat.
Variable dep : nat -> nat.
Variable chf : nat -> list nat.
Hypothesis T_root : inT root /\ par root = None.
Hypothesis T_par : forall v p, inT v -> par v = Some p -> inT p /\ dep v = S (dep p).
Hypothesis T_nonroot : forall v, inT v -> v <> root -> exists p, par v = Some p.
Hypothesis T_range : forall v, inT v -> v < n.
Hypothesis T_ch : forall p c, inT p -> (In c (chf p) <-> inT c /\ par c = Some p).
Hypothesis T_nodup : forall p, inT p -> NoDup (chf p).

Fixpoint wl (fuel : nat) (left : bool) (q out : list entry) : list entry * bool :=
  match fuel with
  | 0 => (out, false)
  | S f =>
      match pop_q left q with
      | None => (out, true)
      | Some ((x, p), q') => wl f left (q' ++ map (fun c => (c, Some x)) (chf x)) (out ++ [(x, p)])
      end
  end.

Record WInv (q out : list entry) : Prop := {
  w_nodup : NoDup (map fst (out ++ q));
  w_ent : forall x p, In (x, p) (out ++ q) -> inT x /\ p = par x;
  w_pf : pfirst out;
  w_qpar : forall x p, In (x, Some p) q -> In p (map fst out);
  w_clos : forall x c, In x (map fst out) -> In c (chf x) -> In c (map fst (out ++ q));
  w_root : In root (map fst (out ++ q))
}.

Lemma WInv_init : WInv [(root, None)] [].
Proof.
  constructor; simpl.
  - constructor; [intros []|constructor].
  - intros x p [E|[]]. inversion E; subst. destruct T_root. auto.
  - constructor.
  - intros x p [E|[]]. discriminate.
  - intros x c [].
  - auto.
Qed.

Lemma in_kids x c p : In (c, p) (map (fun c => (c, Some x)) (chf x)) <-> p = Some x /\ In c (chf x).
Proof.
  rewrite in_map_iff. split.
  - intros [c' [E H]]. inversion E; subst. auto.
  - intros [-> H]. eauto.
Qed.

Lemma map_fst_kids x : map fst (map (fun c => (c, Some x)) (chf x)) = chf x.
Proof. rewrite map_map. simpl. apply map_id. Qed.

Lemma WInv_step q1 x p q2 out :
  WInv (q1 ++ (x, p) :: q2) out ->
  WInv ((q1 ++ q2) ++ map (fun c => (c, Some x)) (chf x)) (out ++ [(x, p)]).
Proof.
  intros W.
  assert (Hperm : Permutation (out ++ q1 ++ (x, p) :: q2) ((out ++ [(x, p)]) ++ q1 ++ q2)).
  { rewrite <- app_assoc. apply Permutation_app_head. simpl. symmetry. apply Permutation_middle. }
  assert (Hx : inT x /\ p = par x).
  { apply (w_ent _ _ W). apply in_or_app. right. apply in_or_app. right. simpl. auto. }
  destruct Hx as [Hx Hp].
  assert (Hxq : In x (map fst (q1 ++ (x, p) :: q2))).
  { apply in_map_iff. exists (x, p). split; auto. apply in_or_app. right. simpl. auto. }
  assert (Hxout : ~ In x (map fst out)).
  { pose proof (w_nodup _ _ W) as Hn. rewrite map_app in Hn. apply NoDup_app_iff in Hn as (_ & _ & Hd).
    intros Hin. exact (Hd x Hin Hxq). }
  assert (Hsame : forall e, In e (out ++ q1 ++ (x, p) :: q2) <-> In e ((out ++ [(x, p)]) ++ q1 ++ q2)).
  { intros e. split; intros H; [eapply Permutation_in; eauto | eapply Permutation_in; [symmetry|]; eauto]. }
  constructor.
  - (* no duplicates *)
    rewrite app_assoc, map_app, map_fst_kids. apply NoDup_app_iff. repeat split.
    + eapply Permutation_NoDup; [apply Permutation_map; exact Hperm|]. apply (w_nodup _ _ W).
    + apply T_nodup; auto.
    + intros c Hc Hck. apply in_map_iff in Hc as [[c' pc] [E Hin]]. simpl in E. subst c'.
      apply Hsame in Hin. destruct (w_ent _ _ W c pc Hin) as [Hc1 Hc2].
      apply (T_ch x c Hx) in Hck as [_ Hpc]. rewrite Hpc in Hc2. subst pc.
      apply in_app_or in Hin as [Hin|Hin].
      * (* c already output: its parent x was output before it *)
        apply in_split in Hin as (l1 & l2 & E). pose proof (pfirst_split _ (w_pf _ _ W) _ _ _ _ E) as Hb.
        apply Hxout. rewrite E, map_app. apply in_or_app. auto.
      * apply Hxout. eapply (w_qpar _ _ W); eauto.
  - intros y py Hin. rewrite app_assoc in Hin. apply in_app_or in Hin as [Hin|Hin].
    + apply Hsame in Hin. apply (w_ent _ _ W); auto.
    + apply in_kids in Hin as [-> Hc]. apply (T_ch x y Hx) in Hc as [Hc1 Hc2]. split; auto.
  - constructor; [apply (w_pf _ _ W)|]. intros p' ->. apply (w_qpar _ _ W x p').
    apply in_or_app. right. simpl. auto.
  - intros y py Hin. rewrite map_app. apply in_or_app. apply in_app_or in Hin as [Hin|Hin].
    + left. apply (w_qpar _ _ W y py). apply in_app_or in Hin as [?|?]; apply in_or_app; simpl; auto.
    + apply in_kids in Hin as [E _]. inversion E; subst. right. simpl. auto.
  - intros y c Hy Hc. rewrite map_app in Hy. apply in_app_or in Hy as [Hy|Hy].
    + pose proof (w_clos _ _ W y c Hy Hc) as Hin. apply in_map_iff in Hin as [e [E Hin]].
      apply Hsame in Hin. rewrite app_assoc, map_app. apply in_or_app. left. apply in_map_iff. eauto.
    + simpl in Hy. destruct Hy as [<-|[]]. rewrite !app_assoc, map_app, map_fst_kids. apply in_or_app. auto.
  - pose proof (w_root _ _ W) as Hin. apply in_map_iff in Hin as [e [E Hin]].
    apply Hsame in Hin. rewrite app_assoc, map_app. apply in_or_app. left. apply in_map_iff. eauto.
Qed.

Lemma WInv_out_length q out : WInv q out -> length out <= n.
Proof.
  intros W. assert (H : length (map fst out) <= n); [|now rewrite map_length in H].
  apply NoDup_bounded_length.
  - pose proof (w_nodup _ _ W) as Hn. rewrite map_app in Hn. now apply NoDup_app_iff in Hn as (H & _).
  - intros x Hx. apply T_range. apply in_map_iff in Hx as [[x' p] [E Hin]]. simpl in E; subst.
    apply (w_ent _ _ W x p). apply in_or_app; auto.
Qed.

Lemma wl_run fuel left q out :
  WInv q out -> n < length out + fuel ->
  exists out', wl fuel left q out = (out', true) /\ WInv [] out'.
Proof.
  revert q out. induction fuel as [|f IH]; intros q out W Hf.
  - exfalso. pose proof (WInv_out_length _ _ W). lia.
  - simpl. destruct (pop_q left q) as [[[x p] q']|] eqn:E.
    + apply pop_q_split in E as (q1 & q2 & -> & ->).
      apply IH.
      * now apply WInv_step.
      * rewrite app_length. simpl. lia.
    + apply pop_q_none in E. subst q. eauto.
Qed.

Section Final.
Variable out : list entry.
Hypothesis W : WInv [] out.

Lemma fin_all : forall d v, inT v -> dep v = d -> In v (map fst out).
Proof.
  induction d as [|d IH]; intros v Hv Hd.
  - destruct (Nat.eq_dec v root) as [->|Hne].
    + pose proof (w_root _ _ W) as H. now rewrite app_nil_r in H.
    + destruct (T_nonroot v Hv Hne) as [p Hp]. destruct (T_par v p Hv Hp). lia.
  - destruct (Nat.eq_dec v root) as [->|Hne].
    + pose proof (w_root _ _ W) as H. now rewrite app_nil_r in H.
    + destruct (T_nonroot v Hv Hne) as [p Hp]. destruct (T_par v p Hv Hp) as [Hp1 Hp2].
      assert (Hpin : In p (map fst out)) by (apply IH; auto; lia).
      pose proof (w_clos _ _ W p v Hpin) as H. rewrite app_nil_r in H. apply H.
      apply T_ch; auto.
Qed.

Theorem wl_final :
  NoDup (map fst out) /\
  (forall v, In v (map fst out) <-> inT v) /\
  (forall x p, In (x, p) out -> p = par x) /\
  (forall l1 x p l2, out = l1 ++ (x, Some p) :: l2 -> In p (map fst l1)).
Proof.
  repeat split.
  - pose proof (w_nodup _ _ W) as H. now rewrite app_nil_r in H.
  - intros Hv. apply in_map_iff in Hv as [[x p] [E Hin]]. simpl in E; subst.
    apply (w_ent _ _ W v p). rewrite app_nil_r. auto.
  - intros Hv. eapply fin_all; eauto.
  - intros x p Hin. apply (w_ent _ _ W x p). rewrite app_nil_r. auto.
  - apply pfirst_split. apply (w_pf _ _ W).
Qed.
End Final.

Theorem wl_correct left fuel : n < fuel ->
  exists out, wl fuel left [(root, None)] [] = (out, true) /\
    NoDup (map fst out) /\
    (forall v, In v (map fst out) <-> inT v) /\
    (forall x p, In (x, p) out -> p = par x) /\
    (forall l1 x p l2, out = l1 ++ (x, Some p) :: l2 -> In p (map fst l1)).
Proof.
  intros Hf. destruct (wl_run fuel left [(root, None)] [] WInv_init) as (out & E & W).
  { simpl. lia. }
  exists out. split; auto. now apply wl_final.
Qed.
End Worklist.

Lemma trav_loop_wl fuel left ch q out : trav_loop fuel left ch q out = wl (getl ch) fuel left q out.
Proof.
  revert q out. induction fuel as [|f IH]; intros q out; simpl; [reflexivity|].
  unfold entry. destruct (pop_q left q) as [[[x p] q']|]; [apply IH | reflexivity].
Qed.
