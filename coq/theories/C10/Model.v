(* C10 - executable model of mouette/processing/trees/{base,edge_sp,face_sp,cell_sp}.py.
   Executable definitions only (no proofs), built on the generated pieces of Gen.v
   (admissibility tests, loop tests, pop discipline, weight selector, sort direction, call plumbing).

   Elements (vertices / faces / cells) are 0..n-1 as nat.  The mesh enters as `raw`: for each element the list
   of neighbour slots that `put_neighbours_in_queue` iterates over, in the implementation's order, each with the
   facts the admissibility test looks at (Prelude.arc).  *)
From Coq Require Import List Arith Bool ZArith.
Import ListNotations.
Require Import MV.C10.Prelude MV.C10.Gen.

Definition raw := list (list arc).

Definition getb (l : list bool) (i : nat) : bool := nth i l false.
Definition geto {A} (l : list (option A)) (i : nat) : option A := nth i l None.
Definition getl {A} (l : list (list A)) (i : nat) : list A := nth i l [].

Fixpoint set_nth {A} (l : list A) (i : nat) (x : A) : list A :=
  match l, i with
  | [], _ => []
  | _ :: t, 0 => x :: t
  | h :: t, S j => h :: set_nth t j x
  end.

Definition is_none {A} (o : option A) : bool := match o with None => true | Some _ => false end.

Definition ops_of (k : kind) : loop_ops :=
  match k with KEdge => edge_loop | KFace => face_loop | KCell => cell_loop end.

(* self._avoid_edge(v, nv) - only edge trees have it *)
Definition arc_avoid (c : cfg) (a : arc) : bool :=
  match c_kind c with
  | KEdge => avoid_edge (c_has_avoid c) (a_forb a) (c_avoid_bound c) (c_polyline c) (a_bord a)
  | _ => false
  end.

(* one iteration of the `for` in put_neighbours_in_queue: the target pushed, if any *)
Definition push_target (c : cfg) (seen : list bool) (a : arc) : option nat :=
  match a_tgt a with
  | Some t => if l_slot (ops_of (c_kind c)) (a_forb a) false (getb seen t) (arc_avoid c a) then Some t else None
  | None => None   (* `nf is not None and ...` short-circuits; the test never reads seen[None] *)
  end.

Definition push_nbrs (c : cfg) (g : raw) (seen : list bool) (v : nat) : list (nat * nat) :=
  flat_map (fun a => match push_target c seen a with Some t => [(v, t)] | None => [] end) (getl g v).

Record st := mkSt {
  s_seen : list bool;
  s_par : list (option nat);
  s_dist : list (option nat);       (* None = float("inf") *)
  s_q : list (nat * nat)            (* deque of (parent, child) pairs *)
}.

(* deque.popleft() / deque.pop() *)
Definition pop_q {A} (left : bool) (q : list A) : option (A * list A) :=
  if left then match q with [] => None | x :: t => Some (x, t) end
  else match rev q with [] => None | x :: t => Some (x, rev t) end.

(* one iteration of `while len(queue)>0` ; None when the queue is empty *)
Definition bfs_step (c : cfg) (g : raw) (s : st) : option st :=
  let ops := ops_of (c_kind c) in
  match pop_q (l_popleft ops) (s_q s) with
  | None => None
  | Some ((v, nv), q') =>
      if l_skip ops (getb (s_seen s) nv) then Some (mkSt (s_seen s) (s_par s) (s_dist s) q')
      else
        let seen' := set_nth (s_seen s) nv true in
        let dv := geto (s_dist s) v in
        let upd := l_better ops dv (geto (s_dist s) nv) in
        let par' := if upd then set_nth (s_par s) nv (Some v) else s_par s in
        let dist' := if upd then set_nth (s_dist s) nv (l_newdist ops dv) else s_dist s in
        Some (mkSt seen' par' dist' (q' ++ push_nbrs c g seen' nv))
  end.

(* the while loop; the boolean says it ended because the queue was empty (not because fuel ran out) *)
Fixpoint bfs_loop (fuel : nat) (c : cfg) (g : raw) (s : st) : st * bool :=
  match fuel with
  | 0 => (s, false)
  | S f => match bfs_step c g s with None => (s, true) | Some s' => bfs_loop f c g s' end
  end.

Definition bfs_init (c : cfg) (g : raw) (root : nat) : st :=
  let n := length g in
  let ops := ops_of (c_kind c) in
  (* put_neighbours_in_queue(root) runs before seen[root] = True *)
  mkSt (set_nth (repeat false n) root true) (repeat None n)
       (set_nth (repeat None n) root (Some (l_root_dist ops)))
       (push_nbrs c g (repeat false n) root).

(* children[p].append(v) *)
Definition app_nth {A} (l : list (list A)) (i : nat) (x : A) : list (list A) :=
  set_nth l i (getl l i ++ [x]).

(* "build children data from parent data" *)
Definition derive (ops : loop_ops) (n : nat) (par dist : list (option nat)) : list (list nat) * list (nat * nat) :=
  fold_left (fun (acc : list (list nat) * list (nat * nat)) v =>
               let p := geto par v in
               if l_child ops (onat_isinf (geto dist v)) (is_none p) then
                 match p with
                 | Some p => (app_nth (fst acc) p v, snd acc ++ [keyify2 p v])
                 | None => acc
                 end
               else acc)
            (seq 0 n) (repeat [] n, []).

Record tree := mkTree {
  t_root : nat;
  t_parent : list (option nat);
  t_children : list (list nat);
  t_edges : list (nat * nat);
  t_seen : list bool;              (* ghost: not an attribute of the object *)
  t_dist : list (option nat);      (* ghost *)
  t_done : bool                    (* ghost: the loop ended on the empty queue within the fuel *)
}.

Definition narcs (g : raw) : nat := length (concat g).

(* EdgeSpanningTree / FaceSpanningTree / CellSpanningTree .compute();
   None = the root is not an element (IndexError / KeyError in the implementation) *)
Definition bfs (c : cfg) (g : raw) (root : nat) : option tree :=
  if Nat.ltb root (length g) then
    let '(s, fin) := bfs_loop (S (narcs g)) c g (bfs_init c g root) in
    let '(ch, es) := derive (ops_of (c_kind c)) (length g) (s_par s) (s_dist s) in
    Some (mkTree root (s_par s) ch es (s_seen s) (s_dist s) fin)
  else None.

(* ------------------------------------------------------------------ SpanningTree.traverse *)
Fixpoint trav_loop (fuel : nat) (left : bool) (ch : list (list nat)) (q : list (nat * option nat))
         (out : list (nat * option nat)) : list (nat * option nat) * bool :=
  match fuel with
  | 0 => (out, false)
  | S f =>
      match pop_q left q with
      | None => (out, true)
      | Some ((node, p), q') =>
          trav_loop f left ch (q' ++ map (fun c => (c, Some node)) (getl ch node)) (out ++ [(node, p)])
      end
  end.

(* order_is_BFS: order == "BFS" (the only other accepted value is "DFS") *)
Definition traverse (order_is_BFS : bool) (root : nat) (ch : list (list nat)) : list (nat * option nat) * bool :=
  trav_loop (S (length ch)) (trav_popleft (trav_is_bfs order_is_BFS)) ch [(root, None)] [].

(* ------------------------------------------------------------------ forests *)
Definition clear_forb (g : raw) : raw := map (map (fun a => mkArc (a_tgt a) false (a_bord a))) g.

Definition forest_graph (k : kind) (g : raw) : raw := if forest_forwards_exclusions k then g else clear_forb g.

Fixpoint forest_loop (c : cfg) (g : raw) (vs : list nat) (visited : list bool) (acc : list tree) : list tree :=
  match vs with
  | [] => acc
  | v :: rest =>
      if forest_new_root (getb visited v) then
        match bfs c g v with
        | Some t =>
            let visited' := fold_left (fun vis e => set_nth vis (fst e) true)
                                      (fst (traverse forest_order_is_BFS (t_root t) (t_children t))) visited in
            forest_loop c g rest visited' (acc ++ [t])
        | None => acc
        end
      else forest_loop c g rest visited acc
  end.

Definition forest (k : kind) (polyline : bool) (g : raw) : list tree :=
  let g' := forest_graph k g in
  forest_loop (forest_cfg k polyline) g' (seq 0 (length g')) (repeat false (length g')) [].

Definition forest_roots (f : list tree) : list nat := map t_root f.
Definition forest_edges (f : list tree) : list (nat * nat) := flat_map t_edges f.
Definition forest_traverse (order_is_BFS : bool) (f : list tree) : list (nat * option nat) :=
  flat_map (fun t => fst (traverse order_is_BFS (t_root t) (t_children t))) f.

(* ------------------------------------------------------------------ EdgeMinimalSpanningTree (Kruskal) *)
(* list.sort(key=...) is stable: insertion from the right keeps equal keys in their original order *)
Fixpoint insert_by (rev_order : bool) (key : nat -> Z) (x : nat) (l : list nat) : list nat :=
  match l with
  | [] => [x]
  | y :: t =>
      if (if rev_order then Z.leb (key y) (key x) else Z.leb (key x) (key y)) then x :: y :: t
      else y :: insert_by rev_order key x t
  end.
Definition sort_by (rev_order : bool) (key : nat -> Z) (l : list nat) : list nat :=
  fold_right (insert_by rev_order key) [] l.

(* the partition maintained by UnionFind, abstractly: a class label per vertex (C20 shows that the array
   union-find of unionfind.py answers `connected` exactly as the equivalence closure of the unions does) *)
Definition uf_init (n : nat) : list nat := seq 0 n.
Definition uf_label (lab : list nat) (a : nat) : nat := nth a lab a.
Definition uf_connected (lab : list nat) (a b : nat) : bool := Nat.eqb (uf_label lab a) (uf_label lab b).
Definition uf_union (lab : list nat) (a b : nat) : list nat :=
  let la := uf_label lab a in let lb := uf_label lab b in
  map (fun x => if Nat.eqb x la then lb else x) lab.

Definition edge_at (es : list (nat * nat)) (e : nat) : nat * nat := nth e es (0, 0).

(* neighbours[a].add(b) on a set: no duplicates; iteration order of a Python set is not specified,
   the model keeps insertion order and the correspondence compares children as sets *)
Definition add_nb (nb : list (list nat)) (a b : nat) : list (list nat) :=
  if existsb (Nat.eqb b) (getl nb a) then nb else app_nth nb a b.

Record kstate := mkK { k_lab : list nat; k_ids : list nat; k_edges : list (nat * nat); k_nb : list (list nat) }.

Definition kruskal_step (es : list (nat * nat)) (s : kstate) (e : nat) : kstate :=
  let '(a, b) := edge_at es e in
  if kr_take (uf_connected (k_lab s) a b) then
    mkK (uf_union (k_lab s) a b) (k_ids s ++ [e]) (k_edges s ++ [keyify2 a b]) (add_nb (add_nb (k_nb s) a b) b a)
  else s.

(* orientation BFS from the root over `neighbours` (no seen flags: relies on the edges being a forest) *)
Fixpoint orient_loop (fuel : nat) (nb : list (list nat)) (q : list (nat * nat))
         (par : list (option nat)) (ch : list (list nat)) : list (option nat) * list (list nat) * bool :=
  match fuel with
  | 0 => (par, ch, false)
  | S f =>
      match pop_q kr_popleft q with
      | None => (par, ch, true)
      | Some ((v, prev), q') =>
          let cv := filter (fun x => kr_child_keep (Nat.eqb x prev)) (getl nb v) in
          orient_loop f nb (q' ++ map (fun c => (c, v)) cv) (set_nth par v (Some prev)) (set_nth ch v cv)
      end
  end.

Definition orient (n : nat) (nb : list (list nat)) (root : nat) : list (option nat) * list (list nat) * bool :=
  let par := set_nth (repeat None n) root None in
  let ch := set_nth (repeat [] n) root (getl nb root) in
  orient_loop n nb (map (fun v => (v, root)) (getl nb root)) par ch.

Record kinput := mkKI {
  ki_n : nat;                       (* number of vertices *)
  ki_edges : list (nat * nat);      (* mesh.edges, by edge id *)
  ki_bord : list bool;              (* is_edge_on_border per edge id *)
  ki_len : list Z;                  (* order-preserving integer image of the edge lengths (squared lengths on lattice meshes) *)
  ki_custom : list Z;               (* custom weights (dict / Attribute) per edge id *)
  ki_mode_one : bool;               (* weights == "one" *)
  ki_mode_length : bool;            (* weights == "length" *)
  ki_avoid_bound : bool;
  ki_polyline : bool;
  ki_root : nat
}.

Definition kr_key (i : kinput) (e : nat) : Z :=
  kr_weight (ki_mode_one i) (ki_mode_length i) (nth e (ki_len i) 0%Z) (nth e (ki_custom i) 0%Z).

Definition kr_candidates (i : kinput) : list nat :=
  let ids := seq 0 (length (ki_edges i)) in
  if kr_all_edges (ki_avoid_bound i) (ki_polyline i) then ids
  else filter (fun e => kr_keep (getb (ki_bord i) e)) ids.

Record ktree := mkKT {
  kt_ids : list nat;               (* ghost: ids of the chosen edges, in the order chosen *)
  kt_edges : list (nat * nat);
  kt_parent : list (option nat);
  kt_children : list (list nat);
  kt_done : bool                   (* ghost: the orientation loop ended on the empty queue *)
}.

Definition kruskal_edges (i : kinput) : kstate :=
  fold_left (kruskal_step (ki_edges i)) (sort_by kr_sort_reverse (kr_key i) (kr_candidates i))
            (mkK (uf_init (ki_n i)) [] [] (repeat [] (ki_n i))).

Definition kruskal (i : kinput) : option ktree :=
  if Nat.ltb (ki_root i) (ki_n i) then
    let s := kruskal_edges i in
    let '(par, ch, fin) := orient (ki_n i) (k_nb s) (ki_root i) in
    Some (mkKT (k_ids s) (k_edges s) par ch fin)
  else None.

(* ------------------------------------------------------------------ specification-level vocabulary *)
(* the admissible adjacency: what the property sentence calls "without crossing an excluded edge/face
   (or the border when asked)" *)
Definition adm (c : cfg) (a : arc) : bool :=
  match c_kind c with
  | KEdge => negb ((c_has_avoid c && a_forb a) || (c_avoid_bound c && negb (c_polyline c) && a_bord a))
  | _ => negb (a_forb a)
  end.

Definition adm_nbrs (c : cfg) (g : raw) (v : nat) : list nat :=
  flat_map (fun a => match a_tgt a with Some t => if adm c a then [t] else [] | None => [] end) (getl g v).

(* ------------------------------------------------------------------ roots as Python integers; compute() called again *)
(* the range test of the three __init__ (a root that is not an element is refused: no negative-index wrap-around) *)
Definition root_ok (k : kind) (r n : Z) : bool :=
  match k with KEdge => edge_root_ok r n | KFace => face_root_ok r n | KCell => cell_root_ok r n end.

Definition bfs_z (c : cfg) (g : raw) (root : Z) : option tree :=
  if root_ok (c_kind c) root (Z.of_nat (length g)) then bfs c g (Z.to_nat root) else None.

Definition tree_resets (k : kind) : bool :=
  match k with KEdge => edge_resets | KFace => face_resets | KCell => cell_resets end.

(* what one more compute() leaves in the tables: with the reset at its head, the fresh result; without it the
   children / edges of the new run would be appended to those of the previous one *)
Definition recompute (resets : bool) (prev new : tree) : tree :=
  if resets then new
  else mkTree (t_root new) (t_parent new)
              (map (fun p => fst p ++ snd p) (combine (t_children prev) (t_children new)))
              (t_edges prev ++ t_edges new) (t_seen new) (t_dist new) (t_done new).

Fixpoint again {A} (k : nat) (f : A -> A) (x : A) : A := match k with 0 => x | S k' => again k' f (f x) end.

(* obj() on an object that was already computed: __call__ runs compute() again (the tables become `new`: those of
   the object's CURRENT root / exclusion set), unless __call__ were conditional (they would stay `old`) *)
Definition call_again {A} (old new : A) : A := if call_runs_compute then new else old.

(* the object after `calls` calls of compute() (calls >= 1) *)
Definition bfs_calls (c : cfg) (g : raw) (root : Z) (calls : nat) : option tree :=
  match bfs_z c g root with
  | None => None
  | Some t => Some (again (calls - 1) (fun acc => call_again acc (recompute (tree_resets (c_kind c)) acc t)) t)
  end.

Definition forest_calls (k : kind) (polyline : bool) (g : raw) (calls : nat) : list tree :=
  let f := forest k polyline g in
  again (calls - 1) (fun acc => call_again acc (if forest_resets k then f else acc ++ f)) f.

Definition kruskal_z (i : kinput) (root : Z) : option ktree :=
  if edge_root_ok root (Z.of_nat (ki_n i)) then
    kruskal (mkKI (ki_n i) (ki_edges i) (ki_bord i) (ki_len i) (ki_custom i) (ki_mode_one i) (ki_mode_length i)
                  (ki_avoid_bound i) (ki_polyline i) (Z.to_nat root))
  else None.

Definition krecompute (resets : bool) (prev new : ktree) : ktree :=
  if resets then new
  else mkKT (kt_ids prev ++ kt_ids new) (kt_edges prev ++ kt_edges new) (kt_parent new) (kt_children new) (kt_done new).

Definition kruskal_calls (i : kinput) (root : Z) (calls : nat) : option ktree :=
  match kruskal_z i root with
  | None => None
  | Some t => Some (again (calls - 1) (fun acc => call_again acc (krecompute kr_resets acc t)) t)
  end.

(* ------------------------------------------------------------------ an object built WITHOUT its optional arguments *)
(* the configuration it runs with: no exclusion set, no avoid_boundary - provided the defaults in the signatures are
   None / False and no default is a mutable object shared between calls (then the configuration would depend on what
   earlier callers did to it: not a function of the call) *)
Definition default_cfg (k : kind) (polyline : bool) : option cfg :=
  if ctor_defaults_immutable && exclusion_defaults_are_none then Some (mkCfg k false false polyline) else None.
