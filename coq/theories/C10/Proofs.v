(* C10 - assembly of the property theorems (developments in Proofs_*.v) and non-vacuity examples *)
From Coq Require Import List Arith Bool ZArith Lia PeanoNat.
Import ListNotations.
Require Import MV.C10.Prelude MV.C10.Gen MV.C10.Model MV.C10.Run MV.C10.Proofs_Util MV.C10.Proofs_BFS
        MV.C10.Proofs_Refine MV.C10.Proofs_Trav MV.C10.Proofs_Forest MV.C10.Proofs_Check MV.C10.Proofs_Conn
        MV.C10.Proofs_Kruskal MV.C10.Proofs_Orient MV.C10.Proofs_KModel.

(* ------------------------------------------------------------ the decisions read off the source, in one place *)
Theorem generated_decisions :
  (* the three BFS loops: FIFO pop, skip when seen, update when dist[v]+1 < dist[nv], store dist[v]+1, dist[root]=0,
     derive children for every element that has a parent *)
  (forall k, let ops := ops_of k in
     l_popleft ops = true /\ (forall s, l_skip ops s = s) /\
     (forall dv dnv, l_better ops dv dnv = onat_lt (onat_add dv 1) dnv) /\
     (forall dv, l_newdist ops dv = onat_add dv 1) /\ l_root_dist ops = 0 /\
     (forall pn, l_child ops false pn = negb pn) /\ l_child ops true true = false) /\
  (* traverse: "BFS" pops the oldest entry, "DFS" the newest *)
  (trav_popleft (trav_is_bfs true) = true /\ trav_popleft (trav_is_bfs false) = false) /\
  (* Kruskal: ascending sort, accept iff not connected, weight selector, candidate filter, child filter *)
  (kr_sort_reverse = false /\ (forall b, kr_take b = negb b) /\
   (forall m1 m2 l c, kr_weight m1 m2 l c = if m1 then 1%Z else if m2 then l else c) /\
   (forall ab ip, kr_all_edges ab ip = negb ab || ip) /\ (forall b, kr_keep b = negb b) /\
   (forall b, kr_child_keep b = negb b)) /\
  (* forests: a new root for every element not yet visited; the face forest forwards its exclusion set, the edge
     and cell forests build plain trees (no exclusion, no avoid_boundary) *)
  ((forall b, forest_new_root b = negb b) /\ forest_forwards_exclusions KFace = true /\
   (forall k p, forest_cfg k p = mkCfg k false false p)) /\
  (* a starting element outside 0..n-1 is refused by the three constructors; compute() starts from empty tables *)
  ((forall k r n, root_ok k r n = (Z.leb 0 r && Z.ltb r n)) /\
   (forall k, tree_resets k = true) /\ kr_resets = true /\ (forall k, forest_resets k = true)) /\
  (* omitted optional arguments: defaults are None / False, none is a mutable object shared between calls *)
  (ctor_defaults_immutable = true /\ exclusion_defaults_are_none = true /\
   forall k p, default_cfg k p = Some (mkCfg k false false p)) /\
  (* obj() always runs compute() (no memoisation): after a reconfiguration the tables are the new ones *)
  (call_runs_compute = true /\ forall (old new : option tree), call_again old new = new).
Proof.
  split; [exact ops_spec|]. split; [split; reflexivity|]. split; [|split; [|split; [|split]]].
  - split; [reflexivity|]. split; [exact kr_take_spec|]. split; [exact kr_weight_spec|].
    split; [exact kr_all_edges_spec|]. split; [exact kr_keep_spec|exact kr_child_keep_spec].
  - split; [intros []; reflexivity|]. split; [reflexivity|]. intros [] p; reflexivity.
  - split; [intros [] r n; reflexivity|]. split; [intros []; reflexivity|]. split; [reflexivity|intros []; reflexivity].
  - split; [reflexivity|]. split; [reflexivity|]. intros k p; reflexivity.
  - split; [reflexivity|]. intros old new; reflexivity.
Qed.

(* ------------------------------------------------------------ acyclicity of the parent table, explicitly *)
Fixpoint climb (par : list (option nat)) (k : nat) (v : nat) : option nat :=
  match k with
  | 0 => Some v
  | S k' => match geto par v with Some p => climb par k' p | None => None end
  end.

Lemma climb_depth c g root t : bfs_tree_spec c g root t ->
  forall k v u, climb (t_parent t) k v = Some u -> depth_of t u + k = depth_of t v.
Proof.
  intros B. induction k as [|k IH]; intros v u; simpl.
  - intros E; inversion E; lia.
  - destruct (geto (t_parent t) v) as [p|] eqn:Ep; [|discriminate]. intros E.
    apply IH in E. destruct (bs_par _ _ _ _ B v p Ep) as (_ & _ & _ & D). lia.
Qed.

(* no element is its own proper ancestor, and every reached element climbs to the root in depth-many steps *)
Theorem bfs_acyclic c g root t : bfs_tree_spec c g root t ->
  (forall k v, climb (t_parent t) k v = Some v -> k = 0) /\
  (forall v, getb (t_seen t) v = true -> climb (t_parent t) (depth_of t v) v = Some root).
Proof.
  intros B. split.
  - intros k v E. apply (climb_depth _ _ _ _ B) in E. lia.
  - assert (H : forall d v, getb (t_seen t) v = true -> depth_of t v = d -> climb (t_parent t) d v = Some root).
    { induction d as [|d IH]; intros v Hv Hd.
      - simpl. destruct (Nat.eq_dec v root) as [->|Hne]; auto.
        destruct (bs_has_par _ _ _ _ B v Hv Hne) as [p Hp]. destruct (bs_par _ _ _ _ B v p Hp) as (_ & _ & _ & D). lia.
      - simpl. destruct (Nat.eq_dec v root) as [->|Hne].
        + destruct (bs_root_par _ _ _ _ B) as [_ D0]. lia.
        + destruct (bs_has_par _ _ _ _ B v Hv Hne) as [p Hp]. rewrite Hp.
          destruct (bs_par _ _ _ _ B v p Hp) as (_ & Sp & _ & D). apply IH; auto. lia. }
    intros v Hv. apply H; auto.
Qed.

(* ------------------------------------------------------------ traverse on the model's tree and on checked tables *)
Theorem traverse_bfs_tree c g root t : wf_raw g -> bfs c g root = Some t ->
  forall order_is_BFS, exists out,
    traverse order_is_BFS (t_root t) (t_children t) = (out, true) /\
    traversal_ok (fun v => getb (t_seen t) v = true) (t_parent t) out.
Proof.
  intros W E order. pose proof (bfs_correct _ _ _ _ W E) as B.
  destruct (bs_root _ _ _ _ B) as [-> _].
  apply (traverse_correct _ _ _ _ _ _ (bfs_tree_tables _ _ _ _ B)).
Qed.

Theorem traverse_checked c g root t par ch : wf_raw g -> bfs c g root = Some t ->
  is_bfs_tree (length g) (adm_nbrs c g) root (t_seen t) (t_dist t) par = true ->
  is_tree_table (length g) par ch = true ->
  bfs_parent_ok c g root t par /\
  forall order_is_BFS, exists out,
    traverse order_is_BFS root ch = (out, true) /\ traversal_ok (fun v => getb (t_seen t) v = true) par out.
Proof.
  intros W E H1 H2. pose proof (bfs_correct _ _ _ _ W E) as B. split.
  - now apply is_bfs_tree_sound.
  - intros order. apply (traverse_correct _ _ _ _ _ _ (checked_tables _ _ _ _ _ _ B H1 H2)).
Qed.

(* ------------------------------------------------------------ forests of the model *)
Lemma getl_map {A B} (f : list A -> list B) (g : list (list A)) v : f [] = [] -> getl (map f g) v = f (getl g v).
Proof. intros H. unfold getl. rewrite <- H at 1. apply map_nth. Qed.

Lemma wf_clear_forb g : wf_raw g -> wf_raw (clear_forb g).
Proof.
  intros W v a t Ha Ht. unfold clear_forb in *. rewrite map_length.
  rewrite getl_map in Ha by reflexivity. apply in_map_iff in Ha as [a0 [<- Ha0]]. simpl in Ht. eapply W; eauto.
Qed.

Lemma wf_forest_graph k g : wf_raw g -> wf_raw (forest_graph k g).
Proof. intros W. unfold forest_graph. destruct (forest_forwards_exclusions k); auto. now apply wf_clear_forb. Qed.

Theorem forest_correct k polyline g :
  wf_raw g ->
  let c := forest_cfg k polyline in
  let g' := forest_graph k g in
  sym_nb (adm_nbrs c g') ->
  let f := forest k polyline g in
  (forall t, In t f -> bfs_tree_spec c g' (t_root t) t) /\
  (forall v, v < length g' -> count_seen v f = 1) /\
  NoDup (forest_roots f) /\
  (forall t w, In t f -> conn (adm_nbrs c g') (t_root t) w -> t_root t <= w).
Proof.
  intros W c g' S. apply (forest_loop_correct c g' (wf_forest_graph k g W) S).
Qed.

(* ------------------------------------------------------------ non-vacuity *)
(* a square 0-1-2-3 with the diagonal 0-2 excluded, a pendant vertex 4 behind a border edge, an isolated vertex 5 *)
Definition ex_arc (t : nat) (forb bord : bool) := mkArc (Some t) forb bord.
Definition ex_g : raw :=
  [ [ex_arc 1 false false; ex_arc 3 false false; ex_arc 2 true false];
    [ex_arc 0 false false; ex_arc 2 false false];
    [ex_arc 1 false false; ex_arc 3 false false; ex_arc 0 true false];
    [ex_arc 2 false false; ex_arc 0 false false; ex_arc 4 false true];
    [ex_arc 3 false true];
    [] ].
Definition ex_c : cfg := mkCfg KEdge true true false.

Example ex_wf : wf_raw ex_g.
Proof.
  intros v a t Ha Ht. do 6 (destruct v as [|v]; [simpl in Ha; repeat (destruct Ha as [<-|Ha]; [inversion Ht; subst; simpl; lia|]); contradiction|]).
  unfold getl in Ha. rewrite nth_overflow in Ha by (simpl; lia). contradiction.
Qed.

Example ex_bfs : exists t, bfs ex_c ex_g 0 = Some t /\ t_parent t = [None; Some 0; Some 1; Some 0; None; None]
                           /\ t_edges t = [(0, 1); (1, 2); (0, 3)] /\ t_done t = true.
Proof. eexists. split; [vm_compute; reflexivity|]. repeat split. Qed.

Example ex_sym : sym_nb (adm_nbrs (forest_cfg KEdge false) (forest_graph KEdge ex_g)).
Proof.
  intros u v. do 6 (destruct u as [|u]; [vm_compute; intuition (subst; vm_compute; auto)|]).
  unfold adm_nbrs, getl. rewrite nth_overflow by (simpl; lia). simpl. contradiction.
Qed.

Example ex_forest : forest_roots (forest KEdge false ex_g) = [0; 5].
Proof. vm_compute. reflexivity. Qed.

Example ex_traverse :
  exists t, bfs ex_c ex_g 0 = Some t /\
            traverse true 0 (t_children t) = ([(0, None); (1, Some 0); (3, Some 0); (2, Some 1)], true) /\
            traverse false 0 (t_children t) = ([(0, None); (3, Some 0); (1, Some 0); (2, Some 1)], true).
Proof. eexists. split; [vm_compute; reflexivity|]. split; vm_compute; reflexivity. Qed.

(* the hypothesis of C10_traverse is met by the tables of that tree *)
Example ex_tree_tables :
  exists t, bfs ex_c ex_g 0 = Some t /\
            tree_tables 6 0 (fun v => getb (t_seen t) v = true) (t_parent t) (t_children t) (depth_of t).
Proof.
  destruct (bfs_some ex_c ex_g 0) as [t Ht]; [simpl; lia|]. exists t. split; auto.
  apply (bfs_tree_tables ex_c ex_g 0 t). now apply bfs_correct; [apply ex_wf|].
Qed.

(* the checkers accept another breadth-first tree of the same component (vertex 2 hung below 3 instead of 1) *)
Example ex_checkers :
  exists t, bfs ex_c ex_g 0 = Some t /\
    is_bfs_tree 6 (adm_nbrs ex_c ex_g) 0 (t_seen t) (t_dist t) [None; Some 0; Some 3; Some 0; None; None] = true /\
    is_tree_table 6 [None; Some 0; Some 3; Some 0; None; None] [[3; 1]; []; []; [2]; []; []] = true /\
    is_edge_list 6 [None; Some 0; Some 3; Some 0; None; None] [(2, 3); (0, 1); (0, 3)] = true.
Proof. eexists. split; [vm_compute; reflexivity|]. repeat split; vm_compute; reflexivity. Qed.

(* a square with a diagonal, custom weights: the forest is {1-2, 0-3, 2-3} of weight 6 *)
Definition ex_ki : kinput :=
  mkKI 4 [(0, 1); (1, 2); (2, 3); (0, 3); (0, 2)] [true; true; true; true; false]
       [1; 1; 1; 1; 2]%Z [4; 1; 3; 2; 5]%Z false false false false 0.

Example ex_kin_ok : kin_ok ex_ki.
Proof. intros e He. simpl in He. do 5 (destruct e as [|e]; [simpl; lia|]). lia. Qed.

Example ex_kruskal :
  exists kt, kruskal ex_ki = Some kt /\ kt_edges kt = [(1, 2); (0, 3); (2, 3)] /\
             kt_parent kt = [None; Some 2; Some 3; Some 0] /\ sumz (kr_key ex_ki) (kt_ids kt) = 6%Z.
Proof. eexists. split; [vm_compute; reflexivity|]. repeat split. Qed.

(* a heavier competitor 0-1, 1-2, 2-3 (weight 8) meets the hypotheses of the minimality theorem *)
Example ex_competitor :
  let ed := edge_at (ki_edges ex_ki) in
  idforest ed [0; 1; 2] /\ incl [0; 1; 2] (kr_candidates ex_ki) /\
  (forall u v, econn (eds ed (kr_candidates ex_ki)) u v -> econn (eds ed [0; 1; 2]) u v) /\
  sumz (kr_key ex_ki) [0; 1; 2] = 8%Z.
Proof.
  destruct (is_spanning_forest_sound (ki_edges ex_ki) 4 (kr_candidates ex_ki) [(0, 1); (1, 2); (2, 3)] (cand_in ex_ki ex_kin_ok))
    as (ids & Hi & _ & _ & Hincl & HF & Hsp); [vm_compute; reflexivity|].
  vm_compute in Hi. inversion Hi; subst ids. cbv zeta. repeat split; auto. intros u v. apply Hsp.
Qed.

(* ------------------------------------------------------------ statements exported by Props.v *)
Lemma bfs_defined c g root :
  (root < length g -> exists t, bfs c g root = Some t) /\ (length g <= root -> bfs c g root = None).
Proof. split; [apply bfs_some | apply bfs_none]. Qed.

Lemma kruskal_minimal_model i kt : kin_ok i -> kruskal i = Some kt ->
  forall F, idforest (edge_at (ki_edges i)) F -> incl F (kr_candidates i) ->
            (forall u v, econn (eds (edge_at (ki_edges i)) (kr_candidates i)) u v ->
                         econn (eds (edge_at (ki_edges i)) F) u v) ->
            (sumz (kr_key i) (kt_ids kt) <= sumz (kr_key i) F)%Z.
Proof. intros K E. exact (ks_min i kt (kruskal_correct i kt K E)). Qed.

Lemma forest_iff_bridges (ed : nat -> nat * nat) T :
  idforest ed T <->
  (forall l1 e l2, T = l1 ++ e :: l2 -> ~ econn (eds ed (l1 ++ l2)) (fst (ed e)) (snd (ed e))).
Proof. split; [apply idforest_bridge | apply bridges_idforest]. Qed.

(* ------------------------------------------------------------ roots as Python integers; compute() called again *)
Lemma root_ok_spec k r n : root_ok k r n = (Z.leb 0 r && Z.ltb r n).
Proof. destruct k; reflexivity. Qed.

(* all roots: exactly the integers 0..n-1 are accepted (a negative index is refused, not wrapped around) *)
Lemma bfs_z_spec c g r :
  ((0 <= r < Z.of_nat (length g))%Z -> bfs_z c g r = bfs c g (Z.to_nat r) /\ exists t, bfs_z c g r = Some t) /\
  (~ (0 <= r < Z.of_nat (length g))%Z -> bfs_z c g r = None).
Proof.
  unfold bfs_z. rewrite root_ok_spec. split; intros H.
  - destruct (Z.leb_spec 0 r), (Z.ltb_spec r (Z.of_nat (length g))); try lia. simpl. split; auto.
    apply bfs_some. lia.
  - destruct (Z.leb_spec 0 r), (Z.ltb_spec r (Z.of_nat (length g))); simpl; auto. lia.
Qed.

Lemma again_const {A} k (t x : A) : again k (fun _ => t) x = match k with 0 => x | S _ => t end.
Proof. revert x. induction k as [|k IH]; intros x; simpl; auto. rewrite IH. destruct k; reflexivity. Qed.

Lemma again_ext {A} k (f h : A -> A) x : (forall y, f y = h y) -> again k f x = again k h x.
Proof. intros E. revert x. induction k as [|k IH]; intros x; simpl; auto. rewrite E. apply IH. Qed.

(* obj() runs compute() again: after a reconfiguration the tables are those of the new configuration *)
Lemma call_again_spec {A} (old new : A) : call_again old new = new.
Proof. reflexivity. Qed.

(* calling compute() / obj() again leaves the tables of one computation *)
Lemma bfs_calls_idem c g r calls : bfs_calls c g r calls = bfs_z c g r.
Proof.
  unfold bfs_calls. destruct (bfs_z c g r) as [t|]; auto.
  rewrite (again_ext _ _ (fun _ => t)).
  - rewrite again_const. now destruct (calls - 1).
  - intros y. rewrite call_again_spec. destruct (c_kind c); reflexivity.
Qed.

Lemma forest_calls_idem k p g calls : forest_calls k p g calls = forest k p g.
Proof.
  unfold forest_calls. rewrite (again_ext _ _ (fun _ => forest k p g)).
  - rewrite again_const. now destruct (calls - 1).
  - intros y. rewrite call_again_spec. destruct k; reflexivity.
Qed.

Lemma kruskal_calls_idem i r calls : kruskal_calls i r calls = kruskal_z i r.
Proof.
  unfold kruskal_calls. destruct (kruskal_z i r) as [t|]; auto.
  rewrite (again_ext _ _ (fun _ => t)).
  - rewrite again_const. now destruct (calls - 1).
  - intros y. rewrite call_again_spec. reflexivity.
Qed.

Lemma recompute_idem :
  (forall c g r calls, bfs_calls c g r calls = bfs_z c g r) /\
  (forall k p g calls, forest_calls k p g calls = forest k p g) /\
  (forall i r calls, kruskal_calls i r calls = kruskal_z i r).
Proof. split; [exact bfs_calls_idem|]. split; [exact forest_calls_idem|exact kruskal_calls_idem]. Qed.

Lemma kruskal_none i : ki_n i <= ki_root i -> kruskal i = None.
Proof. intros H. unfold kruskal. destruct (Nat.ltb_spec (ki_root i) (ki_n i)); [lia|reflexivity]. Qed.

Lemma kruskal_defined i :
  (ki_root i < ki_n i -> exists kt, kruskal i = Some kt) /\ (ki_n i <= ki_root i -> kruskal i = None).
Proof. split; [apply kruskal_some | apply kruskal_none]. Qed.

Lemma kruskal_z_spec i r :
  ((0 <= r < Z.of_nat (ki_n i))%Z -> exists kt, kruskal_z i r = Some kt) /\
  (~ (0 <= r < Z.of_nat (ki_n i))%Z -> kruskal_z i r = None).
Proof.
  unfold kruskal_z. change (edge_root_ok r (Z.of_nat (ki_n i))) with (root_ok KEdge r (Z.of_nat (ki_n i))).
  rewrite root_ok_spec. split; intros H.
  - destruct (Z.leb_spec 0 r), (Z.ltb_spec r (Z.of_nat (ki_n i))); try lia. simpl. apply kruskal_some. simpl. lia.
  - destruct (Z.leb_spec 0 r), (Z.ltb_spec r (Z.of_nat (ki_n i))); simpl; auto. lia.
Qed.

(* ------------------------------------------------------------ the symmetry hypothesis is checked on every observed mesh *)
Lemma symb_sound c g : symb (length g) (adm_nbrs c g) = true -> sym_nb (adm_nbrs c g).
Proof.
  unfold symb. rewrite forallb_forall. intros H u v Hv.
  destruct (Nat.lt_ge_cases u (length g)) as [Hu|Hu].
  - specialize (H u (proj2 (in_seq0 _ _) Hu)). rewrite forallb_forall in H. specialize (H v Hv).
    apply andb_true_iff in H as [_ H]. now apply memn_In.
  - unfold adm_nbrs, getl in Hv. rewrite nth_overflow in Hv by lia. contradiction.
Qed.

(* ------------------------------------------------------------ traverse on the oriented Kruskal tree, also with the
   children lists in another order (Python set iteration order) *)
Lemma same_set_spec a b : same_set a b = true -> NoDup a /\ NoDup b /\ forall x, In x a <-> In x b.
Proof.
  unfold same_set. intros H. apply andb_true_iff in H as [H H4]. apply andb_true_iff in H as [H H3].
  apply andb_true_iff in H as [H1 H2].
  apply Nat.eqb_eq in H1. apply nodupb_NoDup in H2, H3. rewrite forallb_forall in H4.
  assert (Hincl : incl a b) by (intros x Hx; apply memn_In; auto).
  assert (Hb : incl b a) by (apply NoDup_length_incl; auto; lia).
  repeat split; auto.
Qed.

Lemma tree_tables_perm n root inT par ch ch' dep :
  tree_tables n root inT par ch dep -> length ch' = n ->
  (forall v, v < n -> same_set (getl ch v) (getl ch' v) = true) ->
  tree_tables n root inT par ch' dep.
Proof.
  intros T L H. constructor; try apply T; auto.
  - intros p x Hp. destruct (same_set_spec _ _ (H p (tt_range _ _ _ _ _ _ T p Hp))) as (_ & _ & E). rewrite <- E.
    now apply (tt_ch _ _ _ _ _ _ T).
  - intros p Hp. now destruct (same_set_spec _ _ (H p (tt_range _ _ _ _ _ _ T p Hp))) as (_ & N & _).
Qed.

Lemma kruskal_traverse i kt ch : kruskal_spec i kt -> length ch = ki_n i ->
  (forall v, v < ki_n i -> same_set (getl (kt_children kt) v) (getl ch v) = true) ->
  forall order_is_BFS, exists out,
    traverse order_is_BFS (ki_root i) ch = (out, true) /\
    traversal_ok (fun v => econn (eds (edge_at (ki_edges i)) (kt_ids kt)) (ki_root i) v) (kt_parent kt) out.
Proof.
  intros K L H order. destruct (ks_orient _ _ K) as (dep & TT & _).
  apply (traverse_correct _ _ _ _ _ _ (tree_tables_perm _ _ _ _ _ _ _ TT L H)).
Qed.

(* ------------------------------------------------------------ forest.traverse: every element exactly once *)
Lemma NoDup_flat_map {A} (G : A -> list nat) (p : A -> nat -> bool) l :
  (forall x, In x l -> NoDup (G x)) ->
  (forall x v, In x l -> (In v (G x) <-> p x v = true)) ->
  (forall v, length (filter (fun x => p x v) l) <= 1) ->
  NoDup (flat_map G l).
Proof.
  induction l as [|x l IH]; intros H1 H2 H3; simpl; [constructor|].
  apply NoDup_app_iff. repeat split.
  - apply H1. now left.
  - apply IH.
    + intros y Hy. apply H1. now right.
    + intros y v Hy. apply H2. now right.
    + intros v. specialize (H3 v). simpl in H3. destruct (p x v); simpl in H3; lia.
  - intros v Hv Hin. apply in_flat_map in Hin as [y [Hy Hvy]].
    apply (H2 x v (or_introl eq_refl)) in Hv. apply (H2 y v (or_intror Hy)) in Hvy.
    specialize (H3 v). simpl in H3. rewrite Hv in H3. simpl in H3.
    assert (0 < length (filter (fun x0 => p x0 v) l)).
    { assert (In y (filter (fun x0 => p x0 v) l)) by (apply filter_In; auto).
      destruct (filter (fun x0 => p x0 v) l); [contradiction|simpl; lia]. }
    lia.
Qed.

Theorem forest_traverse_correct k polyline g order_is_BFS :
  wf_raw g ->
  let c := forest_cfg k polyline in
  let g' := forest_graph k g in
  sym_nb (adm_nbrs c g') ->
  let out := forest_traverse order_is_BFS (forest k polyline g) in
  NoDup (map fst out) /\ (forall v, In v (map fst out) <-> v < length g').
Proof.
  intros W c g' S out.
  destruct (forest_correct k polyline g W S) as (Hspec & Hcnt & _ & _). fold c g' in Hspec, Hcnt.
  set (f := forest k polyline g) in *.
  set (G := fun t => map fst (fst (traverse order_is_BFS (t_root t) (t_children t)))).
  assert (Eout : map fst out = flat_map G f).
  { unfold out, forest_traverse. clear. induction f as [|t f IH]; simpl; auto. now rewrite map_app, IH. }
  assert (HG : forall t, In t f -> NoDup (G t) /\ forall v, In v (G t) <-> getb (t_seen t) v = true).
  { intros t Ht. pose proof (Hspec t Ht) as B.
    destruct (traverse_correct _ _ _ _ _ _ (bfs_tree_tables _ _ _ _ B) order_is_BFS) as (o & Eo & N & A & _).
    unfold G. rewrite Eo. simpl. split; auto. }
  assert (Hle : forall v, count_seen v f <= 1).
  { intros v. destruct (Nat.lt_ge_cases v (length g')) as [Hv|Hv]; [rewrite Hcnt; auto|].
    unfold count_seen. rewrite filter_none; [simpl; lia|]. intros t Ht.
    destruct (getb (t_seen t) v) eqn:E; auto. apply getb_lt in E.
    destruct (bs_lens _ _ _ _ (Hspec t Ht)) as (_ & _ & L3). lia. }
  rewrite Eout. split.
  - apply (NoDup_flat_map G (fun t v => getb (t_seen t) v) f).
    + intros t Ht. now destruct (HG t Ht).
    + intros t v Ht. now destruct (HG t Ht) as [_ A].
    + exact Hle.
  - intros v. rewrite in_flat_map. split.
    + intros [t [Ht Hv]]. apply (HG t Ht) in Hv. apply getb_lt in Hv.
      destruct (bs_lens _ _ _ _ (Hspec t Ht)) as (_ & _ & L3). lia.
    + intros Hv. specialize (Hcnt v Hv). unfold count_seen in Hcnt.
      destruct (filter (fun t => getb (t_seen t) v) f) as [|t r] eqn:E; [discriminate|].
      assert (Hin : In t (filter (fun t => getb (t_seen t) v) f)) by (rewrite E; simpl; auto).
      apply filter_In in Hin as [Ht Hs]. exists t. split; auto. now apply (HG t Ht).
Qed.

(* ------------------------------------------------------------ more non-vacuity *)
(* three faces: 0 and 1 share an edge (slot excluded in the second variant), 2 is apart *)
Definition ex_faces (forb : bool) : raw :=
  [ [mkArc (Some 1) forb false; mkArc None false false; mkArc None false false];
    [mkArc None false false; mkArc (Some 0) forb false; mkArc None false false];
    [mkArc None false false; mkArc None false false; mkArc None false false] ].

Example ex_face_forest :
  forest_roots (forest KFace false (ex_faces false)) = [0; 2] /\
  forest_roots (forest KFace false (ex_faces true)) = [0; 1; 2] /\
  symb 3 (adm_nbrs (forest_cfg KFace false) (forest_graph KFace (ex_faces true))) = true /\
  map fst (forest_traverse false (forest KFace false (ex_faces false))) = [0; 1; 2].
Proof. repeat split; vm_compute; reflexivity. Qed.

Example ex_roots :
  bfs_z ex_c ex_g (-1) = None /\ bfs_z ex_c ex_g 6 = None /\ bfs_z ex_c ex_g 5 <> None /\
  kruskal_z ex_ki (-4) = None /\ bfs_calls ex_c ex_g 0 3 = bfs ex_c ex_g 0.
Proof. repeat split; try (vm_compute; reflexivity). vm_compute. discriminate. Qed.
