(* C10 - assembly of the property theorems (see Proofs_*.v for the developments) *)
From Coq Require Import List Arith Bool ZArith Lia.
Import ListNotations.
Require Import MV.C10.Prelude MV.C10.Gen MV.C10.Model MV.C10.Run.

Lemma avoid_edge_spec : forall ha ia ab ip ob,
  avoid_edge ha ia ab ip ob = (ha && ia) || (ab && negb ip && ob).
Proof. intros [] [] [] [] []; reflexivity. Qed.
