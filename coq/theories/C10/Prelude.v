(* C10 - types shared by the generated part (Gen.v) and the hand-written model (Model.v).
   No proofs. *)
From Coq Require Import List Arith Bool ZArith.
Import ListNotations.

(* What `put_neighbours_in_queue` looks at for one neighbour slot of an element:
   - edge trees : one slot per entry nv of vertex_to_vertices(v): target nv, "edge_id(v,nv) in avoid_edges",
                  "mesh.is_edge_on_border(v,nv)"
   - face trees : one slot per edge e of face_to_edges(f): target opposite_face(a,b,f) (None on the border),
                  "e in forbidden_edges"
   - cell trees : one slot per face F of cell_to_face(c): target other_face_side(c,F), "F in forbidden_faces" *)
Record arc := mkArc { a_tgt : option nat; a_forb : bool; a_bord : bool }.

Inductive kind := KEdge | KFace | KCell.

Record cfg := mkCfg {
  c_kind : kind;
  c_has_avoid : bool;     (* edge trees: self._avoidedges is not None *)
  c_avoid_bound : bool;   (* edge trees: self._avoidbound *)
  c_polyline : bool       (* isinstance(self.mesh, PolyLine) *)
}.

(* float("inf") + 1 < x style comparisons on distances: None is +infinity *)
Definition onat_lt (a b : option nat) : bool :=
  match a, b with
  | Some x, Some y => Nat.ltb x y
  | Some _, None => true
  | None, _ => false
  end.
Definition onat_le (a b : option nat) : bool :=
  match a, b with
  | Some x, Some y => Nat.leb x y
  | _, None => true
  | None, Some _ => false
  end.
Definition onat_gt (a b : option nat) : bool := onat_lt b a.
Definition onat_ge (a b : option nat) : bool := onat_le b a.
Definition onat_add (a : option nat) (k : nat) : option nat := option_map (fun x => x + k) a.
Definition onat_isinf (a : option nat) : bool := match a with None => true | Some _ => false end.

(* the pieces of one BFS (three copies in the source: edge_sp / face_sp / cell_sp) *)
Record loop_ops := mkLoop {
  (* body of the `for` of put_neighbours_in_queue: is the slot pushed, as a function of
     "slot is forbidden", "target is None", "seen[target]", "_avoid_edge(v, target)" *)
  l_slot : bool -> bool -> bool -> bool -> bool;
  l_popleft : bool;                                   (* queue.popleft() (true) or queue.pop() (false) *)
  l_skip : bool -> bool;                              (* `if seen[nv]: continue` *)
  l_better : option nat -> option nat -> bool;        (* `dist[v] + 1 < dist[nv]` as a function of dist[v], dist[nv] *)
  l_newdist : option nat -> option nat;               (* value stored in dist[nv], function of dist[v] *)
  l_root_dist : nat;                                  (* dist[root] = 0 *)
  (* body of the children/edges derivation loop: is (p,v) appended, as a function of
     "isinf(dist[v])" and "parent[v] is None" *)
  l_child : bool -> bool -> bool
}.

Definition keyify2 (a b : nat) : nat * nat := if Nat.leb a b then (a, b) else (b, a).
