(* C10 - connectivity of edge lists, the abstract partition (class labels), forests built by bridging
   additions, and the counting facts behind the rank argument:
     L1  a forest with k edges has n - k classes,
     L2  a forest whose edges lie inside the classes of another edge set H has at most n - #classes(H) edges. *)
From Coq Require Import List Arith Bool Lia PeanoNat Permutation.
Import ListNotations.
Require Import MV.C10.Prelude MV.C10.Model MV.C10.Proofs_Util.

Definition edge := (nat * nat)%type.

Inductive econn (L : list edge) : nat -> nat -> Prop :=
| ec_refl : forall u, econn L u u
| ec_edge : forall a b, In (a, b) L -> econn L a b
| ec_sym : forall u v, econn L u v -> econn L v u
| ec_trans : forall u v w, econn L u v -> econn L v w -> econn L u w.

Lemma econn_mono L L' : incl L L' -> forall u v, econn L u v -> econn L' u v.
Proof.
  intros H u v E. induction E.
  - apply ec_refl.
  - apply ec_edge. auto.
  - now apply ec_sym.
  - eapply ec_trans; eauto.
Qed.

Lemma econn_nil u v : econn [] u v -> u = v.
Proof. induction 1; auto; try congruence. contradiction. Qed.

(* adding one edge *)
Lemma econn_cons a b L u v :
  econn ((a, b) :: L) u v <->
  econn L u v \/ (econn L u a /\ econn L b v) \/ (econn L u b /\ econn L a v).
Proof.
  split.
  - induction 1 as [u|x y Hin|u v _ IH|u v w _ IH1 _ IH2].
    + left. apply ec_refl.
    + destruct Hin as [E|Hin].
      * inversion E; subst. right. left. split; apply ec_refl.
      * left. now apply ec_edge.
    + destruct IH as [H|[[H1 H2]|[H1 H2]]].
      * left. now apply ec_sym.
      * right. right. split; now apply ec_sym.
      * right. left. split; now apply ec_sym.
    + destruct IH1 as [H|[[H1 H2]|[H1 H2]]], IH2 as [K|[[K1 K2]|[K1 K2]]].
      * left. eapply ec_trans; eauto.
      * right. left. split; auto. eapply ec_trans; eauto.
      * right. right. split; auto. eapply ec_trans; eauto.
      * right. left. split; auto. eapply ec_trans; eauto.
      * right. left. split; auto.
      * left. eapply ec_trans; [exact H1|]. exact K2.
      * right. right. split; auto. eapply ec_trans; eauto.
      * left. eapply ec_trans; [exact H1|]. exact K2.
      * right. right. split; auto.
  - assert (M : forall x y, econn L x y -> econn ((a, b) :: L) x y).
    { apply econn_mono. intros e He. right. exact He. }
    assert (Eab : econn ((a, b) :: L) a b) by (apply ec_edge; left; reflexivity).
    intros [H|[[H1 H2]|[H1 H2]]].
    + auto.
    + eapply ec_trans; [apply M, H1|]. eapply ec_trans; [exact Eab|]. apply M, H2.
    + eapply ec_trans; [apply M, H1|]. eapply ec_trans; [apply ec_sym, Eab|]. apply M, H2.
Qed.

Lemma econn_perm L L' : (forall e, In e L <-> In e L') -> forall u v, econn L u v <-> econn L' u v.
Proof. intros H u v. split; apply econn_mono; intros e He; apply H; auto. Qed.

Lemma econn_snoc a b L u v :
  econn (L ++ [(a, b)]) u v <->
  econn L u v \/ (econn L u a /\ econn L b v) \/ (econn L u b /\ econn L a v).
Proof.
  rewrite <- econn_cons. apply econn_perm. intros e. rewrite in_app_iff. simpl. tauto.
Qed.

(* ------------------------------------------------------------ class labels *)
Definition labs_ok (n : nat) (L : list edge) (lab : list nat) : Prop :=
  length lab = n /\
  (forall u, u < n -> uf_label lab u < n /\ uf_label lab (uf_label lab u) = uf_label lab u) /\
  (forall u v, u < n -> v < n -> (uf_label lab u = uf_label lab v <-> econn L u v)).

Definition edges_in (n : nat) (L : list edge) : Prop := forall a b, In (a, b) L -> a < n /\ b < n.

Lemma uf_label_init n u : u < n -> uf_label (uf_init n) u = u.
Proof. intros H. unfold uf_label, uf_init. rewrite seq_nth; auto. Qed.

Lemma labs_ok_init n : labs_ok n [] (uf_init n).
Proof.
  unfold labs_ok. split; [apply seq_length|]. split.
  - intros u Hu. rewrite !uf_label_init; auto.
  - intros u v Hu Hv. rewrite !uf_label_init; auto. split.
    + intros ->. apply ec_refl.
    + apply econn_nil.
Qed.

Lemma uf_label_union lab a b u : u < length lab ->
  uf_label (uf_union lab a b) u = if Nat.eqb (uf_label lab u) (uf_label lab a) then uf_label lab b else uf_label lab u.
Proof.
  intros H. unfold uf_union. cbv zeta. unfold uf_label at 1.
  set (f := fun x => if x =? uf_label lab a then uf_label lab b else x).
  rewrite (nth_indep _ u (f u)) by now rewrite map_length.
  rewrite map_nth. reflexivity.
Qed.

Lemma labs_ok_union n L lab a b :
  labs_ok n L lab -> a < n -> b < n -> labs_ok n (L ++ [(a, b)]) (uf_union lab a b).
Proof.
  intros (Hl & Hr & Hc) Ha Hb. unfold labs_ok.
  assert (Hlen : length (uf_union lab a b) = n) by (unfold uf_union; now rewrite map_length).
  split; auto.
  assert (U : forall u, u < n -> uf_label (uf_union lab a b) u =
                                 if Nat.eqb (uf_label lab u) (uf_label lab a) then uf_label lab b else uf_label lab u).
  { intros u Hu. apply uf_label_union. lia. }
  split.
  - intros u Hu. rewrite (U u Hu).
    destruct (Hr u Hu) as [R1 R2]. destruct (Hr b Hb) as [B1 B2].
    destruct (Nat.eqb_spec (uf_label lab u) (uf_label lab a)) as [E|E].
    + split; auto. rewrite (U _ B1), B2.
      destruct (Nat.eqb_spec (uf_label lab b) (uf_label lab a)); auto.
    + split; auto. rewrite (U _ R1), R2.
      destruct (Nat.eqb_spec (uf_label lab u) (uf_label lab a)); [contradiction|auto].
  - intros u v Hu Hv. rewrite (U u Hu), (U v Hv), econn_snoc.
    rewrite <- (Hc u v Hu Hv), <- (Hc u a Hu Ha), <- (Hc b v Hb Hv), <- (Hc u b Hu Hb), <- (Hc a v Ha Hv).
    destruct (Nat.eqb_spec (uf_label lab u) (uf_label lab a)), (Nat.eqb_spec (uf_label lab v) (uf_label lab a));
      intuition congruence.
Qed.

(* ------------------------------------------------------------ number of classes = number of distinct labels *)
Definition nclass (n : nat) (lab : list nat) : nat := length (nodup Nat.eq_dec (map (uf_label lab) (seq 0 n))).

Lemma nclass_init n : nclass n (uf_init n) = n.
Proof.
  unfold nclass. rewrite (map_ext_in _ (fun x => x)).
  - rewrite map_id, nodup_fixed_point; [apply seq_length | apply seq_NoDup].
  - intros u Hu. apply uf_label_init. now apply in_seq0.
Qed.

Lemma NoDup_set_eq_length {A} (l l' : list A) :
  NoDup l -> NoDup l' -> (forall x, In x l <-> In x l') -> length l = length l'.
Proof.
  intros H1 H2 H. apply Nat.le_antisymm; apply NoDup_incl_length; auto; intros x Hx; apply H; auto.
Qed.

(* merging two different classes removes exactly one label *)
Lemma nclass_union n L lab a b :
  labs_ok n L lab -> a < n -> b < n -> uf_label lab a <> uf_label lab b ->
  S (nclass n (uf_union lab a b)) = nclass n lab.
Proof.
  intros (Hl & Hr & Hc) Ha Hb Hne. unfold nclass.
  set (D := nodup Nat.eq_dec (map (uf_label lab) (seq 0 n))).
  set (D' := nodup Nat.eq_dec (map (uf_label (uf_union lab a b)) (seq 0 n))).
  change (length (uf_label lab a :: D') = length D).
  assert (InD : forall x, In x D <-> exists u, u < n /\ uf_label lab u = x).
  { intros x. unfold D. rewrite nodup_In, in_map_iff. split; intros [u [H1 H2]]; exists u.
    - apply in_seq0 in H2. auto.
    - split; [tauto|]. apply in_seq0. tauto. }
  assert (InD' : forall x, In x D' <-> exists u, u < n /\ uf_label (uf_union lab a b) u = x).
  { intros x. unfold D'. rewrite nodup_In, in_map_iff. split; intros [u [H1 H2]]; exists u.
    - apply in_seq0 in H2. auto.
    - split; [tauto|]. apply in_seq0. tauto. }
  assert (U : forall u, u < n -> uf_label (uf_union lab a b) u =
                                 if Nat.eqb (uf_label lab u) (uf_label lab a) then uf_label lab b else uf_label lab u).
  { intros u Hu. apply uf_label_union. lia. }
  assert (InD'2 : forall x, In x D' <-> In x D /\ x <> uf_label lab a).
  { intros x. rewrite InD', InD. split.
    - intros [u [Hu E]]. rewrite (U u Hu) in E.
      destruct (Nat.eqb_spec (uf_label lab u) (uf_label lab a)) as [E1|E1].
      + subst x. split; eauto.
      + subst x. split; eauto.
    - intros [[u [Hu E]] Hx]. exists u. split; auto. rewrite (U u Hu).
      destruct (Nat.eqb_spec (uf_label lab u) (uf_label lab a)); congruence. }
  apply NoDup_set_eq_length.
  - constructor; [|apply NoDup_nodup]. rewrite InD'2. tauto.
  - apply NoDup_nodup.
  - intros x. simpl. rewrite InD'2. split.
    + intros [<-|[H _]]; auto. apply InD. eauto.
    + intros H. destruct (Nat.eq_dec (uf_label lab a) x); auto.
Qed.

(* a finer partition has at least as many classes *)
Lemma nclass_refine n L1 lab1 L2 lab2 :
  labs_ok n L1 lab1 -> labs_ok n L2 lab2 ->
  (forall u v, econn L1 u v -> econn L2 u v) ->
  nclass n lab2 <= nclass n lab1.
Proof.
  intros (Hl1 & Hr1 & Hc1) (Hl2 & Hr2 & Hc2) Hsub. unfold nclass.
  set (D1 := nodup Nat.eq_dec (map (uf_label lab1) (seq 0 n))).
  set (D2 := nodup Nat.eq_dec (map (uf_label lab2) (seq 0 n))).
  rewrite <- (map_length (uf_label lab2) D1).
  apply NoDup_incl_length; [apply NoDup_nodup|].
  intros y Hy. unfold D2 in Hy. rewrite nodup_In, in_map_iff in Hy. destruct Hy as [u [<- Hu]].
  apply in_seq0 in Hu. apply in_map_iff. exists (uf_label lab1 u). split.
  - destruct (Hr1 u Hu) as [R1 R2]. apply Hc2; auto. apply Hsub. apply Hc1; auto.
  - unfold D1. rewrite nodup_In, in_map_iff. exists u. split; auto. now apply in_seq0.
Qed.

(* ------------------------------------------------------------ forests, by ids into an edge table *)
Section Ids.
Variable ed : nat -> edge.      (* edge id -> (a, b) *)
Variable n : nat.

Definition eds (ids : list nat) : list edge := map ed ids.

(* built by bridging additions: every edge joins two classes of the earlier ones *)
Inductive idforest : list nat -> Prop :=
| idf_nil : idforest []
| idf_snoc : forall T e, idforest T -> ~ econn (eds T) (fst (ed e)) (snd (ed e)) -> idforest (T ++ [e]).

Definition ids_in (ids : list nat) : Prop := forall e, In e ids -> fst (ed e) < n /\ snd (ed e) < n.

Lemma eds_app a b : eds (a ++ b) = eds a ++ eds b.
Proof. apply map_app. Qed.

Lemma eds_snoc T e : eds (T ++ [e]) = eds T ++ [(fst (ed e), snd (ed e))].
Proof. rewrite eds_app. simpl. now destruct (ed e). Qed.

Lemma idforest_filter (p : nat -> bool) T : idforest T -> idforest (filter p T).
Proof.
  induction 1 as [|T e HT IH Hn]; simpl; [constructor|].
  rewrite filter_app. simpl. destruct (p e); [|now rewrite app_nil_r].
  constructor; auto. intros H. apply Hn. revert H. apply econn_mono.
  intros x Hx. unfold eds in *. apply in_map_iff in Hx as [i [<- Hi]]. apply in_map. apply filter_In in Hi. tauto.
Qed.

(* every edge of a forest is a bridge: removing it separates its end points (order-free acyclicity) *)
Lemma idforest_bridge T : idforest T ->
  forall l1 e l2, T = l1 ++ e :: l2 -> ~ econn (eds (l1 ++ l2)) (fst (ed e)) (snd (ed e)).
Proof.
  induction 1 as [|T x HT IH Hn]; intros l1 e l2 E.
  - destruct l1; discriminate.
  - destruct l2 as [|y l2' _] using rev_ind.
    + apply app_inj_tail in E as [-> ->]. now rewrite app_nil_r.
    + rewrite app_comm_cons, app_assoc in E. apply app_inj_tail in E as [-> ->].
      rewrite app_assoc, eds_snoc. intros H. apply econn_snoc in H as [H|[[H1 H2]|[H1 H2]]].
      * eapply IH; eauto.
      * apply Hn. rewrite eds_app. simpl.
        assert (M : forall u v, econn (eds (l1 ++ l2')) u v -> econn (eds l1 ++ ed e :: eds l2') u v).
        { apply econn_mono. intros z Hz. rewrite eds_app in Hz. apply in_app_or in Hz as [?|?]; apply in_or_app; simpl; auto. }
        assert (Ee : econn (eds l1 ++ ed e :: eds l2') (fst (ed e)) (snd (ed e))).
        { apply ec_edge. apply in_or_app. right. left. now destruct (ed e). }
        eapply ec_trans; [apply ec_sym, M, H1|]. eapply ec_trans; [exact Ee|]. apply ec_sym, M, H2.
      * apply Hn. rewrite eds_app. simpl.
        assert (M : forall u v, econn (eds (l1 ++ l2')) u v -> econn (eds l1 ++ ed e :: eds l2') u v).
        { apply econn_mono. intros z Hz. rewrite eds_app in Hz. apply in_app_or in Hz as [?|?]; apply in_or_app; simpl; auto. }
        assert (Ee : econn (eds l1 ++ ed e :: eds l2') (fst (ed e)) (snd (ed e))).
        { apply ec_edge. apply in_or_app. right. left. now destruct (ed e). }
        eapply ec_trans; [apply M, H2|]. eapply ec_trans; [apply ec_sym, Ee|]. apply M, H1.
Qed.

(* conversely, a list in which every edge is a bridge is a forest in the above sense *)
Lemma bridges_idforest T :
  (forall l1 e l2, T = l1 ++ e :: l2 -> ~ econn (eds (l1 ++ l2)) (fst (ed e)) (snd (ed e))) -> idforest T.
Proof.
  induction T as [|x T IH] using rev_ind; intros H; [constructor|].
  constructor.
  - apply IH. intros l1 e l2 -> Hc. apply (H l1 e (l2 ++ [x])).
    + now rewrite <- app_assoc.
    + revert Hc. apply econn_mono. intros z Hz. unfold eds in *. rewrite app_assoc, map_app. apply in_or_app. auto.
  - specialize (H T x [] eq_refl). now rewrite app_nil_r in H.
Qed.

(* L1: labels for a forest, and |T| + #classes = n *)
Lemma idforest_labels T : idforest T -> ids_in T ->
  exists lab, labs_ok n (eds T) lab /\ length T + nclass n lab = n.
Proof.
  induction 1 as [|T e HT IH Hn]; intros Hin.
  - exists (uf_init n). split; [apply labs_ok_init|]. simpl. apply nclass_init.
  - destruct IH as (lab & Hok & Hcnt).
    { intros x Hx. apply Hin. apply in_or_app. auto. }
    destruct (Hin e) as [Ha Hb]; [apply in_or_app; simpl; auto|].
    exists (uf_union lab (fst (ed e)) (snd (ed e))). split.
    + rewrite eds_snoc. apply labs_ok_union; auto.
    + rewrite app_length. simpl.
      assert (Hne : uf_label lab (fst (ed e)) <> uf_label lab (snd (ed e))).
      { intros E. apply Hn. destruct Hok as (_ & _ & Hc). apply Hc; auto. }
      pose proof (nclass_union n (eds T) lab _ _ Hok Ha Hb Hne). lia.
Qed.

(* labels exist for any edge list with end points in range *)
Lemma labels_exist (L : list edge) : edges_in n L -> exists lab, labs_ok n L lab.
Proof.
  induction L as [|[a b] L IH] using rev_ind; intros Hin.
  - exists (uf_init n). apply labs_ok_init.
  - destruct IH as [lab Hok].
    { intros x y Hxy. apply Hin. apply in_or_app. auto. }
    destruct (Hin a b) as [Ha Hb]; [apply in_or_app; simpl; auto|].
    exists (uf_union lab a b). now apply labs_ok_union.
Qed.

(* L2: a forest inside the classes of H has at most n - #classes(H) edges *)
Lemma forest_rank F H labH :
  idforest F -> ids_in F -> labs_ok n H labH ->
  (forall e, In e F -> econn H (fst (ed e)) (snd (ed e))) ->
  length F + nclass n labH <= n.
Proof.
  intros HF Hin HokH Hsub.
  destruct (idforest_labels F HF Hin) as (labF & HokF & Hcnt).
  assert (Hle : nclass n labH <= nclass n labF).
  { apply (nclass_refine n (eds F) labF H labH); auto.
    intros u v E. induction E.
    - apply ec_refl.
    - unfold eds in H0. apply in_map_iff in H0 as [e [E He]]. specialize (Hsub e He). rewrite E in Hsub. exact Hsub.
    - now apply ec_sym.
    - eapply ec_trans; eauto. }
  lia.
Qed.

End Ids.
