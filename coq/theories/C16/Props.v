(* C16 property theorems only: each closed by `exact <lemma>` with Print Assumptions beneath. *)
From Coq Require Import ZArith List Bool.
Import ListNotations.
Require Import MV.Lib.Base MV.C16.Gen MV.C16.Model MV.C16.Checkers.
Require Import MV.C16.Proofs_Base.
Open Scope Z_scope.

Theorem C16_cut0_is_complement : forall edges ev e,
  In e (cut0 edges ev) <-> (0 <= e < zlen edges) /\ ~ In e ev.
Proof. exact cut0_spec. Qed.
Print Assumptions C16_cut0_is_complement.
