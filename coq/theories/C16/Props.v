(* C16 property theorems only: each closed by `exact <lemma>` with Print Assumptions beneath.

   Vocabulary.  Model.v: executable model of cutting.py (`cut0` = _build_cut_edges_tree, `prune`/`cut_edges_of` =
   _prune_edge_tree after it, `rebuild` = _build_mesh_with_cuts, `direct_face`, `interior_edges`, `boundary_edges`);
   Gen.v: corner numbering, glue test, union plumbing, leaf tests GENERATED from cutting.py (the model uses them);
   Checkers.v: boolean checkers used as hypotheses (`tri_ok_b`: triangles with distinct vertices, `table_ok_b`: every
   face edge is in the edge table, `primal_connected_b`, `forest_cert_b ... T rk`: T is a forest of the dual graph
   (rank certificate), `dual_spanning_df_b`: the pairs of faces across the edges of T link all faces,
   `closed_set_b`: no edge of the set ends in a leaf of the set);
   Proofs_*: `corner faces f i` = number of the i-th corner of face f, `cvert faces c` = its input vertex,
   `out_corner r f i` = output_mesh.faces[f][i], `ref_vertex r k`, `out_src r` = the input vertex whose position
   output vertex k carries, `glued` = "the two corners of one end of an uncut interior edge in its two faces",
   `eqcl` = equivalence closure, `adj/conn/touched` = adjacency / walks / "is an end of an edge" in a set of edge ids,
   `steps` = sequence of removals of non-singular leaves, `noleaf`, `closed_set`.
   The dual tree T (step 2 of the cutter, float Dijkstra) is an input of the model: hypotheses on it are checked on
   every run on what mouette returned.                                                                            *)
From Coq Require Import ZArith List Bool.
Import ListNotations.
Require Import MV.Lib.Base MV.C16.Gen MV.C16.Model MV.C16.Checkers.
Require Import MV.C16.Proofs_Base MV.C16.Proofs_UF MV.C16.Proofs_Struct MV.C16.Proofs_Rebuild.
Require Import MV.C16.Proofs_Prune MV.C16.Proofs_Cotree MV.C16.Proofs_Top MV.C16.Proofs_Examples MV.C16.Proofs_RepIndep.
Require Import MV.C16.Proofs_Ring MV.C16.Proofs_Border MV.C16.Proofs_SingBorder MV.C16.Proofs_CheckRing MV.C16.Proofs_Dual.
Require Import MV.C16.Proofs_OutBorder MV.C16.Proofs_Uncut MV.C16.Proofs_Final.
Open Scope Z_scope.

(* 1. FULL, for ANY face list, edge table and cut set: the rebuilt mesh has the input faces in the same order with
      the same arity, ref_vertex maps every output corner to the input corner (face by face), every output vertex
      carries the position of its ref_vertex, all writes to ref_vertex agree, output indices are in range, every
      output vertex is used, ref_vertex is onto the vertices of the faces; two corners are identified iff a chain
      of `glued` pairs links them, such chains stay around one original vertex, and no uncut interior edge is
      opened ("only cut edges are opened").  Non-vacuity: grid_disk / grid_opened in Proofs_Examples. *)
Theorem C16_rebuild : forall (faces : list face) (edges : list (Z * Z)) (cut : list Z),
  let r := rebuild faces edges cut in
  map (map (ref_vertex r)) (out_faces r) = map (map Some) faces /\
  map Some (out_src r) = map (ref_vertex r) (zrange (out_n r)) /\
  (forall u v, In (u, v) (out_ref r) -> ref_vertex r u = Some v) /\
  (forall f i, valid_corner faces f i -> 0 <= out_corner r f i < out_n r) /\
  (forall k, 0 <= k < out_n r -> exists f i, valid_corner faces f i /\ out_corner r f i = k) /\
  (forall v, In v (concat faces) -> exists k, 0 <= k < out_n r /\ ref_vertex r k = Some v) /\
  (forall f i g j, valid_corner faces f i -> valid_corner faces g j ->
     (out_corner r f i = out_corner r g j <-> eqcl (glued faces edges cut) (corner faces f i) (corner faces g j))) /\
  (forall x y, eqcl (glued faces edges cut) x y -> 0 <= x < ncorners faces -> cvert faces x = cvert faces y) /\
  (forall e a b f1 i1 j1 f2 i2 j2, 0 <= e < zlen edges -> ends edges e = (a, b) -> ~ In e cut ->
     direct_face faces a b = Some (f1, i1, j1) -> direct_face faces b a = Some (f2, i2, j2) ->
     out_corner r f1 i1 = out_corner r f2 j2 /\ out_corner r f1 j1 = out_corner r f2 i2).
Proof. exact rebuild_full. Qed.
Print Assumptions C16_rebuild.

(* 1b. what `glued` means, in terms of the input mesh: x and y are the corners, in the two faces f1, f2 on either
       side of an uncut edge e = (a,b) of the table, of the same end of e. *)
Theorem C16_rebuild_glued_meaning : forall faces edges cut x y, glued faces edges cut x y ->
  0 <= x < ncorners faces /\ 0 <= y < ncorners faces /\ cvert faces x = cvert faces y.
Proof. exact glued_same_vertex. Qed.
Print Assumptions C16_rebuild_glued_meaning.

(* 1c. FULL: the rebuild sees the union-find through `find` only, and depends on it only through the partition of
       the corners: two class-representative functions with the same classes on the corners (whose representatives
       are corners of the same input vertex) give the same output mesh, vertex table and ref_vertex.  The model's
       `rep_of_pairs` induces the equivalence closure of the united pairs (rep_spec, used by 1); C20 proves the
       same of mouette's UnionFind.find. *)
Theorem C16_rebuild_any_union_find : forall (faces : list face) (r1 r2 : uf),
  let N := ncorners faces in
  (forall c c', 0 <= c < N -> 0 <= c' < N -> (r1 c = r1 c' <-> r2 c = r2 c')) ->
  (forall c, 0 <= c < N -> cvert faces (r1 c) = cvert faces (r2 c)) ->
  rebuild_with r1 faces = rebuild_with r2 faces.
Proof. exact rebuild_rep_independent. Qed.
Print Assumptions C16_rebuild_any_union_find.

(* 2. FULL: _build_cut_edges_tree is the complement of the dual tree. *)
Theorem C16_cut0_is_complement : forall edges ev e,
  In e (cut0 edges ev) <-> (0 <= e < zlen edges) /\ ~ In e ev.
Proof. exact cut0_spec. Qed.
Print Assumptions C16_cut0_is_complement.

(* 2b. FULL (about the generated relaxation tests of BOTH dual-tree builders; the tree itself is validated per run,
       not recomputed): a face settled before the popped one (distance not larger) keeps its distance and its parent
       edge `path[f]` for every dual edge length d >= 0, in particular d = 0 (adjacent faces with the same
       barycentre: two-sided flat sheets, coincident vertices); an overwrite strictly decreases the distance.
       Distances are floats in mouette; Z stands for their order.  Non-vacuity: relax_nontrivial. *)
Theorem C16_dual_relaxation_keeps_settled_faces :
  (forall old cur d e, 0 <= d -> fst old <= cur ->
     relax_step relax_dual_no_features old cur d e = old /\ relax_step relax_dual_with_features old cur d e = old) /\
  (forall old cur d e, relax_step relax_dual_no_features old cur d e <> old ->
     fst (relax_step relax_dual_no_features old cur d e) < fst old) /\
  (forall old cur d e, relax_step relax_dual_with_features old cur d e <> old ->
     fst (relax_step relax_dual_with_features old cur d e) < fst old).
Proof. exact dual_relaxation_strict. Qed.
Print Assumptions C16_dual_relaxation_keeps_settled_faces.

(* 3. FULL, pruning invariant, for ANY edge table, singular set and starting set: the queue loop ends within its
      fuel; what it did is a sequence of removals of NON-SINGULAR leaves; no non-singular leaf is left (vertices
      0..nv-1); nothing is added; every subset without non-singular leaves survives (border cycles, paths between
      singular vertices); vertices that are singular or still ends of remaining edges stay connected.
      Non-vacuity: grid_pruned_nontrivial. *)
Theorem C16_pruning : forall (edges : list (Z * Z)) (sing : Z -> bool) (nv : Z) (cut0 : list Z),
  exists cut, prune edges nv sing cut0 = Some cut /\
    steps edges sing cut0 cut /\ noleaf edges sing nv cut /\
    (forall e, In e cut -> In e cut0) /\
    (forall S, closed_set edges sing S -> (forall e, In e S -> In e cut0) -> forall e, In e S -> In e cut) /\
    (forall u v, (sing u = true \/ touched edges cut u) -> (sing v = true \/ touched edges cut v) ->
                 conn edges cut0 u v -> conn edges cut u v).
Proof. exact pruning_full. Qed.
Print Assumptions C16_pruning.

(* 4. FULL (tree-cotree + pruning): for a triangulated surface whose edge table is complete and connected, ANY
      forest T of the dual graph made of interior edges (rank certificate rk), and a border without leaves:
      run()'s cut_edges is defined, is a subset of the complement of T, contains every border edge and is a
      connected graph.  Non-vacuity: grid_hyps, grid_cut. *)
Theorem C16_cut_graph_connected_contains_border : forall faces edges nv singus T rk,
  cut_hyps faces edges T rk ->
  exists cut, cut_edges_of edges nv singus T = Some cut /\
    (forall e, In e cut -> In e (cut0 edges T)) /\
    (forall e, In e (boundary_edges faces edges) -> In e cut) /\
    (forall u v, touched edges cut u -> touched edges cut v -> conn edges cut u v).
Proof. exact cut_graph_border_connected. Qed.
Print Assumptions C16_cut_graph_connected_contains_border.

(* 5. FULL (about the cut graph): under the hypotheses of 4, a singular vertex s of the mesh is an END OF A CUT EDGE
      as soon as another vertex w of the mesh is singular or an end of a cut edge (i.e. as soon as the cut graph is
      not empty or there are two singular vertices). *)
Theorem C16_singularities_on_cut_graph : forall faces edges nv singus T rk,
  cut_hyps faces edges T rk ->
  exists cut, cut_edges_of edges nv singus T = Some cut /\
    forall s w, In s singus -> s <> w ->
      touched edges (zrange (zlen edges)) s -> touched edges (zrange (zlen edges)) w ->
      (In w singus \/ touched edges cut w) -> touched edges cut s.
Proof. exact cut_graph_singularities. Qed.
Print Assumptions C16_singularities_on_cut_graph.

(* 5b. FULL under the visible guard "the cut graph has two distinct edges" (the guard fails exactly in the sphere
       exception - empty cut graph - and in the class of the known finding, 8).  `surface_ok_b`: triangles with
       distinct vertices, every directed edge once, one id per edge, every table edge a side of a face, and the
       corners of every vertex form ONE ring or fan (`rings_b`, vertex-manifoldness; all checked on every run).
       Then every singular vertex of the mesh has a copy on the border of the rebuilt mesh: it is the ref_vertex of
       an end of a half-edge of the output that no output face runs in the opposite direction.
       Proof: the ring of corners around an end of a cut edge is broken at that edge and somewhere else (another
       cut edge or the border), so the two corners on either side stay in different classes (ring_separates), the
       edge is opened there, and its two copies are border half-edges.  Non-vacuity: grid_surface_ok, grid_hyps. *)
Theorem C16_singularities_on_border_two_cut_edges : forall faces edges nv singus T rk,
  cut_hyps faces edges T rk -> surface_ok_b faces edges = true ->
  exists cut, cut_edges_of edges nv singus T = Some cut /\
    ((exists e1 e2, In e1 cut /\ In e2 cut /\ e1 <> e2) ->
     forall s, In s singus -> touched edges (zrange (zlen edges)) s ->
       let r := rebuild faces edges cut in
       exists b, In b (border_half_edges (out_faces r)) /\
                 (ref_vertex r (fst b) = Some s \/ ref_vertex r (snd b) = Some s)).
Proof. exact singularities_on_border_full. Qed.
Print Assumptions C16_singularities_on_border_two_cut_edges.

(* 5c. FULL, the same for ANY connected cut set with two edges (not only the one run() computes): every end of a cut
       edge has a copy on the border of the rebuilt mesh. *)
Theorem C16_cut_edge_ends_on_border : forall faces edges cut s,
  surface_ok_b faces edges = true ->
  subsetZ cut (zrange (zlen edges)) = true -> cut_connected_b edges cut = true ->
  (exists e1 e2, In e1 cut /\ In e2 cut /\ e1 <> e2) ->
  touched edges cut s ->
  let r := rebuild faces edges cut in
  exists b, In b (border_half_edges (out_faces r)) /\
            (ref_vertex r (fst b) = Some s \/ ref_vertex r (snd b) = Some s).
Proof. exact singular_on_border_b. Qed.
Print Assumptions C16_cut_edge_ends_on_border.

(* 5d. FULL ("only the edges reported as cut were opened", stated on the CUT MESH): on a surface satisfying `surface_ok_b`
       whose edge table is complete (`table_ok_b`), for ANY cut set, (i) the copy of an input half-edge x -> y of
       face f is a border half-edge of the cut mesh IFF x -> y has no face on the other side or the two faces of the
       edge do not share both ends; (ii) every border half-edge of the cut mesh is such a copy, its ends map to x and
       y by ref_vertex, and it lies over an input border edge or over an edge of cut_edges - no uncut interior edge
       contributes to the border.  Non-vacuity: final_hyps_grid, grid_counts. *)
Theorem C16_cut_mesh_border_exact : forall faces edges cut,
  surface_ok_b faces edges = true -> table_ok_b faces edges = true ->
  let r := rebuild faces edges cut in
  (forall x y f k k', direct_face faces x y = Some (f, k, k') ->
     (In (out_corner r f k, out_corner r f k') (border_half_edges (out_faces r)) <->
      direct_face faces y x = None \/
      exists g h h', direct_face faces y x = Some (g, h, h') /\
                     ~ (out_corner r f k = out_corner r g h' /\ out_corner r f k' = out_corner r g h))) /\
  (forall b, In b (border_half_edges (out_faces r)) ->
     exists f k k' x y, direct_face faces x y = Some (f, k, k') /\ b = (out_corner r f k, out_corner r f k') /\
       ref_vertex r (fst b) = Some x /\ ref_vertex r (snd b) = Some y /\
       (direct_face faces y x = None \/ exists e, In e cut /\ 0 <= e < zlen edges /\ joins edges e x y = true)).
Proof. exact cut_mesh_border_exact. Qed.
Print Assumptions C16_cut_mesh_border_exact.

(* 5e. FULL (what must NOT change; the sphere exception "is left uncut"): same hypotheses, ANY cut set: all the corners
       of an input vertex that no cut edge touches get ONE output vertex (interior or border vertex alike); and with
       an empty cut set ref_vertex is injective on the output vertices - no vertex is duplicated, the cut mesh is the
       input mesh up to the numbering of its vertices.  Non-vacuity: grid_border_only, tetra_uncut. *)
Theorem C16_uncut_vertices_not_duplicated : forall faces edges cut,
  surface_ok_b faces edges = true -> table_ok_b faces edges = true ->
  let r := rebuild faces edges cut in
  (forall f i g j, valid_corner faces f i -> valid_corner faces g j ->
     znth (znth faces f []) i 0 = znth (znth faces g []) j 0 ->
     (forall e, In e cut -> touches edges e (znth (znth faces f []) i 0) = false) ->
     out_corner r f i = out_corner r g j) /\
  (cut = [] -> forall k k', 0 <= k < out_n r -> 0 <= k' < out_n r -> ref_vertex r k = ref_vertex r k' -> k = k').
Proof. exact uncut_vertices_not_duplicated. Qed.
Print Assumptions C16_uncut_vertices_not_duplicated.

(* 5f. FULL, any input: the cut mesh has the input's number of faces and its faces use exactly the vertices
       0 .. out_n - 1 (V' of the Euler characteristic is out_n, F' is F). *)
Theorem C16_cut_mesh_counts : forall faces edges cut, let r := rebuild faces edges cut in
  zlen (out_faces r) = zlen faces /\
  zlen (used_vertices (out_faces r)) = out_n r /\
  (forall k, In k (used_vertices (out_faces r)) <-> 0 <= k < out_n r).
Proof. exact cut_mesh_counts. Qed.
Print Assumptions C16_cut_mesh_counts.

(* 6. FULL: if the pairs of faces across the edges of T link all faces (which a spanning tree of the dual graph
      does) and no edge of T is cut, any two faces of the rebuilt mesh are linked by a chain of faces sharing an
      edge (two distinct corners with the same output vertices).  Non-vacuity: grid_spanning. *)
Theorem C16_connected : forall faces edges cut T,
  tri_ok_b faces = true -> dual_spanning_df_b faces edges T = true ->
  (forall e, In e T -> 0 <= e < zlen edges /\ ~ In e cut) ->
  forall f g, 0 <= f < zlen faces -> 0 <= g < zlen faces ->
    eqcl (share_edge faces (rebuild faces edges cut)) f g.
Proof. exact cut_mesh_connected. Qed.
Print Assumptions C16_connected.

(* 7. NOT PROVED (no theorem): "the cut mesh is a disk" beyond connectedness (6).  Euler characteristic 1 and the
      single border loop are CHECKED on mouette's output on every run by `is_disk_b` (Run.v codes 13-15), not proved.
      The intended argument is tree-cotree counting: |T| = F-1; the complement touches every vertex; a leaf removal
      deletes one edge and one touched vertex; every interior cut edge is doubled; a vertex of the cut graph gets
      deg copies (deg-1 on the border); then V' - E' + F = 1 by arithmetic (Proofs_Top.euler_identity, an `lia`
      fact about ten integers that mentions no model definition and is therefore NOT an obligation).  The counting
      facts about `rebuild` are not established. *)

(* 8. REFUTED: "for every closed sphere with at least two singular vertices the cut mesh is a disk with the
      singular vertices on its border".  Witness (what mouette computes): the tetrahedron with singular vertices
      0 and 1; all hypotheses of 4, 5b and 6 hold except the guard of 5b: cut_edges is the single edge (0,1), the rebuilt mesh IS the input
      (4 vertices, closed, Euler characteristic 2), not a disk, and no singular vertex is on a border.
      Known finding `closed-sphere/two-adjacent-singularities/single-edge-slit`, replayed on every run. *)
Theorem C16_disk_refuted : exists faces edges nv singus T rk,
  cut_hyps faces edges T rk /\ dual_spanning_df_b faces edges T = true /\
  closed_b faces = true /\ euler faces = 2 /\ surface_ok_b faces edges = true /\ zlen (dedup singus) = 2 /\
  exists cut, cut_edges_of edges nv singus T = Some cut /\
    let r := rebuild faces edges cut in
    is_disk_b (out_faces r) = false /\ euler (out_faces r) = 2 /\ closed_b (out_faces r) = true /\
    singus_on_border_b r singus = false.
Proof. exact disk_refuted. Qed.
Print Assumptions C16_disk_refuted.
