(* C16 - the border / non-duplication theorems with their hypotheses in checker form, and non-vacuity examples *)
From Coq Require Import ZArith List Bool Lia.
Import ListNotations.
Require Import MV.Lib.Base MV.C16.Gen MV.C16.Model MV.C16.Checkers.
Require Import MV.C16.Proofs_Base MV.C16.Proofs_UF MV.C16.Proofs_Struct MV.C16.Proofs_Rebuild MV.C16.Proofs_Prune.
Require Import MV.C16.Proofs_Cotree MV.C16.Proofs_Top MV.C16.Proofs_Ring MV.C16.Proofs_Border MV.C16.Proofs_SingBorder MV.C16.Proofs_CheckRing.
Require Import MV.C16.Proofs_OutBorder MV.C16.Proofs_Uncut MV.C16.Proofs_Examples.
Open Scope Z_scope.

Lemma surface_parts faces edges : surface_ok_b faces edges = true ->
  all_tri faces /\ tri_ok faces /\ oriented faces /\ rings faces.
Proof.
  unfold surface_ok_b. rewrite !andb_true_iff. intros [[[[H1 H2] H3] H4] H5].
  split; [now apply all_tri_of_b|]. split; [now apply tri_ok_of_b|]. split; [now apply oriented_of_b|now apply rings_of_b].
Qed.

Theorem cut_mesh_border_exact faces edges cut : surface_ok_b faces edges = true -> table_ok_b faces edges = true ->
  let r := rebuild faces edges cut in
  (forall x y f k k', direct_face faces x y = Some (f, k, k') ->
     (In (out_corner r f k, out_corner r f k') (border_half_edges (out_faces r)) <->
      direct_face faces y x = None \/
      exists g h h', direct_face faces y x = Some (g, h, h') /\
                     ~ (out_corner r f k = out_corner r g h' /\ out_corner r f k' = out_corner r g h))) /\
  (forall b, In b (border_half_edges (out_faces r)) ->
     exists f k k' x y, direct_face faces x y = Some (f, k, k') /\ b = (out_corner r f k, out_corner r f k') /\
       ref_vertex r (fst b) = Some x /\ ref_vertex r (snd b) = Some y /\
       (direct_face faces y x = None \/ exists e, In e cut /\ 0 <= e < zlen edges /\ joins edges e x y = true)).
Proof.
  intros S TB. destruct (surface_parts _ _ S) as [T [TRI [O _]]]. apply table_ok_of_b in TB. cbn zeta. split.
  - intros x y f k k'. now apply out_border_iff.
  - intros b. now apply out_border_over_cut.
Qed.

Theorem uncut_vertices_not_duplicated faces edges cut : surface_ok_b faces edges = true -> table_ok_b faces edges = true ->
  let r := rebuild faces edges cut in
  (forall f i g j, valid_corner faces f i -> valid_corner faces g j ->
     znth (znth faces f []) i 0 = znth (znth faces g []) j 0 ->
     (forall e, In e cut -> touches edges e (znth (znth faces f []) i 0) = false) ->
     out_corner r f i = out_corner r g j) /\
  (cut = [] -> forall k k', 0 <= k < out_n r -> 0 <= k' < out_n r -> ref_vertex r k = ref_vertex r k' -> k = k').
Proof.
  intros S TB. destruct (surface_parts _ _ S) as [T [TRI [O RG]]]. apply table_ok_of_b in TB. cbn zeta. split.
  - intros f i g j V V' EV NC. destruct (RG (f, i) V) as [l R]. pose proof R as [_ [Cov _]].
    apply (vertex_not_duplicated faces edges cut T TRI O TB _ l R NC (f, i) (g, j)); apply Cov; split; auto;
      unfold fv; cbn [fst snd]; congruence.
  - now apply empty_cut_left_uncut.
Qed.

(* non-vacuity *)
Example final_hyps_grid : surface_ok_b g_faces g_edges = true /\ table_ok_b g_faces g_edges = true.
Proof. vm_compute. split; reflexivity. Qed.
(* with only the border cut, the interior vertex 4 (six corners) keeps one copy; the cut mesh has 9 vertices *)
Example grid_border_only : let r := rebuild g_faces g_edges [0; 4; 5; 6; 11; 12; 13; 15] in
  out_corner r 0 2 = out_corner r 7 0 /\ out_n r = 9 /\ zlen (border_half_edges (out_faces r)) = 8.
Proof. vm_compute. repeat split; reflexivity. Qed.
Example tetra_uncut : surface_ok_b t_faces t_edges = true /\ table_ok_b t_faces t_edges = true /\
  out_n (rebuild t_faces t_edges []) = 4 /\ border_half_edges (out_faces (rebuild t_faces t_edges [])) = [].
Proof. vm_compute. repeat split; reflexivity. Qed.
Example grid_counts : let r := rebuild g_faces g_edges g_cut in
  zlen (out_faces r) = 8 /\ zlen (used_vertices (out_faces r)) = 10 /\ zlen (border_half_edges (out_faces r)) = 10.
Proof. vm_compute. repeat split; reflexivity. Qed.
