(* C16 - which half-edges of the rebuilt mesh are border half-edges; a cut edge is opened at an end whose ring is
   broken elsewhere *)
From Coq Require Import ZArith List Bool Lia.
Import ListNotations.
Require Import MV.Lib.Base MV.C16.Gen MV.C16.Model MV.C16.Checkers.
Require Import MV.C16.Proofs_Base MV.C16.Proofs_UF MV.C16.Proofs_Struct MV.C16.Proofs_Rebuild MV.C16.Proofs_Prune.
Require Import MV.C16.Proofs_Ring.
Open Scope Z_scope.

(* ------------------------------------------------------------------ half-edge table: existence and uniqueness *)
Lemma half_edges_from_in faces : forall k g i, 0 <= g < zlen faces -> 0 <= i < zlen (znth faces g []) ->
  let G := znth faces g [] in let n := zlen G in
  In ((znth G i 0, znth G ((i + 1) mod n) 0), (k + g, i, (i + 1) mod n)) (half_edges_from k faces).
Proof.
  induction faces as [|F r IH]; intros k g i Hg Hi; [unfold zlen in Hg; simpl in Hg; lia|].
  rewrite zlen_cons in Hg. cbn [half_edges_from]. apply in_or_app. destruct (Z.eq_dec g 0) as [->|N].
  - left. change (znth (F :: r) 0 []) with F in *. cbn zeta. unfold face_half_edges. apply in_map_iff.
    exists i. split; [|now apply In_zrange]. replace (k + 0) with k by lia. reflexivity.
  - right. rewrite znth_cons in * by lia. specialize (IH (k + 1) (g - 1) i). cbn zeta in *.
    replace (k + 1 + (g - 1)) with (k + g) in IH by lia. apply IH; auto. lia.
Qed.

Lemma half_edges_spec0 (fs : list (list Z)) key val : In (key, val) (half_edges fs) ->
  exists g h, 0 <= g < zlen fs /\ 0 <= h < zlen (znth fs g []) /\
    key = (znth (znth fs g []) h 0, znth (znth fs g []) ((h + 1) mod zlen (znth fs g [])) 0).
Proof.
  intros H. apply half_edges_from_spec in H. destruct H as [g [h [A [B [_ D]]]]]. cbn zeta in *.
  replace (g - 0) with g in * by lia. exists g, h. repeat split; try lia; auto.
Qed.

Definition oriented (faces : list face) : Prop := NoDup (map fst (half_edges faces)).

Lemma NoDup_fst_unique {A B} (l : list (A * B)) k v1 v2 : NoDup (map fst l) -> In (k, v1) l -> In (k, v2) l -> v1 = v2.
Proof.
  induction l as [|[a b] l IH]; intros ND H1 H2; [destruct H1|]. cbn [map fst] in ND. inversion ND as [|? ? Nin ND']; subst.
  destruct H1 as [H1|H1]; destruct H2 as [H2|H2].
  - congruence.
  - inversion H1; subst. exfalso. apply Nin. apply in_map_iff. exists (k, v2). auto.
  - inversion H2; subst. exfalso. apply Nin. apply in_map_iff. exists (k, v1). auto.
  - eauto.
Qed.

Lemma direct_face_exists faces g i : valid_corner faces g i ->
  let G := znth faces g [] in exists d, direct_face faces (znth G i 0) (znth G ((i + 1) mod zlen G) 0) = Some d.
Proof.
  intros [Hg Hi]. cbn zeta. unfold direct_face, df_lookup, he_table.
  destruct (find _ _) as [p|] eqn:E; [eauto|]. exfalso.
  pose proof (half_edges_from_in faces 0 g i Hg Hi) as H. cbn zeta in H. apply in_rev in H.
  apply (find_none _ _ E) in H. unfold he_key_eqb in H. cbn [fst snd] in H. rewrite !Z.eqb_refl in H. discriminate.
Qed.

Lemma direct_face_unique faces g i : oriented faces -> valid_corner faces g i ->
  let G := znth faces g [] in
  direct_face faces (znth G i 0) (znth G ((i + 1) mod zlen G) 0) = Some (g, i, (i + 1) mod zlen G).
Proof.
  intros O [Hg Hi]. cbn zeta. unfold direct_face, df_lookup, he_table.
  destruct (find _ _) as [[key val]|] eqn:E.
  - apply find_some in E. destruct E as [HI HK]. apply in_rev in HI.
    unfold he_key_eqb in HK. cbn [fst snd] in HK. apply andb_true_iff in HK. destruct HK as [K1 K2].
    apply Z.eqb_eq in K1, K2. destruct key as [k1 k2]. cbn [fst snd] in *. subst k1 k2.
    pose proof (half_edges_from_in faces 0 g i Hg Hi) as H. cbn zeta in H. replace (0 + g) with g in H by lia.
    cbn [snd]. f_equal. eapply NoDup_fst_unique; eauto.
  - exfalso. pose proof (half_edges_from_in faces 0 g i Hg Hi) as H. cbn zeta in H. apply in_rev in H.
    apply (find_none _ _ E) in H. unfold he_key_eqb in H. cbn [fst snd] in H. rewrite !Z.eqb_refl in H. discriminate.
Qed.

Lemma memP_In x l : memP x l = true <-> In x l.
Proof.
  induction l as [|y r IH]; simpl; [split; [discriminate|tauto]|].
  rewrite orb_true_iff, IH. unfold pair_eqb. rewrite andb_true_iff, !Z.eqb_eq. destruct x, y; cbn [fst snd].
  split; intros [H|H]; auto; [left|left]; [destruct H; congruence|inversion H; auto].
Qed.

(* ------------------------------------------------------------------ the rebuilt mesh *)
Section Out.
  Variable faces : list face.
  Variable edges : list (Z * Z).
  Variable cut : list Z.
  Hypothesis T : all_tri faces.
  Let r := rebuild faces edges cut.
  Let OF := out_faces r.

  Lemma ref_out_corner f i : valid_corner faces f i ->
    ref_vertex r (out_corner r f i) = Some (znth (znth faces f []) i 0).
  Proof.
    intros V. unfold r. rewrite out_corner_eq by auto. destruct (corner_spec faces f i V) as [R C].
    rewrite ref_oidx by auto. f_equal. exact C.
  Qed.

  Lemma OF_lengths : zlen OF = zlen faces /\ forall f, 0 <= f < zlen faces -> zlen (znth OF f []) = 3.
  Proof.
    unfold OF, r. rewrite out_faces_eq. destruct (IF0_lengths faces) as [L1 L2]. split; [now rewrite zlen_map|].
    intros f Hf. rewrite (znth_map _ (IF0 faces) f [] []) by lia. rewrite zlen_map, L2 by auto.
    apply T. now apply znth_In.
  Qed.

  Lemma OF_entry f i : valid_corner faces f i -> znth (znth OF f []) i 0 = out_corner r f i.
  Proof. reflexivity. Qed.

  (* the output half-edge of an input half-edge x -> y of face f *)
  Lemma out_dir_edge x y f k k' : direct_face faces x y = Some (f, k, k') ->
    In (out_corner r f k, out_corner r f k') (dir_edges OF).
  Proof.
    intros D. apply direct_face_spec in D. destruct D as [V [V' [_ [_ M]]]].
    destruct (valid_tri _ _ _ T V) as [Hf Hk]. destruct OF_lengths as [L1 L2].
    assert (L : zlen (znth faces f []) = 3) by (apply T, znth_In; auto). rewrite L in M.
    unfold dir_edges, half_edges. apply in_map_iff.
    exists ((znth (znth OF f []) k 0, znth (znth OF f []) ((k + 1) mod zlen (znth OF f [])) 0),
            (0 + f, k, (k + 1) mod zlen (znth OF f []))).
    split.
    - cbn [fst]. rewrite L2 by auto. rewrite <- M. reflexivity.
    - apply half_edges_from_in; rewrite ?L1, ?L2; auto.
  Qed.

  (* an output half-edge that reverses the one of (f,k,k') comes from an input half-edge y -> x *)
  Lemma out_reverse x y f k k' : oriented faces -> direct_face faces x y = Some (f, k, k') ->
    In (out_corner r f k', out_corner r f k) (dir_edges OF) ->
    exists g h h', direct_face faces y x = Some (g, h, h') /\
                   out_corner r g h = out_corner r f k' /\ out_corner r g h' = out_corner r f k.
  Proof.
    intros O D HI. pose proof (direct_face_spec _ _ _ _ _ _ D) as [V [V' [A [B M]]]].
    unfold dir_edges, half_edges in HI. apply in_map_iff in HI. destruct HI as [[key val] [E HI]]. cbn [fst] in E. subst key.
    apply half_edges_spec0 in HI. destruct HI as [g [h [R1 [R2 K]]]].
    destruct OF_lengths as [L1 L2]. rewrite L1 in R1. rewrite L2 in R2, K by lia.
    assert (Hh' : 0 <= (h + 1) mod 3 < 3) by (apply Z.mod_pos_bound; lia).
    assert (LG : zlen (znth faces g []) = 3) by (apply T, znth_In; lia).
    assert (Vh : valid_corner faces g h) by (split; [lia|rewrite LG; lia]).
    assert (Vh' : valid_corner faces g ((h + 1) mod 3)) by (split; [lia|rewrite LG; lia]).
    change (znth (znth OF g []) h 0) with (out_corner r g h) in K.
    change (znth (znth OF g []) ((h + 1) mod 3) 0) with (out_corner r g ((h + 1) mod 3)) in K. injection K as K1 K2.
    assert (X1 : znth (znth faces g []) h 0 = y).
    { pose proof (ref_out_corner g h Vh) as P. rewrite <- K1, (ref_out_corner f k' V') in P. congruence. }
    assert (X2 : znth (znth faces g []) ((h + 1) mod 3) 0 = x).
    { pose proof (ref_out_corner g _ Vh') as P. rewrite <- K2, (ref_out_corner f k V) in P. congruence. }
    exists g, h, ((h + 1) mod 3). split; [|split; [symmetry; exact K1|symmetry; exact K2]].
    pose proof (direct_face_unique faces g h O Vh) as U. cbn zeta in U. rewrite LG, X1, X2 in U. exact U.
  Qed.

  Lemma border_half_edge_spec k : In k (border_half_edges OF) <-> In k (dir_edges OF) /\ ~ In (snd k, fst k) (dir_edges OF).
  Proof.
    unfold border_half_edges. cbn zeta. rewrite filter_In, negb_true_iff. split; intros [A B]; split; auto.
    - intros HI. apply memP_In in HI. congruence.
    - destruct (memP (snd k, fst k) (dir_edges OF)) eqn:E; auto. exfalso. apply B. now apply memP_In.
  Qed.

  (* a half-edge of the input with no face on the other side stays a border half-edge *)
  Lemma out_border_of_border x y f k k' : oriented faces ->
    direct_face faces x y = Some (f, k, k') -> direct_face faces y x = None ->
    In (out_corner r f k, out_corner r f k') (border_half_edges OF).
  Proof.
    intros O D N. apply border_half_edge_spec. split; [eapply out_dir_edge; eauto|]. cbn [fst snd]. intros HI.
    destruct (out_reverse x y f k k' O D HI) as [g [h [h' [D' _]]]]. congruence.
  Qed.

  (* a half-edge of an interior edge becomes a border half-edge as soon as one of its ends is not shared *)
  Lemma out_border_of_opened x y f k k' g h h' : oriented faces ->
    direct_face faces x y = Some (f, k, k') -> direct_face faces y x = Some (g, h, h') ->
    ~ (out_corner r f k = out_corner r g h' /\ out_corner r f k' = out_corner r g h) ->
    In (out_corner r f k, out_corner r f k') (border_half_edges OF).
  Proof.
    intros O D D' NS. apply border_half_edge_spec. split; [eapply out_dir_edge; eauto|]. cbn [fst snd]. intros HI.
    destruct (out_reverse x y f k k' O D HI) as [g2 [h2 [h2' [D2 [E1 E2]]]]].
    rewrite D' in D2. inversion D2; subst. apply NS. split; congruence.
  Qed.
End Out.
