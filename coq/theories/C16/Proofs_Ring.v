(* C16 - rotation of the corners around a vertex: across a cut edge the two corners of an end stay separate as soon as
   the ring of that end is broken somewhere else (another cut edge, or the border) *)
From Coq Require Import ZArith List Bool Lia.
Import ListNotations.
Require Import MV.Lib.Base MV.C16.Gen MV.C16.Model MV.C16.Checkers.
Require Import MV.C16.Proofs_Base MV.C16.Proofs_UF MV.C16.Proofs_Struct MV.C16.Proofs_Rebuild MV.C16.Proofs_Prune.
Open Scope Z_scope.

(* ------------------------------------------------------------------ arithmetic of arcs on a cycle of length m *)
Lemma mod_range_cases x m : 0 < m -> - m <= x < m -> x mod m = if x <? 0 then x + m else x.
Proof.
  intros Hm Hx. destruct (Z.ltb_spec x 0).
  - symmetry. apply (Z.mod_unique x m (-1) (x + m)); lia.
  - apply Z.mod_small. lia.
Qed.
(* position i lies on the arc that starts just after g and ends at g' *)
Definition in_arc (m g g' i : Z) : Prop := (i - g - 1) mod m <= (g' - g - 1) mod m.
Lemma succ_mod i m : 0 < m -> 0 <= i < m -> (i + 1) mod m = if i + 1 <? m then i + 1 else 0.
Proof.
  intros Hm Hi. destruct (Z.ltb_spec (i + 1) m); [apply Z.mod_small; lia|].
  assert (E : i + 1 = m) by lia. rewrite E. apply Z.mod_same. lia.
Qed.
Lemma arc_step m g g' i : 0 < m -> 0 <= g < m -> 0 <= g' < m -> 0 <= i < m -> i <> g -> i <> g' ->
  (in_arc m g g' i <-> in_arc m g g' ((i + 1) mod m)).
Proof.
  intros Hm Hg Hg' Hi N1 N2. unfold in_arc. rewrite (succ_mod i m) by lia.
  rewrite (mod_range_cases (i - g - 1) m), (mod_range_cases (g' - g - 1) m) by lia.
  destruct (Z.ltb_spec (i + 1) m).
  - rewrite (mod_range_cases (i + 1 - g - 1) m) by lia.
    destruct (Z.ltb_spec (i - g - 1) 0); destruct (Z.ltb_spec (g' - g - 1) 0); destruct (Z.ltb_spec (i + 1 - g - 1) 0); lia.
  - rewrite (mod_range_cases (0 - g - 1) m) by lia.
    destruct (Z.ltb_spec (i - g - 1) 0); destruct (Z.ltb_spec (g' - g - 1) 0); destruct (Z.ltb_spec (0 - g - 1) 0); lia.
Qed.
Lemma arc_start m g g' : 0 < m -> 0 <= g < m -> 0 <= g' < m -> in_arc m g g' ((g + 1) mod m).
Proof.
  intros Hm Hg Hg'. unfold in_arc. rewrite (succ_mod g m) by lia.
  assert (E : ((if g + 1 <? m then g + 1 else 0) - g - 1) mod m = 0).
  { destruct (Z.ltb_spec (g + 1) m).
    - replace (g + 1 - g - 1) with 0 by lia. apply Z.mod_0_l. lia.
    - replace (0 - g - 1) with (- m) by lia. rewrite (mod_range_cases (- m) m) by lia.
      destruct (Z.ltb_spec (- m) 0); lia. }
  rewrite E. apply Z.mod_pos_bound. lia.
Qed.
Lemma arc_not_g m g g' : 0 < m -> 0 <= g < m -> 0 <= g' < m -> g <> g' -> ~ in_arc m g g' g.
Proof.
  intros Hm Hg Hg' N. unfold in_arc. replace (g - g - 1) with (-1) by lia.
  rewrite (mod_range_cases (-1) m), (mod_range_cases (g' - g - 1) m) by lia.
  destruct (Z.ltb_spec (-1) 0); destruct (Z.ltb_spec (g' - g - 1) 0); lia.
Qed.

(* ------------------------------------------------------------------ triangles: corner f i = 3 f + i *)
Definition all_tri (faces : list face) : Prop := forall F, In F faces -> zlen F = 3.

Lemma znth_cons {A} (x : A) r f d : 0 < f -> znth (x :: r) f d = znth r (f - 1) d.
Proof.
  intros H. change (x :: r) with ([x] ++ r). rewrite znth_app2 by (change (zlen [x]) with 1; lia). reflexivity.
Qed.

Lemma init_faces_znth faces : all_tri faces -> forall k f, 0 <= f < zlen faces ->
  znth (init_faces k faces) f [] = map (fun i => k + 3 * f + i) (zrange 3).
Proof.
  induction faces as [|F r IH]; intros T k f Hf; [unfold zlen in Hf; simpl in Hf; lia|].
  rewrite zlen_cons in Hf. cbn [init_faces]. assert (L : zlen F = 3) by (apply T; now left). rewrite L.
  destruct (Z.eq_dec f 0) as [->|N].
  - change (znth (?a :: ?b) 0 []) with a. apply map_ext. intros i. unfold corner_id. lia.
  - rewrite znth_cons by lia. rewrite IH; [|intros G HG; apply T; now right|lia].
    apply map_ext. intros i. unfold next_kF. lia.
Qed.

Lemma corner_tri faces f i : all_tri faces -> 0 <= f < zlen faces -> 0 <= i < 3 -> corner faces f i = 3 * f + i.
Proof.
  intros T Hf Hi. unfold corner, lookup2, IF0, kF_start. rewrite init_faces_znth by auto.
  rewrite (znth_map (fun i0 => 0 + 3 * f + i0) (zrange 3) i 0 0) by (rewrite zlen_zrange; lia).
  assert (E : znth (zrange 3) i 0 = i).
  { assert (K : i = 0 \/ i = 1 \/ i = 2) by lia. destruct K as [ -> | [ -> | -> ] ]; reflexivity. }
  rewrite E. lia.
Qed.

Lemma valid_tri faces f i : all_tri faces -> valid_corner faces f i -> 0 <= f < zlen faces /\ 0 <= i < 3.
Proof.
  intros T [Hf Hi]. split; auto. rewrite (T (znth faces f [])) in Hi; auto. now apply znth_In.
Qed.

(* ------------------------------------------------------------------ turning around a vertex *)
Definition pcorner (faces : list face) (p : Z * Z) : Z := corner faces (fst p) (snd p).
Definition validp (faces : list face) (p : Z * Z) : Prop := valid_corner faces (fst p) (snd p).

(* p and q are glued: q is across the edge after p and that edge has an uncut id *)
Definition linkedp (faces : list face) (edges : list (Z * Z)) (cut : list Z) (p q : Z * Z) : Prop :=
  validp faces p /\ validp faces q /\ stepp faces p = Some q /\
  exists e, 0 <= e < zlen edges /\ ~ In e cut /\ joins edges e (fv faces p) (nv' faces p) = true.

Lemma glued_linked faces edges cut x y : all_tri faces -> glued faces edges cut x y ->
  exists p q, linkedp faces edges cut p q /\
    ((x = pcorner faces p /\ y = pcorner faces q) \/ (y = pcorner faces p /\ x = pcorner faces q)).
Proof.
  intros T [e [a [b [f1 [i1 [j1 [f2 [i2 [j2 [He [Eab [Hc [E1 [E2 H]]]]]]]]]]]]]].
  pose proof (direct_face_spec _ _ _ _ _ _ E1) as [V1 [V1' [A1 [B1 M1]]]].
  pose proof (direct_face_spec _ _ _ _ _ _ E2) as [V2 [V2' [A2 [B2 M2]]]].
  assert (L1 : zlen (znth faces f1 []) = 3) by (apply T, znth_In, V1).
  assert (L2 : zlen (znth faces f2 []) = 3) by (apply T, znth_In, V2).
  rewrite L1 in M1. rewrite L2 in M2.
  destruct H as [[-> ->]|[-> ->]].
  - exists (f1, i1), (f2, j2). split; [|left; split; reflexivity].
    unfold linkedp, validp, stepp, fv, nv'. cbn [fst snd]. rewrite <- M1, A1, B1, E2. unfold tF, tJ. cbn [fst snd].
    split; [exact V1|]. split; [exact V2'|]. split; [reflexivity|].
    exists e. split; [lia|]. split; [exact Hc|]. apply joins_iff. rewrite Eab. simpl. auto.
  - exists (f2, i2), (f1, j1). split; [|right; split; reflexivity].
    unfold linkedp, validp, stepp, fv, nv'. cbn [fst snd]. rewrite <- M2, A2, B2, E1. unfold tF, tJ. cbn [fst snd].
    split; [exact V2|]. split; [exact V1'|]. split; [reflexivity|].
    exists e. split; [lia|]. split; [exact Hc|]. apply joins_iff. rewrite Eab. simpl. auto.
Qed.

(* ------------------------------------------------------------------ the ring of a vertex *)
Definition rpos (l : list (Z * Z)) (i : Z) : Z * Z := znth l i (0, 0).
(* l lists the corners of v once each, each one followed by the corner across its outgoing edge; after the last
   one comes the first (closed ring, interior vertex) or nothing (open fan, border vertex) *)
Definition ring_at (faces : list face) (v : Z) (l : list (Z * Z)) : Prop :=
  NoDup l /\
  (forall p, In p l <-> validp faces p /\ fv faces p = v) /\
  (forall i, 0 <= i < zlen l - 1 -> stepp faces (rpos l i) = Some (rpos l (i + 1))) /\
  (stepp faces (rpos l (zlen l - 1)) = Some (rpos l 0) \/ stepp faces (rpos l (zlen l - 1)) = None).

Lemma ring_step faces v l i q : ring_at faces v l -> 0 <= i < zlen l -> stepp faces (rpos l i) = Some q ->
  q = rpos l ((i + 1) mod zlen l).
Proof.
  intros [_ [_ [St Cl]]] Hi E. rewrite succ_mod by lia. destruct (Z.ltb_spec (i + 1) (zlen l)).
  - rewrite St in E by lia. congruence.
  - assert (i = zlen l - 1) by lia. subst i. destruct Cl as [C|C]; congruence.
Qed.

Lemma rpos_inj l i j : NoDup l -> 0 <= i < zlen l -> 0 <= j < zlen l -> rpos l i = rpos l j -> i = j.
Proof.
  intros ND Hi Hj E. unfold rpos in E. rewrite !znth_nth in E by lia. unfold zlen in *.
  assert (Z.to_nat i = Z.to_nat j) by (eapply (proj1 (NoDup_nth l (0, 0))); eauto; lia). lia.
Qed.

Lemma pcorner_inj faces p q : all_tri faces -> validp faces p -> validp faces q ->
  pcorner faces p = pcorner faces q -> p = q.
Proof.
  intros T Vp Vq E. destruct p as [f i], q as [g j]. unfold pcorner, validp in *. cbn [fst snd] in *.
  destruct (valid_tri _ _ _ T Vp) as [Hf Hi]. destruct (valid_tri _ _ _ T Vq) as [Hg Hj].
  rewrite !corner_tri in E by auto. f_equal; lia.
Qed.

(* MAIN LEMMA: two positions g <> g' of the ring from which no glued pair starts; then the corner at g and the
   corner after it are in different classes *)
Lemma ring_separates faces edges cut v l g g' : all_tri faces -> ring_at faces v l ->
  0 <= g < zlen l -> 0 <= g' < zlen l -> g <> g' ->
  (forall q, ~ linkedp faces edges cut (rpos l g) q) -> (forall q, ~ linkedp faces edges cut (rpos l g') q) ->
  ~ eqcl (glued faces edges cut) (pcorner faces (rpos l g)) (pcorner faces (rpos l ((g + 1) mod zlen l))).
Proof.
  intros T R Hg Hg' N G1 G2. set (m := zlen l) in *.
  assert (Hm : 0 < m) by lia.
  pose proof R as [ND [Cov _]].
  set (A := fun c => exists i, 0 <= i < m /\ c = pcorner faces (rpos l i) /\ in_arc m g g' i).
  assert (VL : forall i, 0 <= i < m -> validp faces (rpos l i) /\ fv faces (rpos l i) = v).
  { intros i Hi. apply Cov. unfold rpos. now apply znth_In. }
  assert (LK : forall p q, linkedp faces edges cut p q -> (A (pcorner faces p) <-> A (pcorner faces q))).
  { intros p q L. pose proof L as [Vp [Vq [St Ex]]].
    destruct (Z.eq_dec (fv faces p) v) as [Ev|Nv].
    - assert (Ip : In p l) by (apply Cov; auto). destruct (In_znth _ _ (0, 0) Ip) as [i [Hi Ei]].
      fold (rpos l i) in Ei. fold m in Hi.
      assert (Ng : i <> g) by (intros ->; apply (G1 q); now rewrite Ei).
      assert (Ng' : i <> g') by (intros ->; apply (G2 q); now rewrite Ei).
      assert (Eq : q = rpos l ((i + 1) mod m)) by (apply (ring_step faces v l i q R); [auto|now rewrite Ei]).
      assert (Hi' : 0 <= (i + 1) mod m < m) by (apply Z.mod_pos_bound; lia).
      split.
      + intros [k [Hk [Ek Ak]]]. exists ((i + 1) mod m). split; auto. split; [now rewrite Eq|].
        apply pcorner_inj in Ek; auto; [|apply VL; auto]. rewrite <- Ei in Ek.
        apply rpos_inj in Ek; auto. subst k. apply (proj1 (arc_step m g g' i Hm Hg Hg' Hi Ng Ng')). exact Ak.
      + intros [k [Hk [Ek Ak]]]. exists i. split; auto. split; [now rewrite Ei|].
        apply pcorner_inj in Ek; auto; [|apply VL; auto]. rewrite Eq in Ek.
        apply rpos_inj in Ek; auto. subst k. apply (proj2 (arc_step m g g' i Hm Hg Hg' Hi Ng Ng')). exact Ak.
    - (* p is not a corner of v, nor is q *)
      assert (Nq : fv faces q <> v).
      { unfold stepp in St. destruct (direct_face faces (nv' faces p) (fv faces p)) as [[[f2 i2] j2]|] eqn:D; [|discriminate].
        apply direct_face_spec in D. destruct D as [_ [_ [_ [B _]]]]. inversion St; subst q.
        unfold fv, tF, tJ. cbn [fst snd]. congruence. }
      split; intros [k [Hk [Ek _]]]; exfalso.
      + apply pcorner_inj in Ek; auto; [|apply VL; auto]. apply Nv. rewrite Ek. apply VL; auto.
      + apply pcorner_inj in Ek; auto; [|apply VL; auto]. apply Nq. rewrite Ek. apply VL; auto. }
  assert (INV : forall x y, eqcl (glued faces edges cut) x y -> (A x <-> A y)).
  { intros x y E. induction E as [x y H| | |]; try tauto.
    destruct (glued_linked faces edges cut x y T H) as [p [q [L [[-> ->]|[-> ->]]]]]; [apply LK; auto|symmetry; apply LK; auto]. }
  intros E. apply INV in E.
  assert (Hs : 0 <= (g + 1) mod m < m) by (apply Z.mod_pos_bound; lia).
  assert (A1 : A (pcorner faces (rpos l ((g + 1) mod m)))).
  { exists ((g + 1) mod m). split; auto. split; auto. apply arc_start; auto. }
  apply E in A1. destruct A1 as [k [Hk [Ek Ak]]].
  apply pcorner_inj in Ek; auto; try (apply VL; auto). apply rpos_inj in Ek; auto. subst k.
  revert Ak. apply arc_not_g; auto.
Qed.
