(* C16 - concrete objects: non-vacuity of the hypotheses, and the witness of the refuted disk claim *)
From Coq Require Import ZArith List Bool Lia.
Import ListNotations.
Require Import MV.Lib.Base MV.C16.Gen MV.C16.Model MV.C16.Checkers.
Require Import MV.C16.Proofs_Base MV.C16.Proofs_UF MV.C16.Proofs_Struct MV.C16.Proofs_Rebuild.
Require Import MV.C16.Proofs_Prune MV.C16.Proofs_Cotree MV.C16.Proofs_Top.
Open Scope Z_scope.

(* a 3x3 grid disk (8 triangles), singular vertex 4 in the middle; T, ranks: what mouette returned *)
Definition g_faces : list face := [[0;1;4]; [0;4;3]; [1;2;5]; [1;5;4]; [3;4;7]; [3;7;6]; [4;5;8]; [4;8;7]].
Definition g_edges : list (Z * Z) :=
  [(0,1); (1,4); (0,4); (3,4); (0,3); (1,2); (2,5); (1,5); (4,5); (4,7); (3,7); (6,7); (3,6); (5,8); (4,8); (7,8)].
Definition g_T : list Z := [2; 3; 7; 8; 9; 10; 14].
Definition g_rk : Z -> Z := rank_of [(0,0); (1,1); (2,7); (3,6); (4,2); (5,4); (6,5); (7,3)].
Definition g_cut : list Z := [0; 1; 4; 5; 6; 11; 12; 13; 15].

Example grid_hyps : cut_hyps g_faces g_edges g_T g_rk.
Proof. unfold cut_hyps. vm_compute. repeat split; reflexivity. Qed.

Example grid_cut : cut_edges_of g_edges 9 [4] g_T = Some g_cut.
Proof. vm_compute. reflexivity. Qed.

Example grid_spanning : dual_spanning_df_b g_faces g_edges g_T = true /\ forallb (fun e => negb (memZ e g_cut)) g_T = true.
Proof. vm_compute. split; reflexivity. Qed.

Example grid_disk : let r := rebuild g_faces g_edges g_cut in
  is_disk_b (out_faces r) = true /\ singus_on_border_b r [4] = true /\ out_n r = 10.
Proof. vm_compute. repeat split; reflexivity. Qed.

Example grid_surface_ok : surface_ok_b g_faces g_edges = true /\ (exists e1 e2, In e1 g_cut /\ In e2 g_cut /\ e1 <> e2).
Proof. split; [vm_compute; reflexivity|]. exists 0, 1. simpl. repeat split; auto; lia. Qed.

(* the cut edge (1,4) is opened at its border end 1 (faces [0;1;4] and [1;5;4] get different copies of vertex 1)
   but not at the singular leaf 4 (all corners of 4 stay linked the other way round); the two faces of the uncut
   edge (0,4) share both ends *)
Example grid_opened : let r := rebuild g_faces g_edges g_cut in
  out_corner r 0 1 <> out_corner r 3 0 /\ out_corner r 0 2 = out_corner r 3 2 /\
  out_corner r 0 2 = out_corner r 1 1 /\ out_corner r 0 0 = out_corner r 1 0.
Proof. vm_compute. repeat split; congruence. Qed.

(* the pruning does remove something on this example *)
Example grid_pruned_nontrivial :
  prune g_edges 9 (fun v => memZ v [0; 8]) (cut0 g_edges [1; 2; 3; 7; 9; 10; 14]) = Some [0; 4; 5; 6; 11; 12; 13; 15].
Proof. vm_compute. reflexivity. Qed.

(* ---- the refuted disk claim: tetrahedron, singular vertices 0 and 1 (adjacent) *)
Definition t_faces : list face := [[0;1;2]; [0;3;1]; [1;3;2]; [0;2;3]].
Definition t_edges : list (Z * Z) := [(0,1); (1,2); (0,2); (0,3); (1,3); (2,3)].
Definition t_T : list Z := [1; 2; 4].
Definition t_rk : Z -> Z := rank_of [(0,0); (1,3); (2,1); (3,2)].

Lemma tetra_not_a_disk :
  cut_hyps t_faces t_edges t_T t_rk /\ dual_spanning_df_b t_faces t_edges t_T = true /\
  closed_b t_faces = true /\ euler t_faces = 2 /\ surface_ok_b t_faces t_edges = true /\
  cut_edges_of t_edges 4 [0; 1] t_T = Some [0] /\
  let r := rebuild t_faces t_edges [0] in
  out_faces r = t_faces /\ out_n r = 4 /\ is_disk_b (out_faces r) = false /\ euler (out_faces r) = 2 /\
  closed_b (out_faces r) = true /\ singus_on_border_b r [0; 1] = false.
Proof. unfold cut_hyps. vm_compute. repeat split; reflexivity. Qed.

Lemma disk_refuted : exists faces edges nv singus T rk,
  cut_hyps faces edges T rk /\ dual_spanning_df_b faces edges T = true /\
  closed_b faces = true /\ euler faces = 2 /\ surface_ok_b faces edges = true /\ zlen (dedup singus) = 2 /\
  exists cut, cut_edges_of edges nv singus T = Some cut /\
    let r := rebuild faces edges cut in
    is_disk_b (out_faces r) = false /\ euler (out_faces r) = 2 /\ closed_b (out_faces r) = true /\
    singus_on_border_b r singus = false.
Proof.
  exists t_faces, t_edges, 4, [0; 1], t_T, t_rk.
  destruct tetra_not_a_disk as [H1 [H2 [H3 [H4 [H5 [H6 [_ [_ [H7 [H8 [H9 H10]]]]]]]]]]].
  split; [exact H1|]. split; [exact H2|]. split; [exact H3|]. split; [exact H4|]. split; [exact H5|].
  split; [reflexivity|]. exists [0]. split; [exact H6|]. cbv zeta. auto.
Qed.
