(* C16 - basic lemmas on the list utilities of Model.v *)
From Coq Require Import ZArith List Bool Lia.
Import ListNotations.
Require Import MV.Lib.Base MV.C16.Gen MV.C16.Model.
Open Scope Z_scope.

Lemma memZ_In x l : memZ x l = true <-> In x l.
Proof.
  induction l as [|y r IH]; simpl; [split; [discriminate|tauto]|].
  rewrite orb_true_iff, IH, Z.eqb_eq. tauto.
Qed.

Lemma memZ_false x l : memZ x l = false <-> ~ In x l.
Proof. rewrite <- memZ_In. destruct (memZ x l); split; congruence. Qed.

Lemma dedup_In x l : In x (dedup l) <-> In x l.
Proof.
  induction l as [|y r IH]; simpl; [tauto|].
  rewrite filter_In, IH. split.
  - intros [H|[H _]]; auto.
  - intros [H|H]; auto. destruct (Z.eq_dec y x); auto. right. split; auto.
    apply negb_true_iff, Z.eqb_neq. congruence.
Qed.

Lemma NoDup_filter {A} (f : A -> bool) l : NoDup l -> NoDup (filter f l).
Proof.
  induction 1; simpl; [constructor|]. destruct (f x); auto. constructor; auto.
  rewrite filter_In. tauto.
Qed.

Lemma dedup_NoDup l : NoDup (dedup l).
Proof.
  induction l as [|y r IH]; simpl; constructor.
  - rewrite filter_In. intros [_ H]. rewrite Z.eqb_refl in H. discriminate.
  - now apply NoDup_filter.
Qed.

Lemma zlen_cons {A} (x : A) l : zlen (x :: l) = 1 + zlen l.
Proof. unfold zlen. cbn [length]. lia. Qed.

Lemma zlen_nonneg {A} (l : list A) : 0 <= zlen l.
Proof. unfold zlen. lia. Qed.

Lemma index_of_nth x l d : In x l -> nth (Z.to_nat (index_of x l)) l d = x /\ 0 <= index_of x l < zlen l.
Proof.
  induction l as [|y r IH]; [simpl; tauto|].
  intros H. rewrite zlen_cons. cbn [index_of]. pose proof (zlen_nonneg r) as Hr.
  destruct (Z.eqb_spec y x) as [->|N].
  - split; [reflexivity|lia].
  - destruct H as [H|H]; [congruence|]. destruct (IH H) as [E B].
    replace (Z.to_nat (1 + index_of x r)) with (S (Z.to_nat (index_of x r))) by lia. cbn [nth]. split; auto. lia.
Qed.

Lemma index_of_inj x y l : In x l -> In y l -> index_of x l = index_of y l -> x = y.
Proof.
  intros Hx Hy E. destruct (index_of_nth x l 0 Hx) as [A _]. destruct (index_of_nth y l 0 Hy) as [B _].
  rewrite E in A. congruence.
Qed.

Lemma znth_nth {A} (l : list A) i d : 0 <= i -> znth l i d = nth (Z.to_nat i) l d.
Proof. intros H. unfold znth. destruct (Z.ltb_spec i 0); [lia|reflexivity]. Qed.

(* ---- the complement step *)
Lemma cut0_spec edges ev e : In e (cut0 edges ev) <-> (0 <= e < zlen edges) /\ ~ In e ev.
Proof.
  unfold cut0, cut0_keep. rewrite filter_In, In_zrange, negb_true_iff, memZ_false. tauto.
Qed.
