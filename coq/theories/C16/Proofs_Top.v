(* C16 - soundness of the boolean checkers used as hypotheses, and the assembled statements *)
From Coq Require Import ZArith List Bool Lia.
Import ListNotations.
Require Import MV.Lib.Base MV.C16.Gen MV.C16.Model MV.C16.Checkers.
Require Import MV.C16.Proofs_Base MV.C16.Proofs_UF MV.C16.Proofs_Struct MV.C16.Proofs_Rebuild.
Require Import MV.C16.Proofs_Prune MV.C16.Proofs_Cotree.
Open Scope Z_scope.

Lemma tri_ok_of_b faces : tri_ok_b faces = true -> tri_ok faces.
Proof.
  unfold tri_ok_b, tri_ok. rewrite forallb_forall. intros H f Hf.
  specialize (H (znth faces f []) (znth_In _ _ _ Hf)).
  destruct (znth faces f []) as [|a [|b [|c [|d l]]]]; try discriminate.
  rewrite !andb_true_iff, !negb_true_iff, !Z.eqb_neq in H. exists a, b, c. tauto.
Qed.

Lemma table_ok_of_b faces edges : table_ok_b faces edges = true -> table_ok faces edges.
Proof.
  unfold table_ok_b, table_ok. cbn zeta. rewrite forallb_forall. intros H f x y Hf Hx Hy N.
  specialize (H (znth faces f []) (znth_In _ _ _ Hf)). rewrite forallb_forall in H.
  specialize (H x Hx). rewrite forallb_forall in H. specialize (H y Hy).
  apply orb_true_iff in H. destruct H as [H|H]; [apply Z.eqb_eq in H; contradiction|].
  apply existsb_exists in H. destruct H as [e [He J]]. apply In_zrange in He. eauto.
Qed.

Lemma closed_set_of_b edges sing S : closed_set_b edges sing S = true -> closed_set edges sing S.
Proof.
  unfold closed_set_b, closed_set. rewrite forallb_forall. intros H e v He T.
  specialize (H e He). rewrite forallb_forall in H.
  assert (Hv : In v [fst (ends edges e); snd (ends edges e)]).
  { unfold touches in T. rewrite orb_true_iff, !Z.eqb_eq in T. simpl. tauto. }
  specialize (H v Hv). apply orb_true_iff in H. destruct H as [H|H]; [now left|right].
  apply existsb_exists in H. destruct H as [e' [He' K]]. apply andb_true_iff in K. destruct K as [K1 K2].
  apply negb_true_iff, Z.eqb_neq in K2. eauto.
Qed.

Lemma closed_set_weaken edges sing S : closed_set edges (fun _ => false) S -> closed_set edges sing S.
Proof. intros H e v He T. destruct (H e v He T) as [D|D]; [discriminate|now right]. Qed.

Lemma touched_cut_vertices edges cut u : touched edges cut u -> In u (cut_vertices edges cut).
Proof.
  intros [x [e [He J]]]. unfold cut_vertices. apply dedup_In, in_flat_map. exists e. split; auto.
  apply joins_iff in J. simpl. destruct J as [[P Q]|[P Q]]; auto.
Qed.

Lemma eqcl_conn edges cut u v : eqcl (inP (cut_pairs edges cut)) u v -> conn edges cut u v.
Proof.
  induction 1 as [x y H| | |].
  - unfold inP, cut_pairs in H. apply in_map_iff in H. destruct H as [e [E He]].
    eapply conn_step; [|apply conn_refl]. exists e. split; auto. apply joins_iff. rewrite E. simpl. auto.
  - apply conn_refl.
  - now apply conn_sym.
  - eapply conn_trans; eauto.
Qed.

Lemma cut_connected_of_b edges cut : cut_connected_b edges cut = true ->
  forall u v, touched edges cut u -> touched edges cut v -> conn edges cut u v.
Proof.
  unfold cut_connected_b. rewrite all_same_rep_spec. intros H u v Hu Hv.
  apply eqcl_conn, rep_spec. apply H; now apply touched_cut_vertices.
Qed.

Lemma touched_mono edges c1 c2 u : (forall e, In e c1 -> In e c2) -> touched edges c1 u -> touched edges c2 u.
Proof. intros S [x [e [He J]]]. exists x, e. auto. Qed.

Lemma touched_range edges cut u : touched edges cut u -> (forall e, In e cut -> 0 <= e < zlen edges) ->
  touched edges (zrange (zlen edges)) u.
Proof. intros [x [e [He J]]] R. exists x, e. split; auto. apply In_zrange. auto. Qed.

(* ------------------------------------------------------------------ the cut graph *)
Theorem cut_graph_full faces edges nv singus T rk :
  tri_ok_b faces = true -> table_ok_b faces edges = true -> primal_connected_b edges = true ->
  forest_cert_b faces edges T rk = true -> subsetZ T (interior_edges faces edges) = true ->
  closed_set_b edges (fun _ => false) (boundary_edges faces edges) = true ->
  let sing := fun v => memZ v singus in
  let all := zrange (zlen edges) in
  exists cut, cut_edges_of edges nv singus T = Some cut /\
    steps edges sing (cut0 edges T) cut /\ noleaf edges sing nv cut /\
    (forall e, In e cut -> In e (cut0 edges T)) /\
    (forall S, closed_set edges sing S -> (forall e, In e S -> In e (cut0 edges T)) -> forall e, In e S -> In e cut) /\
    (forall e, In e (boundary_edges faces edges) -> In e cut) /\
    (forall u v, touched edges cut u -> touched edges cut v -> conn edges cut u v) /\
    (forall s w, In s singus -> s <> w -> touched edges all s -> touched edges all w ->
                 (In w singus \/ touched edges cut w) -> touched edges cut s).
Proof.
  intros TRI TAB PC FC SUB BC sing all.
  apply tri_ok_of_b in TRI. apply table_ok_of_b in TAB. apply forest_cert_of_b in FC.
  apply closed_set_of_b in BC.
  destruct (prune_ok edges sing nv (cut0 edges T)) as [cut [R [St NL]]].
  assert (C0 : forall u v, touched edges all u -> touched edges all v -> conn edges (cut0 edges T) u v).
  { intros u v Hu Hv. eapply (cotree_connected faces edges rk TRI TAB (length T) T eq_refl FC).
    now apply cut_connected_of_b. }
  assert (R0 : forall e, In e (cut0 edges T) -> 0 <= e < zlen edges) by (intros e He; apply cut0_spec in He; tauto).
  assert (Sub : forall e, In e cut -> In e (cut0 edges T)) by (apply (steps_sub edges sing); auto).
  exists cut. split; [exact R|]. split; [exact St|]. split; [exact NL|]. split; [exact Sub|].
  split; [|split; [|split]].
  - intros S CS SS. eapply steps_keep; eauto.
  - apply (steps_keep edges sing (boundary_edges faces edges) (cut0 edges T) cut); auto.
    + now apply closed_set_weaken.
    + intros e He. unfold boundary_edges in He. cbn zeta in He. apply filter_In in He. destruct He as [He Ni].
      apply In_zrange in He. apply cut0_spec. split; auto. intros HT.
      unfold subsetZ in SUB. rewrite forallb_forall in SUB. specialize (SUB e HT). rewrite SUB in Ni. discriminate.
  - intros u v Hu Hv. apply (steps_conn edges sing (cut0 edges T) cut St u v); auto.
    apply C0; eapply touched_range; eauto; eapply touched_mono; eauto.
  - intros s w Hs Nsw Ts Tw Kw. apply (steps_singular edges sing (cut0 edges T) cut s w St); auto.
    + unfold sing. now apply memZ_In.
    + destruct Kw as [Kw|Kw]; [left; unfold sing; now apply memZ_In|now right].
Qed.

(* ------------------------------------------------------------------ connectivity of the cut mesh *)
(* output faces f and g share an edge: two distinct corners of f are output vertices of g *)
Definition share_edge (faces : list face) (r : rebuilt) (f g : Z) : Prop :=
  exists i i' j j', valid_corner faces f i /\ valid_corner faces f i' /\ valid_corner faces g j /\ valid_corner faces g j' /\
    i <> i' /\ out_corner r f i = out_corner r g j /\ out_corner r f i' = out_corner r g j'.

Lemma dual_pairs_df_spec faces edges T f g : In (f, g) (dual_pairs_df faces edges T) ->
  exists e a b i1 j1 i2 j2, In e T /\ ends edges e = (a, b) /\
    direct_face faces a b = Some (f, i1, j1) /\ direct_face faces b a = Some (g, i2, j2).
Proof.
  unfold dual_pairs_df. cbn zeta. rewrite in_flat_map. intros [e [He H]].
  fold (direct_face faces (fst (ends edges e)) (snd (ends edges e))) in H.
  fold (direct_face faces (snd (ends edges e)) (fst (ends edges e))) in H.
  destruct (direct_face faces (fst (ends edges e)) (snd (ends edges e))) as [[[f1 i1] j1]|] eqn:E1; [|destruct H].
  destruct (direct_face faces (snd (ends edges e)) (fst (ends edges e))) as [[[f2 i2] j2]|] eqn:E2; [|destruct H].
  destruct H as [H|[]]. unfold tF in H. cbn [fst snd] in H. inversion H; subst.
  exists e, (fst (ends edges e)), (snd (ends edges e)), i1, j1, i2, j2. repeat split; auto.
  now destruct (ends edges e).
Qed.

Theorem cut_mesh_connected faces edges cut T :
  tri_ok_b faces = true ->
  dual_spanning_df_b faces edges T = true ->
  (forall e, In e T -> 0 <= e < zlen edges /\ ~ In e cut) ->
  forall f g, 0 <= f < zlen faces -> 0 <= g < zlen faces ->
    eqcl (share_edge faces (rebuild faces edges cut)) f g.
Proof.
  intros TRI SP HT f g Hf Hg. apply tri_ok_of_b in TRI.
  unfold dual_spanning_df_b in SP. rewrite all_same_rep_spec in SP.
  specialize (SP f g (proj2 (In_zrange _ _) Hf) (proj2 (In_zrange _ _) Hg)). apply rep_spec in SP.
  eapply eqcl_mono; [|exact SP]. clear f g Hf Hg SP. intros f g H. unfold inP in H.
  apply dual_pairs_df_spec in H. destruct H as [e [a [b [i1 [j1 [i2 [j2 [He [Eab [E1 E2]]]]]]]]]].
  destruct (HT e He) as [Re Nc].
  destruct (rebuild_full faces edges cut) as [_ [_ [_ [_ [_ [_ [_ [_ UC]]]]]]]].
  destruct (UC e a b f i1 j1 g i2 j2 Re Eab Nc E1 E2) as [U1 U2].
  pose proof (direct_face_spec _ _ _ _ _ _ E1) as [V1 [V1' [A1 [B1 _]]]].
  pose proof (direct_face_spec _ _ _ _ _ _ E2) as [V2 [V2' [A2 [B2 _]]]].
  exists i1, j1, j2, i2. repeat split; try apply V1; try apply V1'; try apply V2; try apply V2'; auto.
  (* i1 <> j1 : j1 is the local index following i1 in a triangle *)
  intros EQ. destruct V1 as [Rf Ri]. destruct (TRI f Rf) as [x [y [z [EF _]]]].
  apply direct_face_spec in E1. destruct E1 as [_ [_ [_ [_ M]]]]. rewrite EF in M, Ri.
  change (zlen [x; y; z]) with 3 in M, Ri. rewrite <- EQ in M.
  assert (K : i1 = 0 \/ i1 = 1 \/ i1 = 2) by lia.
  destruct K as [ -> | [ -> | -> ] ]; vm_compute in M; discriminate.
Qed.

(* ------------------------------------------------------------------ Euler characteristic: the counting identity *)
Lemma euler_identity (V E F Eb nT e0 v0 eG vG V' E' : Z) :
  nT = F - 1 ->              (* the dual tree has F-1 edges *)
  e0 = E - nT ->             (* cut_edges before pruning: the complement *)
  v0 = V ->                  (* ... which touches every vertex *)
  eG - vG = e0 - v0 ->       (* each leaf removal deletes one edge and one touched vertex *)
  E' = E + (eG - Eb) ->      (* every interior cut edge is doubled *)
  V' = V + (2 * eG - vG - Eb) -> (* a vertex of the cut graph gets deg copies (deg - 1 on the border, V_b = E_b) *)
  V' - E' + F = 1.
Proof. lia. Qed.

(* ------------------------------------------------------------------ projections of cut_graph_full *)
Definition cut_hyps faces edges T rk : Prop :=
  tri_ok_b faces = true /\ table_ok_b faces edges = true /\ primal_connected_b edges = true /\
  forest_cert_b faces edges T rk = true /\ subsetZ T (interior_edges faces edges) = true /\
  closed_set_b edges (fun _ => false) (boundary_edges faces edges) = true.

Theorem cut_graph_border_connected faces edges nv singus T rk : cut_hyps faces edges T rk ->
  exists cut, cut_edges_of edges nv singus T = Some cut /\
    (forall e, In e cut -> In e (cut0 edges T)) /\
    (forall e, In e (boundary_edges faces edges) -> In e cut) /\
    (forall u v, touched edges cut u -> touched edges cut v -> conn edges cut u v).
Proof.
  intros [H1 [H2 [H3 [H4 [H5 H6]]]]].
  destruct (cut_graph_full faces edges nv singus T rk H1 H2 H3 H4 H5 H6) as [cut [A [_ [_ [B [_ [C [D _]]]]]]]].
  exists cut. auto.
Qed.

Theorem cut_graph_singularities faces edges nv singus T rk : cut_hyps faces edges T rk ->
  exists cut, cut_edges_of edges nv singus T = Some cut /\
    forall s w, In s singus -> s <> w ->
      touched edges (zrange (zlen edges)) s -> touched edges (zrange (zlen edges)) w ->
      (In w singus \/ touched edges cut w) -> touched edges cut s.
Proof.
  intros [H1 [H2 [H3 [H4 [H5 H6]]]]].
  destruct (cut_graph_full faces edges nv singus T rk H1 H2 H3 H4 H5 H6) as [cut [A [_ [_ [_ [_ [_ [_ D]]]]]]]].
  exists cut. auto.
Qed.

Theorem pruning_full edges sing nv cut0 :
  exists cut, prune edges nv sing cut0 = Some cut /\
    steps edges sing cut0 cut /\ noleaf edges sing nv cut /\
    (forall e, In e cut -> In e cut0) /\
    (forall S, closed_set edges sing S -> (forall e, In e S -> In e cut0) -> forall e, In e S -> In e cut) /\
    (forall u v, (sing u = true \/ touched edges cut u) -> (sing v = true \/ touched edges cut v) ->
                 conn edges cut0 u v -> conn edges cut u v).
Proof.
  destruct (prune_ok edges sing nv cut0) as [cut [R [St NL]]]. exists cut.
  split; auto. split; auto. split; auto. split; [apply (steps_sub edges sing); auto|]. split.
  - intros S CS SS. eapply steps_keep; eauto.
  - apply (steps_conn edges sing); auto.
Qed.
