(* C16 - the relaxation test of the dual Dijkstra (generated from both _build_dual_tree_* functions) *)
From Coq Require Import ZArith List Bool Lia.
Import ListNotations.
Require Import MV.Lib.Base MV.C16.Gen MV.C16.Model.
Open Scope Z_scope.

(* a face that was settled before the popped one (its distance is not larger) keeps its distance AND its parent
   edge, whatever the length d >= 0 of the dual edge - in particular for d = 0 (faces with the same barycentre);
   and an overwrite strictly decreases the distance *)
Lemma dual_relaxation_strict :
  (forall old cur d e, 0 <= d -> fst old <= cur ->
     relax_step relax_dual_no_features old cur d e = old /\ relax_step relax_dual_with_features old cur d e = old) /\
  (forall old cur d e, relax_step relax_dual_no_features old cur d e <> old ->
     fst (relax_step relax_dual_no_features old cur d e) < fst old) /\
  (forall old cur d e, relax_step relax_dual_with_features old cur d e <> old ->
     fst (relax_step relax_dual_with_features old cur d e) < fst old).
Proof.
  unfold relax_step, relax_dual_no_features, relax_dual_with_features. split; [|split].
  - intros old cur d e Hd Ho. destruct (Z.gtb_spec (fst old) (cur + d)); [lia|]. auto.
  - intros old cur d e H. destruct (Z.gtb_spec (fst old) (cur + d)); [cbn [fst]; lia|congruence].
  - intros old cur d e H. destruct (Z.gtb_spec (fst old) (cur + d)); [cbn [fst]; lia|congruence].
Qed.

Example relax_nontrivial : relax_step relax_dual_no_features (7, Some 3) 2 4 9 = (6, Some 9)
                        /\ relax_step relax_dual_no_features (6, Some 3) 6 0 9 = (6, Some 3).
Proof. split; reflexivity. Qed.
