(* C16 - _prune_edge_tree: the queue loop is a sequence of removals of non-singular leaves, ends within its fuel
   with no non-singular leaf left; consequences for every such sequence. *)
From Coq Require Import ZArith List Bool Lia Relations.
Import ListNotations.
Require Import MV.Lib.Base MV.C16.Gen MV.C16.Model MV.C16.Checkers.
Require Import MV.C16.Proofs_Base MV.C16.Proofs_Struct.
Open Scope Z_scope.

Section Graph.
  Variable edges : list (Z * Z).

  Definition adj (cut : list Z) (a b : Z) : Prop := exists e, In e cut /\ joins edges e a b = true.

  Lemma joins_sym e a b : joins edges e a b = joins edges e b a.
  Proof. unfold joins. cbn zeta. apply orb_comm. Qed.
  Lemma adj_sym cut a b : adj cut a b -> adj cut b a.
  Proof. intros [e [H J]]. exists e. split; auto. now rewrite joins_sym. Qed.

  Lemma joins_iff e a b : joins edges e a b = true <->
    (fst (ends edges e) = a /\ snd (ends edges e) = b) \/ (fst (ends edges e) = b /\ snd (ends edges e) = a).
  Proof. unfold joins. cbn zeta. rewrite orb_true_iff, !andb_true_iff, !Z.eqb_eq. tauto. Qed.

  Lemma touches_other e a : touches edges e a = true -> joins edges e a (other_end edges e a) = true.
  Proof.
    unfold touches, other_end. rewrite orb_true_iff, !Z.eqb_eq. intros H. apply joins_iff.
    destruct (Z.eqb_spec (fst (ends edges e)) a); [left; tauto|right; tauto].
  Qed.
  Lemma joins_touches e a b : joins edges e a b = true -> touches edges e a = true /\ other_end edges e a = b.
  Proof.
    intros H. apply joins_iff in H. unfold touches, other_end. rewrite orb_true_iff, !Z.eqb_eq.
    destruct (Z.eqb_spec (fst (ends edges e)) a); destruct H as [[A B]|[A B]]; split; auto; congruence.
  Qed.

  Lemma nbrs_spec cut a b : In b (nbrs edges cut a) <-> adj cut a b.
  Proof.
    unfold nbrs. rewrite dedup_In, in_map_iff. split.
    - intros [e [E H]]. apply filter_In in H. destruct H as [H T]. exists e. split; auto.
      rewrite <- E. now apply touches_other.
    - intros [e [H J]]. apply joins_touches in J. destruct J as [T O]. exists e. split; auto.
      apply filter_In. auto.
  Qed.

  Lemma remove_edge_In cut a b e : In e (remove_edge edges cut a b) <-> In e cut /\ joins edges e a b = false.
  Proof. unfold remove_edge. rewrite filter_In, negb_true_iff. tauto. Qed.

  Lemma adj_remove cut a b x y : adj (remove_edge edges cut a b) x y -> adj cut x y.
  Proof. intros [e [H J]]. apply remove_edge_In in H. exists e. tauto. Qed.

  Definition at_most_one (cut : list Z) (a : Z) : Prop := forall x y, adj cut a x -> adj cut a y -> x = y.

  Lemma nbrs_at_most_one cut a : at_most_one cut a -> nbrs edges cut a = [] \/ exists b, nbrs edges cut a = [b].
  Proof.
    intros H. assert (ND : NoDup (nbrs edges cut a)) by apply dedup_NoDup.
    destruct (nbrs edges cut a) as [|b [|c l]] eqn:E; auto; [right; eauto|].
    exfalso. assert (b = c).
    { apply H; apply nbrs_spec; rewrite E; simpl; auto. }
    subst. inversion ND as [|? ? N _]. apply N. now left.
  Qed.

  Lemma deg_one cut a : deg edges cut a = 1 -> at_most_one cut a /\ exists b, adj cut a b.
  Proof.
    unfold deg, zlen. intros H. destruct (nbrs edges cut a) as [|b [|c l]] eqn:E; cbn [length] in H; try lia.
    split.
    - intros x y Hx Hy. apply nbrs_spec in Hx, Hy. rewrite E in Hx, Hy. simpl in *. intuition congruence.
    - exists b. apply nbrs_spec. rewrite E. now left.
  Qed.

  Lemma filter_len_le {A} (f : A -> bool) l : (length (filter f l) <= length l)%nat.
  Proof. induction l as [|x l IH]; simpl; [lia|]. destruct (f x); simpl; lia. Qed.

  Lemma remove_length cut a b : adj cut a b -> (length (remove_edge edges cut a b) < length cut)%nat.
  Proof.
    intros [e [H J]]. unfold remove_edge. induction cut as [|x l IH]; [destruct H|]. cbn [filter].
    destruct H as [->|H].
    - rewrite J. cbn [negb]. pose proof (filter_len_le (fun e0 => negb (joins edges e0 a b)) l). simpl. lia.
    - specialize (IH H). destruct (negb (joins edges x a b)); simpl; lia.
  Qed.

  (* neighbours of a vertex that is no end of the removed edge are unchanged *)
  Lemma nbrs_remove_other cut a b v : v <> a -> v <> b ->
    nbrs edges (remove_edge edges cut a b) v = nbrs edges cut v.
  Proof.
    intros Na Nb. unfold nbrs, remove_edge. f_equal. f_equal.
    induction cut as [|e l IH]; [reflexivity|]. cbn [filter].
    destruct (joins edges e a b) eqn:J; cbn [negb].
    - destruct (touches edges e v) eqn:T; auto. exfalso.
      apply joins_iff in J. unfold touches in T. rewrite orb_true_iff, !Z.eqb_eq in T.
      destruct J as [[A B]|[A B]]; destruct T; congruence.
    - cbn [filter]. destruct (touches edges e v); auto. now f_equal.
  Qed.

  Lemma nbrs_remove_leaf cut A B : at_most_one cut A -> adj cut A B -> nbrs edges (remove_edge edges cut A B) A = [].
  Proof.
    intros H HB. destruct (nbrs edges (remove_edge edges cut A B) A) as [|x l] eqn:E; auto. exfalso.
    assert (Hx : adj (remove_edge edges cut A B) A x) by (apply nbrs_spec; rewrite E; now left).
    destruct Hx as [e [He J]]. apply remove_edge_In in He. destruct He as [He Jf].
    assert (x = B) by (apply H; auto; exists e; auto). subst. congruence.
  Qed.

  (* walks *)
  Fixpoint walk_in (cut : list Z) (u : Z) (l : list Z) (v : Z) : Prop :=
    match l with [] => u = v | x :: r => adj cut u x /\ walk_in cut x r v end.
  Definition conn (cut : list Z) (u v : Z) : Prop := exists l, walk_in cut u l v.

  Lemma conn_refl cut u : conn cut u u.
  Proof. exists []. reflexivity. Qed.
  Lemma conn_step cut u x v : adj cut u x -> conn cut x v -> conn cut u v.
  Proof. intros H [l W]. exists (x :: l). split; auto. Qed.
  Lemma conn_trans cut u v w : conn cut u v -> conn cut v w -> conn cut u w.
  Proof.
    intros [l W]. revert u W. induction l as [|x r IH]; intros u W C; simpl in W.
    - now subst.
    - destruct W as [A W]. eapply conn_step; eauto.
  Qed.
  Lemma conn_sym cut u v : conn cut u v -> conn cut v u.
  Proof.
    intros [l W]. revert u W. induction l as [|x r IH]; intros u W; simpl in W.
    - subst. apply conn_refl.
    - destruct W as [A W]. eapply conn_trans; [apply IH; eauto|]. eapply conn_step; [apply adj_sym; eauto|apply conn_refl].
  Qed.
  Lemma conn_mono cut cut' u v : (forall a b, adj cut a b -> adj cut' a b) -> conn cut u v -> conn cut' u v.
  Proof.
    intros M [l W]. revert u W. induction l as [|x r IH]; intros u W; simpl in W.
    - subst. apply conn_refl.
    - destruct W as [A W]. eapply conn_step; eauto.
  Qed.

  Lemma leaf_removal_conn cut A B : at_most_one cut A -> adj cut A B ->
    forall n l u v, (length l <= n)%nat -> u <> A -> v <> A -> walk_in cut u l v ->
                    conn (remove_edge edges cut A B) u v.
  Proof.
    intros AM HB. induction n as [|n IH]; intros l u v Hl Nu Nv W.
    - destruct l; [|simpl in Hl; lia]. simpl in W. subst. apply conn_refl.
    - destruct l as [|x r]; [simpl in W; subst; apply conn_refl|]. simpl in W. destruct W as [Hux W].
      destruct (Z.eq_dec x A) as [->|Nx].
      + assert (u = B) by (apply AM; auto; now apply adj_sym). subst u.
        destruct r as [|y r2]; [simpl in W; congruence|]. simpl in W. destruct W as [HAy W].
        assert (y = B) by (apply AM; auto). subst y. apply (IH r2); auto. simpl in Hl. lia.
      + apply (conn_step _ u x v); [|apply (IH r); auto; simpl in Hl; lia].
        destruct Hux as [e [He J]]. exists e. split; auto. apply remove_edge_In. split; auto.
        destruct (joins edges e A B) eqn:J2; auto. exfalso.
        apply joins_iff in J, J2. destruct J as [[P Q]|[P Q]]; destruct J2 as [[P2 Q2]|[P2 Q2]]; congruence.
  Qed.

  Definition touched (cut : list Z) (v : Z) : Prop := exists x, adj cut v x.

End Graph.
Arguments joins_sym {edges}.
Arguments adj_sym {edges}.
Arguments joins_iff {edges}.
Arguments touches_other {edges}.
Arguments joins_touches {edges}.
Arguments nbrs_spec {edges}.
Arguments remove_edge_In {edges}.
Arguments adj_remove {edges}.
Arguments nbrs_at_most_one {edges}.
Arguments deg_one {edges}.
Arguments remove_length {edges}.
Arguments nbrs_remove_other {edges}.
Arguments nbrs_remove_leaf {edges}.
Arguments conn_refl {edges}.
Arguments conn_step {edges}.
Arguments conn_trans {edges}.
Arguments conn_sym {edges}.
Arguments conn_mono {edges}.
Arguments leaf_removal_conn {edges}.

Section Prune.
  Variable edges : list (Z * Z).
  Variable sing : Z -> bool.
  Notation adj := (adj edges).
  Notation at_most_one := (at_most_one edges).
  Notation conn := (conn edges).
  Notation walk_in := (walk_in edges).
  Notation touched := (touched edges).

  (* one removal of a non-singular leaf A (whose only neighbour is B) *)
  Definition leaf_removal (cut cut' : list Z) : Prop :=
    exists A B, sing A = false /\ adj cut A B /\ at_most_one cut A /\ cut' = remove_edge edges cut A B.
  Definition steps := clos_refl_trans_1n (list Z) leaf_removal.

  Definition inv1 (queue cut : list Z) : Prop := forall A, In A queue -> sing A = false /\ at_most_one cut A.
  Definition inv2 (nv : Z) (queue cut : list Z) : Prop :=
    forall v, 0 <= v < nv -> sing v = false -> deg edges cut v = 1 -> In v queue.
  Definition noleaf (nv : Z) (cut : list Z) : Prop :=
    forall v, 0 <= v < nv -> sing v = false -> deg edges cut v <> 1.

  Lemma leaf_test_loop_spec d s : leaf_test_loop d s = true <-> d = 1 /\ s = false.
  Proof. unfold leaf_test_loop. rewrite andb_true_iff, Z.eqb_eq, negb_true_iff. tauto. Qed.
  Lemma leaf_test_init_spec d s : leaf_test_init d s = true <-> d = 1 /\ s = false.
  Proof. unfold leaf_test_init. rewrite andb_true_iff, Z.eqb_eq, negb_true_iff. tauto. Qed.

  Lemma prune_loop_ok nv : forall fuel queue cut,
    inv1 queue cut -> (length queue + length cut < fuel)%nat ->
    exists cut', prune_loop fuel edges sing queue cut = Some cut' /\ steps cut cut' /\
                 (inv2 nv queue cut -> noleaf nv cut').
  Proof.
    induction fuel as [|fuel IH]; intros queue cut I1 Hf; [lia|].
    destruct queue as [|A q].
    - exists cut. cbn [prune_loop]. split; auto. split; [apply Relation_Operators.rt1n_refl|].
      intros I2 v Hv Hs Hd. exact (I2 v Hv Hs Hd).
    - cbn [prune_loop]. destruct (I1 A (or_introl eq_refl)) as [SA AM].
      assert (I1q : inv1 q cut) by (intros x Hx; apply I1; now right).
      destruct (nbrs_at_most_one cut A AM) as [E|[B E]]; rewrite E; cbn [fold_left fst snd].
      + destruct (IH q cut I1q) as [cut' [R [S L]]]; [cbn [length] in Hf; lia|].
        exists cut'. split; auto. split; auto. intros I2. apply L. intros v Hv Hs Hd.
        destruct (I2 v Hv Hs Hd) as [<-|Hq]; auto. exfalso. unfold deg in Hd. rewrite E in Hd. discriminate.
      + assert (HB : adj cut A B) by (apply nbrs_spec; rewrite E; now left).
        unfold prune_inner. cbn [fst snd].
        set (cut1 := remove_edge edges cut A B).
        set (q1 := if leaf_test_loop (deg edges cut1 B) (sing B) then q ++ [B] else q).
        assert (I1' : inv1 q1 cut1).
        { intros x Hx. unfold q1 in Hx. destruct (leaf_test_loop _ _) eqn:T.
          - apply in_app_or in Hx. destruct Hx as [Hx|[<-|[]]].
            + destruct (I1q x Hx) as [S1 M1]. split; auto. intros y z Hy Hz. apply M1; eapply adj_remove; eauto.
            + apply leaf_test_loop_spec in T. destruct T as [T1 T2]. split; auto. now apply deg_one.
          - destruct (I1q x Hx) as [S1 M1]. split; auto. intros y z Hy Hz. apply M1; eapply adj_remove; eauto. }
        assert (Hlen : (length q1 + length cut1 < fuel)%nat).
        { pose proof (remove_length cut A B HB) as RL. fold cut1 in RL. cbn [length] in Hf.
          assert (length q1 <= S (length q))%nat.
          { unfold q1. destruct (leaf_test_loop _ _); [rewrite app_length; simpl; lia|lia]. }
          lia. }
        destruct (IH q1 cut1 I1' Hlen) as [cut' [R [S L]]].
        exists cut'. split; auto. split.
        * eapply Relation_Operators.rt1n_trans; [|exact S]. exists A, B. auto.
        * intros I2. apply L. intros v Hv Hs Hd.
          destruct (Z.eq_dec v A) as [->|NA].
          { exfalso. unfold deg, cut1 in Hd. rewrite nbrs_remove_leaf in Hd by auto. discriminate. }
          destruct (Z.eq_dec v B) as [->|NB].
          { unfold q1. assert (T : leaf_test_loop (deg edges cut1 B) (sing B) = true) by (apply leaf_test_loop_spec; auto).
            rewrite T. apply in_or_app. right. now left. }
          assert (Hd0 : deg edges cut v = 1).
          { unfold deg in *. unfold cut1 in Hd. now rewrite nbrs_remove_other in Hd by auto. }
          destruct (I2 v Hv Hs Hd0) as [->|Hq]; [congruence|].
          unfold q1. destruct (leaf_test_loop _ _); auto. apply in_or_app. now left.
  Qed.

  Theorem prune_ok nv cut :
    exists cut', prune edges nv sing cut = Some cut' /\ steps cut cut' /\ noleaf nv cut'.
  Proof.
    unfold prune. cbn zeta. set (q := prune_queue0 edges nv sing cut).
    destruct (prune_loop_ok nv (length q + length cut + 1) q cut) as [cut' [R [S L]]].
    - intros A HA. unfold q, prune_queue0 in HA. apply filter_In in HA. destruct HA as [_ T].
      apply leaf_test_init_spec in T. destruct T as [T1 T2]. split; auto. now apply deg_one.
    - lia.
    - exists cut'. split; auto. split; auto. apply L. intros v Hv Hs Hd. unfold q, prune_queue0.
      apply filter_In. split; [now apply In_zrange|]. apply leaf_test_init_spec. auto.
  Qed.

  (* ------------------------------------------------------------------ what every sequence of leaf removals preserves *)
  Lemma steps_sub cut cut' : steps cut cut' -> forall e, In e cut' -> In e cut.
  Proof.
    induction 1 as [|cut c1 c2 [A [B [SA [HB [AM ->]]]]] _ IH]; auto.
    intros e He. apply IH in He. apply remove_edge_In in He. tauto.
  Qed.

  (* S is leaf-free up to singular vertices: every end of an edge of S is singular or has another neighbour in S *)
  Definition closed_set (S : list Z) : Prop :=
    forall e v, In e S -> touches edges e v = true ->
      sing v = true \/ exists e', In e' S /\ touches edges e' v = true /\ other_end edges e' v <> other_end edges e v.

  Lemma steps_keep S cut cut' : closed_set S -> steps cut cut' -> (forall e, In e S -> In e cut) ->
    forall e, In e S -> In e cut'.
  Proof.
    intros CS St. induction St as [|cut c1 c2 [A [B [SA [HB [AM ->]]]]] _ IH]; auto.
    intros Sub e He. apply IH; auto. clear e He. intros e He. apply remove_edge_In. split; [auto|].
    destruct (joins edges e A B) eqn:J; auto. exfalso.
    destruct (joins_touches _ _ _ J) as [T O].
    destruct (CS e A He T) as [Sg|[e' [He' [T' NO]]]]; [congruence|].
    apply NO. rewrite O. apply AM.
    - exists e'. split; auto. now apply touches_other.
    - exists e. split; auto.
  Qed.

  (* connectivity between vertices that are never removed (singular, or still an end of a remaining edge) *)
  Lemma steps_conn cut cut' : steps cut cut' ->
    forall u v, (sing u = true \/ touched cut' u) -> (sing v = true \/ touched cut' v) ->
                conn cut u v -> conn cut' u v.
  Proof.
    induction 1 as [|cut c1 c2 [A [B [SA [HB [AM ->]]]]] St IH]; auto.
    intros u v Ku Kv C. apply IH; auto.
    assert (K : forall w, sing w = true \/ touched c2 w -> w <> A).
    { intros w [Sw|[x [e [He J]]]] ->; [congruence|].
      pose proof (steps_sub _ _ St e He) as He1. apply remove_edge_In in He1. destruct He1 as [He1 Jf].
      assert (x = B) by (apply AM; auto; exists e; auto). subst. congruence. }
    destruct C as [l W]. eapply leaf_removal_conn; eauto.
  Qed.

  (* a singular vertex connected to another vertex that is never removed stays an end of a cut edge *)
  Lemma steps_singular cut cut' s w : steps cut cut' -> sing s = true -> s <> w ->
    (sing w = true \/ touched cut' w) -> conn cut s w -> touched cut' s.
  Proof.
    intros St Ss Nw Kw C. assert (C' : conn cut' s w) by (eapply steps_conn; eauto).
    destruct C' as [[|x l] W]; simpl in W; [congruence|]. destruct W as [A _]. now exists x.
  Qed.
End Prune.
