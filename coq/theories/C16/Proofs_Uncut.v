(* C16 - a vertex that is on no cut edge is not duplicated; with an empty cut set (the sphere exception) the rebuilt
   mesh is the input mesh up to the numbering of its vertices *)
From Coq Require Import ZArith List Bool Lia.
Import ListNotations.
Require Import MV.Lib.Base MV.C16.Gen MV.C16.Model MV.C16.Checkers.
Require Import MV.C16.Proofs_Base MV.C16.Proofs_UF MV.C16.Proofs_Struct MV.C16.Proofs_Rebuild MV.C16.Proofs_Prune.
Require Import MV.C16.Proofs_Cotree MV.C16.Proofs_Top MV.C16.Proofs_Ring MV.C16.Proofs_Border MV.C16.Proofs_SingBorder MV.C16.Proofs_CheckRing.
Open Scope Z_scope.

Section Uncut.
  Variable faces : list face.
  Variable edges : list (Z * Z).
  Variable cut : list Z.
  Hypothesis T : all_tri faces.
  Hypothesis TRI : tri_ok faces.
  Hypothesis O : oriented faces.
  Hypothesis TAB : table_ok faces edges.
  Let r := rebuild faces edges cut.

  (* a link of the ring across an uncut edge is a glued pair *)
  Lemma linked_glued p q : linkedp faces edges cut p q ->
    eqcl (glued faces edges cut) (pcorner faces p) (pcorner faces q).
  Proof.
    intros [Vp [Vq [St [e [Re [Nc J]]]]]]. destruct p as [f k]. unfold validp in Vp. cbn [fst snd] in Vp.
    destruct (valid_tri _ _ _ T Vp) as [Rf Rk].
    assert (LF : zlen (znth faces f []) = 3) by (apply T, znth_In; lia).
    pose proof (direct_face_unique faces f k O Vp) as U. cbn zeta in U. rewrite LF in U.
    unfold stepp, fv, nv' in St. cbn [fst snd] in St. unfold fv, nv' in J. cbn [fst snd] in J.
    set (v := znth (znth faces f []) k 0) in *. set (w := znth (znth faces f []) ((k + 1) mod 3) 0) in *.
    destruct (direct_face faces w v) as [[[g h] h']|] eqn:D; [|discriminate].
    unfold tF, tJ in St. cbn [fst snd] in St. inversion St; subst q. unfold pcorner. cbn [fst snd].
    apply joins_iff in J. destruct J as [[P Q]|[P Q]].
    - apply ec_base. exists e, v, w, f, k, ((k + 1) mod 3), g, h, h'. repeat split; auto; try lia.
      destruct (ends edges e); cbn [fst snd] in *; congruence.
    - apply ec_sym, ec_base. exists e, w, v, g, h, h', f, k, ((k + 1) mod 3). repeat split; auto; try lia.
      destruct (ends edges e); cbn [fst snd] in *; congruence.
  Qed.

  (* all the corners of a vertex that no cut edge touches get ONE output vertex *)
  Theorem vertex_not_duplicated v l : ring_at faces v l ->
    (forall e, In e cut -> touches edges e v = false) ->
    forall p q, In p l -> In q l -> out_corner r (fst p) (snd p) = out_corner r (fst q) (snd q).
  Proof.
    intros R NC. pose proof R as [ND [Cov [Steps _]]].
    assert (VL : forall i, 0 <= i < zlen l -> validp faces (rpos l i) /\ fv faces (rpos l i) = v).
    { intros i Hi. apply Cov. unfold rpos. now apply znth_In. }
    assert (LK : forall i, 0 <= i < zlen l - 1 -> linkedp faces edges cut (rpos l i) (rpos l (i + 1))).
    { intros i Hi. destruct (VL i ltac:(lia)) as [Vp Fp]. destruct (VL (i + 1) ltac:(lia)) as [Vq _].
      split; auto. split; auto. split; [apply Steps; lia|].
      destruct (rpos l i) as [f k] eqn:E. unfold validp in Vp. cbn [fst snd] in Vp.
      destruct (valid_tri _ _ _ T Vp) as [Rf Rk].
      destruct (TRI f Rf) as [a [b [c [EF [Nab [Nbc Nac]]]]]].
      assert (LF : zlen (znth faces f []) = 3) by (rewrite EF; reflexivity).
      assert (Hk' : 0 <= (k + 1) mod 3 < 3) by (apply Z.mod_pos_bound; lia).
      assert (NE : fv faces (f, k) <> nv' faces (f, k)).
      { unfold fv, nv'. cbn [fst snd]. rewrite EF. assert (Kk : k = 0 \/ k = 1 \/ k = 2) by lia.
        destruct Kk as [ -> | [ -> | -> ] ]; vm_compute; congruence. }
      destruct (TAB f (fv faces (f, k)) (nv' faces (f, k)) Rf) as [e [Re J]]; auto.
      - unfold fv. cbn [fst snd]. apply znth_In. lia.
      - unfold nv'. cbn [fst snd]. apply znth_In. lia.
      - exists e. split; auto. split; auto. intros Hc. specialize (NC e Hc).
        apply joins_touches in J. destruct J as [Tt _]. rewrite Fp in Tt. congruence. }
    assert (CH : forall n, (Z.of_nat n < zlen l) ->
              eqcl (glued faces edges cut) (pcorner faces (rpos l 0)) (pcorner faces (rpos l (Z.of_nat n)))).
    { induction n as [|n IH]; intros Hn; [apply ec_refl|].
      eapply ec_trans; [apply IH; lia|]. replace (Z.of_nat (S n)) with (Z.of_nat n + 1) by lia.
      apply linked_glued, LK. lia. }
    assert (ALL : forall p, In p l -> out_corner r (fst p) (snd p) = out_corner r (fst (rpos l 0)) (snd (rpos l 0))).
    { intros p Hp. destruct (In_znth _ _ (0, 0) Hp) as [i [Hi Ei]]. fold (rpos l i) in Ei.
      destruct (VL i Hi) as [Vi _]. destruct (VL 0 ltac:(lia)) as [V0 _].
      destruct (rebuild_full faces edges cut) as [_ [_ [_ [_ [_ [_ [ID _]]]]]]]. fold r in ID.
      rewrite <- Ei. apply ID; auto. apply ec_sym. specialize (CH (Z.to_nat i)). rewrite Z2Nat.id in CH by lia.
      apply CH. lia. }
    intros p q Hp Hq. rewrite (ALL p Hp), (ALL q Hq). reflexivity.
  Qed.

  (* empty cut set: ref_vertex is injective on the output vertices - nothing was duplicated, the mesh is left uncut *)
  Theorem empty_cut_left_uncut : rings faces -> cut = [] ->
    forall k k', 0 <= k < out_n r -> 0 <= k' < out_n r -> ref_vertex r k = ref_vertex r k' -> k = k'.
  Proof.
    intros RG E k k' Hk Hk' ER.
    destruct (rebuild_full faces edges cut) as [RF [_ [_ [_ [US _]]]]]. fold r in RF, US.
    destruct (US k Hk) as [f [i [V Ek]]]. destruct (US k' Hk') as [f' [i' [V' Ek']]].
    assert (RC : forall g j, valid_corner faces g j -> ref_vertex r (out_corner r g j) = Some (znth (znth faces g []) j 0)).
    { intros g j Vg. unfold r. now apply ref_out_corner. }
    rewrite <- Ek, <- Ek' in ER. rewrite (RC f i V), (RC f' i' V') in ER. inversion ER as [EV].
    destruct (RG (f, i) V) as [l R]. pose proof R as [_ [Cov _]].
    assert (I1 : In (f, i) l) by (apply Cov; auto).
    assert (I2 : In (f', i') l) by (apply Cov; split; auto; unfold fv; cbn [fst snd]; now rewrite <- EV).
    rewrite <- Ek, <- Ek'. apply (vertex_not_duplicated _ l R) with (p := (f, i)) (q := (f', i')); auto.
    intros e He. rewrite E in He. destruct He.
  Qed.
End Uncut.
