(* C16 - the border of the rebuilt mesh, exactly: an output half-edge is a border half-edge iff its input half-edge has
   no face on the other side, or the two faces of its edge do not share both of its ends; every border half-edge of
   the cut mesh lies over an input border edge or over an edge of cut_edges ("only the edges reported as cut were
   opened", at the level of the output mesh); counts of vertices and faces of the cut mesh. *)
From Coq Require Import ZArith List Bool Lia.
Import ListNotations.
Require Import MV.Lib.Base MV.C16.Gen MV.C16.Model MV.C16.Checkers.
Require Import MV.C16.Proofs_Base MV.C16.Proofs_UF MV.C16.Proofs_Struct MV.C16.Proofs_Rebuild MV.C16.Proofs_Prune.
Require Import MV.C16.Proofs_Cotree MV.C16.Proofs_Top MV.C16.Proofs_Ring MV.C16.Proofs_Border MV.C16.Proofs_SingBorder MV.C16.Proofs_CheckRing.
Open Scope Z_scope.

Section OutBorder.
  Variable faces : list face.
  Variable edges : list (Z * Z).
  Variable cut : list Z.
  Hypothesis T : all_tri faces.
  Hypothesis TRI : tri_ok faces.
  Hypothesis O : oriented faces.
  Hypothesis TAB : table_ok faces edges.
  Let r := rebuild faces edges cut.
  Let OF := out_faces r.

  (* every directed edge of the output is the copy of the input half-edge of some corner *)
  Lemma out_dir_edge_inv b : In b (dir_edges OF) ->
    exists f k k' x y, direct_face faces x y = Some (f, k, k') /\ b = (out_corner r f k, out_corner r f k') /\ x <> y.
  Proof.
    intros HI. unfold dir_edges, half_edges in HI. apply in_map_iff in HI. destruct HI as [[key val] [E HI]].
    cbn [fst] in E. subst key. apply half_edges_spec0 in HI. destruct HI as [f [k [R1 [R2 K]]]].
    destruct (OF_lengths faces edges cut T) as [L1 L2]. fold r in L1, L2. fold OF in L1, L2.
    rewrite L1 in R1. rewrite L2 in R2, K by lia.
    assert (LF : zlen (znth faces f []) = 3) by (apply T, znth_In; lia).
    assert (V : valid_corner faces f k) by (split; [lia|rewrite LF; lia]).
    pose proof (direct_face_unique faces f k O V) as U. cbn zeta in U. rewrite LF in U.
    exists f, k, ((k + 1) mod 3), (znth (znth faces f []) k 0), (znth (znth faces f []) ((k + 1) mod 3) 0).
    split; [exact U|]. split; [exact K|].
    destruct (TRI f R1) as [a [b0 [c [EF [Nab [Nbc Nac]]]]]]. rewrite EF.
    assert (Kk : k = 0 \/ k = 1 \/ k = 2) by lia.
    destruct Kk as [ -> | [ -> | -> ] ]; vm_compute; congruence.
  Qed.

  (* exact characterisation of the border half-edges of the cut mesh *)
  Theorem out_border_iff x y f k k' : direct_face faces x y = Some (f, k, k') ->
    (In (out_corner r f k, out_corner r f k') (border_half_edges OF) <->
     direct_face faces y x = None \/
     exists g h h', direct_face faces y x = Some (g, h, h') /\
                    ~ (out_corner r f k = out_corner r g h' /\ out_corner r f k' = out_corner r g h)).
  Proof.
    intros D. split.
    - intros HB. destruct (direct_face faces y x) as [[[g h] h']|] eqn:D'; [right|now left].
      exists g, h, h'. split; auto. intros [E1 E2].
      apply (border_half_edge_spec faces edges cut) in HB. fold r in HB. fold OF in HB. destruct HB as [_ NR]. apply NR. cbn [fst snd].
      rewrite E1, E2. apply (out_dir_edge faces edges cut T y x g h h' D').
    - intros [N|[g [h [h' [D' NS]]]]].
      + apply (out_border_of_border faces edges cut T x y f k k' O D N).
      + apply (out_border_of_opened faces edges cut T x y f k k' g h h' O D D' NS).
  Qed.

  (* every border half-edge of the cut mesh lies over an input border edge or over an edge reported in cut_edges *)
  Theorem out_border_over_cut b : In b (border_half_edges OF) ->
    exists f k k' x y, direct_face faces x y = Some (f, k, k') /\ b = (out_corner r f k, out_corner r f k') /\
      ref_vertex r (fst b) = Some x /\ ref_vertex r (snd b) = Some y /\
      (direct_face faces y x = None \/ exists e, In e cut /\ 0 <= e < zlen edges /\ joins edges e x y = true).
  Proof.
    intros HB. pose proof HB as HB0. apply (border_half_edge_spec faces edges cut) in HB. fold r in HB. fold OF in HB.
    destruct HB as [HD _]. destruct (out_dir_edge_inv b HD) as [f [k [k' [x [y [D [Eb Nxy]]]]]]].
    exists f, k, k', x, y. split; auto. split; auto.
    pose proof (direct_face_spec _ _ _ _ _ _ D) as [V [V' [A [B _]]]].
    assert (R1 : ref_vertex r (fst b) = Some x) by (rewrite Eb; cbn [fst]; unfold r; rewrite ref_out_corner by auto; now rewrite A).
    assert (R2 : ref_vertex r (snd b) = Some y) by (rewrite Eb; cbn [snd]; unfold r; rewrite ref_out_corner by auto; now rewrite B).
    split; auto. split; auto.
    destruct (direct_face faces y x) as [[[g h] h']|] eqn:D'; [right|now left].
    destruct V as [Rf Rk].
    assert (Ix : In x (znth faces f [])) by (rewrite <- A; now apply znth_In).
    assert (Iy : In y (znth faces f [])) by (rewrite <- B; apply znth_In; apply V').
    destruct (TAB f x y Rf Ix Iy Nxy) as [e [Re J]].
    destruct (in_dec Z.eq_dec e cut) as [Hc|Hc]; [exists e; auto|]. exfalso.
    rewrite Eb in HB0. apply (out_border_iff x y f k k' D) in HB0. rewrite D' in HB0.
    destruct HB0 as [HB0|[g2 [h2 [h2' [Eq NS]]]]]; [discriminate|]. inversion Eq; subst g2 h2 h2'.
    destruct (rebuild_full faces edges cut) as [_ [_ [_ [_ [_ [_ [_ [_ UC]]]]]]]]. fold r in UC.
    apply joins_iff in J. destruct J as [[P Q]|[P Q]].
    + destruct (UC e x y f k k' g h h' Re) as [U1 U2]; auto. now destruct (ends edges e); cbn [fst snd] in *; subst.
    + destruct (UC e y x g h h' f k k' Re) as [U1 U2]; auto. now destruct (ends edges e); cbn [fst snd] in *; subst.
  Qed.
End OutBorder.

(* ------------------------------------------------------------------ counts *)
Lemma NoDup_same_set_len (a b : list Z) : NoDup a -> NoDup b -> (forall x, In x a <-> In x b) -> length a = length b.
Proof.
  intros Na Nb H. apply Nat.le_antisymm; apply NoDup_incl_length; auto; intros x Hx; apply H; auto.
Qed.

(* the cut mesh has the input's number of faces, and its faces use exactly out_n vertices: 0 .. out_n - 1 *)
Theorem cut_mesh_counts faces edges cut : let r := rebuild faces edges cut in
  zlen (out_faces r) = zlen faces /\
  zlen (used_vertices (out_faces r)) = out_n r /\
  (forall k, In k (used_vertices (out_faces r)) <-> 0 <= k < out_n r).
Proof.
  cbn zeta. set (r := rebuild faces edges cut).
  destruct (rebuild_full faces edges cut) as [RF [_ [_ [RG [US _]]]]]. fold r in RF, RG, US.
  assert (LEN : zlen (out_faces r) = zlen faces).
  { unfold zlen. f_equal. rewrite <- (map_length (map (ref_vertex r)) (out_faces r)), RF. now rewrite map_length. }
  assert (SHAPE : map zlen (out_faces r) = map zlen faces).
  { assert (E : map (fun l => zlen (map (ref_vertex r) l)) (out_faces r) = map (fun l => zlen (map (@Some Z) l)) faces).
    { rewrite <- (map_map (map (ref_vertex r)) zlen), RF, map_map. reflexivity. }
    erewrite map_ext in E; [|intros; apply zlen_map]. symmetry in E. erewrite map_ext in E; [|intros; apply zlen_map]. now symmetry. }
  assert (MEM : forall k, In k (concat (out_faces r)) <-> 0 <= k < out_n r).
  { intros k. split.
    - intros H. apply in_concat in H. destruct H as [l [Hl Hk]].
      destruct (In_znth _ _ [] Hl) as [f [Hf Ef]]. destruct (In_znth _ _ 0 Hk) as [i [Hi Ei]].
      assert (V : valid_corner faces f i).
      { split; [lia|]. assert (E2 : znth (map zlen (out_faces r)) f 0 = znth (map zlen faces) f 0) by now rewrite SHAPE.
        rewrite (znth_map zlen (out_faces r) f [] 0), (znth_map zlen faces f [] 0) in E2 by lia. rewrite <- E2, Ef. exact Hi. }
      specialize (RG f i V). unfold out_corner in RG. rewrite Ef, Ei in RG. exact RG.
    - intros H. destruct (US k H) as [f [i [[Hf Hi] E]]]. unfold out_corner in E. apply in_concat.
      exists (znth (out_faces r) f []). split; [apply znth_In; lia|]. rewrite <- E. apply znth_In.
      assert (E2 : znth (map zlen (out_faces r)) f 0 = znth (map zlen faces) f 0) by now rewrite SHAPE.
      rewrite (znth_map zlen (out_faces r) f [] 0), (znth_map zlen faces f [] 0) in E2 by lia. lia. }
  split; [exact LEN|]. split.
  - unfold used_vertices, zlen.
    rewrite (NoDup_same_set_len (dedup (concat (out_faces r))) (zrange (out_n r))).
    + rewrite zrange_length. pose proof (zlen_nonneg (out_src r)).
      assert (0 <= out_n r). { destruct (Z_lt_le_dec (out_n r) 0); [|lia]. unfold r, rebuild, rebuild_with, out_n. apply zlen_nonneg. } lia.
    + apply dedup_NoDup.
    + apply NoDup_zrange.
    + intros x. rewrite dedup_In, In_zrange. apply MEM.
  - intros k. unfold used_vertices. rewrite dedup_In. apply MEM.
Qed.
