(* C16 - the rebuild (_build_mesh_with_cuts) for ANY cut set *)
From Coq Require Import ZArith List Bool Lia.
Import ListNotations.
Require Import MV.Lib.Base MV.C16.Gen MV.C16.Model MV.C16.Checkers.
Require Import MV.C16.Proofs_Base MV.C16.Proofs_UF MV.C16.Proofs_Struct.
Open Scope Z_scope.

(* ------------------------------------------------------------------ interior edges and the united pairs *)
Lemma interior_info_spec faces edges e d1 d2 :
  In (e, d1, d2) (interior_info faces edges) <->
  0 <= e < zlen edges /\
  direct_face faces (fst (ends edges e)) (snd (ends edges e)) = Some d1 /\
  direct_face faces (snd (ends edges e)) (fst (ends edges e)) = Some d2.
Proof.
  unfold interior_info. cbn zeta. rewrite in_flat_map. unfold df1_args, df2_args. cbn [fst snd].
  fold (direct_face faces (fst (ends edges e)) (snd (ends edges e))).
  split.
  - intros [e' [He' H]]. apply In_zrange in He'.
    fold (direct_face faces (fst (ends edges e')) (snd (ends edges e'))) in H.
    fold (direct_face faces (snd (ends edges e')) (fst (ends edges e'))) in H.
    destruct (direct_face faces (fst (ends edges e')) (snd (ends edges e'))) as [x1|] eqn:E1; [|destruct H].
    destruct (direct_face faces (snd (ends edges e')) (fst (ends edges e'))) as [x2|] eqn:E2; [|destruct H].
    destruct H as [H|[]]. inversion H; subst. auto.
  - intros [He [E1 E2]]. exists e. split; [now apply In_zrange|].
    fold (direct_face faces (fst (ends edges e)) (snd (ends edges e))).
    fold (direct_face faces (snd (ends edges e)) (fst (ends edges e))).
    rewrite E1, E2. now left.
Qed.

(* x and y are the two corners of ONE end of an uncut interior edge, in the two faces on either side of it *)
Definition glued (faces : list face) (edges : list (Z * Z)) (cut : list Z) (x y : Z) : Prop :=
  exists e a b f1 i1 j1 f2 i2 j2,
    0 <= e < zlen edges /\ ends edges e = (a, b) /\ ~ In e cut /\
    direct_face faces a b = Some (f1, i1, j1) /\ direct_face faces b a = Some (f2, i2, j2) /\
    ((x = corner faces f1 i1 /\ y = corner faces f2 j2) \/ (x = corner faces f1 j1 /\ y = corner faces f2 i2)).

Lemma glue_pairs_spec faces edges cut x y :
  In (x, y) (glue_pairs faces edges cut) <-> glued faces edges cut x y.
Proof.
  unfold glue_pairs. cbn zeta. rewrite in_flat_map. split.
  - intros [[[e d1] d2] [Hi H]]. apply interior_info_spec in Hi. destruct Hi as [He [E1 E2]].
    unfold glue_test in H. destruct (memZ e cut) eqn:M; cbn [negb] in H; [destruct H|].
    apply memZ_false in M. destruct d1 as [[f1 i1] j1]. destruct d2 as [[f2 i2] j2].
    destruct (ends edges e) as [a b] eqn:Eab. cbn [fst snd] in *.
    exists e, a, b, f1, i1, j1, f2, i2, j2. repeat split; auto; try lia.
    unfold union_pairs, tF, tI, tJ in H. cbn [fst snd] in H. unfold corner, IF0.
    destruct H as [H|[H|[]]]; inversion H; auto.
  - intros [e [a [b [f1 [i1 [j1 [f2 [i2 [j2 [He [Eab [Hc [E1 [E2 H]]]]]]]]]]]]]].
    exists (e, (f1, i1, j1), (f2, i2, j2)). split.
    + apply interior_info_spec. rewrite Eab. cbn [fst snd]. auto.
    + unfold glue_test. apply memZ_false in Hc. rewrite Hc. cbn [negb].
      unfold union_pairs, tF, tI, tJ. cbn [fst snd]. unfold corner, IF0 in H.
      destruct H as [[-> ->]|[-> ->]]; [left|right; left]; reflexivity.
Qed.

(* the united corners are corners of the same original vertex, in the two faces of the edge *)
Lemma glued_same_vertex faces edges cut x y : glued faces edges cut x y ->
  0 <= x < ncorners faces /\ 0 <= y < ncorners faces /\ cvert faces x = cvert faces y.
Proof.
  intros [e [a [b [f1 [i1 [j1 [f2 [i2 [j2 [He [Eab [Hc [E1 [E2 H]]]]]]]]]]]]]].
  apply direct_face_spec in E1. destruct E1 as [V1 [V1' [A1 [B1 _]]]].
  apply direct_face_spec in E2. destruct E2 as [V2 [V2' [A2 [B2 _]]]].
  destruct (corner_spec _ _ _ V1) as [R1 C1]. destruct (corner_spec _ _ _ V1') as [R1' C1'].
  destruct (corner_spec _ _ _ V2) as [R2 C2]. destruct (corner_spec _ _ _ V2') as [R2' C2'].
  destruct H as [[-> ->]|[-> ->]]; repeat split; try lia; congruence.
Qed.

Definition out_corner (r : rebuilt) (f i : Z) : Z := znth (znth (out_faces r) f []) i 0.

(* ------------------------------------------------------------------ the partition and its representatives *)
Section Rebuild.
  Variable faces : list face.
  Variable edges : list (Z * Z).
  Variable cut : list Z.

  Let N := ncorners faces.
  Let P := glue_pairs faces edges cut.
  Let rep := rep_of_pairs P.
  Let r := rebuild faces edges cut.
  Let seen := dedup (map rep (zrange N)).
  Let oidx (c : Z) := index_of (rep c) seen.
  Let cv := cvert faces.

  Lemma rep_keeps c : 0 <= c < N -> 0 <= rep c < N /\ cv (rep c) = cv c.
  Proof.
    intros Hc.
    assert (Q : (0 <= c < N <-> 0 <= rep c < N) /\ (0 <= c < N -> cv c = cv (rep c))).
    { apply (rep_invariant (fun x y => (0 <= x < N <-> 0 <= y < N) /\ (0 <= x < N -> cv x = cv y)) P).
      - intros; tauto.
      - intros x y [A B]. split; [tauto|]. intros H. symmetry. apply B. tauto.
      - intros x y z [A B] [C D]. split; [tauto|]. intros H. rewrite B by auto. apply D. tauto.
      - intros x y H. apply glue_pairs_spec, glued_same_vertex in H. fold N in H. fold cv in H. tauto. }
    destruct Q as [Q1 Q2]. split; [tauto|]. symmetry. auto.
  Qed.

  Lemma seen_spec u : In u seen <-> exists c, 0 <= c < N /\ rep c = u.
  Proof.
    unfold seen. rewrite dedup_In, in_map_iff. split; intros [c [A B]]; exists c.
    - apply In_zrange in B. auto.
    - split; auto. now apply In_zrange.
  Qed.

  Lemma seen_concat : dedup (concat (map (map rep) (IF0 faces))) = seen.
  Proof. unfold seen. rewrite <- concat_map, concat_IF0. reflexivity. Qed.

  Lemma out_faces_eq : out_faces r = map (map oidx) (IF0 faces).
  Proof.
    unfold r, rebuild, rebuild_with. cbn [out_faces]. fold P. fold rep. fold (IF0 faces). rewrite seen_concat.
    rewrite map_map. apply map_ext. intros l. rewrite map_map. reflexivity.
  Qed.
  Lemma out_ref_eq : out_ref r = map (fun c => (oidx c, cv c)) (zrange N).
  Proof.
    unfold r, rebuild, rebuild_with. cbn [out_ref]. fold P. fold rep. fold (IF0 faces). rewrite seen_concat.
    rewrite dups0, map_map. reflexivity.
  Qed.
  Lemma out_src_eq : out_src r = map cv seen.
  Proof.
    unfold r, rebuild, rebuild_with. cbn [out_src]. fold P. fold rep. fold (IF0 faces). rewrite seen_concat. reflexivity.
  Qed.
  Lemma out_n_eq : out_n r = zlen seen.
  Proof.
    unfold r, rebuild, rebuild_with. cbn [out_n]. fold P. fold rep. fold (IF0 faces). now rewrite seen_concat.
  Qed.

  Lemma oidx_range c : 0 <= c < N -> 0 <= oidx c < out_n r.
  Proof.
    intros H. rewrite out_n_eq. unfold oidx. apply (index_of_nth _ _ 0). apply seen_spec. eauto.
  Qed.

  Lemma oidx_inj c c' : 0 <= c < N -> 0 <= c' < N -> (oidx c = oidx c' <-> rep c = rep c').
  Proof.
    intros H H'. split; [|unfold oidx; congruence].
    apply index_of_inj; apply seen_spec; eauto.
  Qed.

  Lemma assocZ_map {A} (g h : A -> Z) k l : (exists c, In c l /\ g c = k) ->
    exists c, In c l /\ g c = k /\ assocZ k (map (fun c => (g c, h c)) l) = Some (h c).
  Proof.
    induction l as [|a l IH]; intros [c [Hc E]]; [destruct Hc|]. cbn [map assocZ].
    destruct (Z.eqb_spec (g a) k) as [Ea|Na].
    - exists a. split; [now left|]. auto.
    - destruct Hc as [->|Hc]; [congruence|]. destruct IH as [c' [A1 [B1 C1]]]; [eauto|].
      exists c'. split; [now right|]. auto.
  Qed.

  Lemma ref_oidx c : 0 <= c < N -> ref_vertex r (oidx c) = Some (cv c).
  Proof.
    intros H. unfold ref_vertex. rewrite out_ref_eq.
    destruct (assocZ_map oidx cv (oidx c) (zrange N)) as [c' [A [B C]]].
    - exists c. split; auto. now apply In_zrange.
    - rewrite C. f_equal. apply In_zrange in A. apply oidx_inj in B; auto.
      destruct (rep_keeps c H) as [_ E1]. destruct (rep_keeps c' A) as [_ E2]. congruence.
  Qed.

  (* 1. faces in bijection, in order, same arity; ref_vertex consistent face by face *)
  Lemma rebuild_faces : map (map (ref_vertex r)) (out_faces r) = map (map Some) faces.
  Proof.
    rewrite out_faces_eq. rewrite <- (cv_IF0 faces) at 2. rewrite !map_map.
    apply map_ext_in. intros l Hl. rewrite !map_map. apply map_ext_in. intros c Hc.
    apply ref_oidx. apply In_zrange. fold N. unfold N. rewrite <- concat_IF0. apply in_concat. eauto.
  Qed.

  (* 2. every write `ref_vertex[u] = v` of the implementation agrees with the function *)
  Lemma rebuild_ref_consistent u v : In (u, v) (out_ref r) -> ref_vertex r u = Some v.
  Proof.
    rewrite out_ref_eq, in_map_iff. intros [c [E Hc]]. inversion E; subst. apply ref_oidx. now apply In_zrange.
  Qed.

  Lemma index_of_pos_NoDup l : NoDup l -> forall k, 0 <= k < zlen l -> index_of (znth l k 0) l = k.
  Proof.
    induction 1 as [|x l Hx ND IH]; intros k Hk; [unfold zlen in Hk; cbn [length] in Hk; lia|].
    rewrite zlen_cons in Hk. cbn [index_of]. destruct (Z.eq_dec k 0) as [->|Nk].
    - change (znth (x :: l) 0 0) with x. now rewrite Z.eqb_refl.
    - assert (E : znth (x :: l) k 0 = znth l (k - 1) 0).
      { change (x :: l) with ([x] ++ l). rewrite znth_app2 by (change (zlen [x]) with 1; lia). reflexivity. }
      rewrite E. destruct (Z.eqb_spec x (znth l (k - 1) 0)) as [Ex|_].
      + exfalso. apply Hx. rewrite Ex. apply znth_In. lia.
      + rewrite IH by lia. lia.
  Qed.

  (* 3. every output vertex is used, by a corner whose class it numbers *)
  Lemma rebuild_used k : 0 <= k < out_n r -> exists c, 0 <= c < N /\ oidx c = k.
  Proof.
    rewrite out_n_eq. intros Hk.
    assert (Hu : In (znth seen k 0) seen) by now apply znth_In.
    apply seen_spec in Hu. destruct Hu as [c [Hc E]]. exists c. split; auto.
    unfold oidx. rewrite E. apply index_of_pos_NoDup; auto. apply dedup_NoDup.
  Qed.

  (* 4. output positions: vertex k carries the position of the input vertex ref_vertex k *)
  Lemma rebuild_src : map Some (out_src r) = map (ref_vertex r) (zrange (out_n r)).
  Proof.
    rewrite out_src_eq, out_n_eq. rewrite <- (map_znth_zrange seen 0) at 1. rewrite !map_map.
    apply map_ext_in. intros k Hk. apply In_zrange in Hk.
    destruct (rebuild_used k) as [c [Hc E]]; [now rewrite out_n_eq|].
    rewrite <- E at 2. rewrite ref_oidx by auto. f_equal.
    rewrite <- E. unfold oidx. destruct (index_of_nth (rep c) seen 0) as [E2 _]; [apply seen_spec; eauto|].
    rewrite znth_nth by (apply (index_of_nth _ _ 0); apply seen_spec; eauto). rewrite E2.
    apply rep_keeps; auto.
  Qed.

  (* 5. two corners share an output vertex iff a chain of glued pairs links them *)
  Lemma rebuild_identify c c' : 0 <= c < N -> 0 <= c' < N ->
    (oidx c = oidx c' <-> eqcl (glued faces edges cut) c c').
  Proof.
    intros H H'. rewrite oidx_inj by auto. unfold rep. rewrite rep_spec.
    split; apply eqcl_mono; intros x y; unfold inP, P; apply glue_pairs_spec.
  Qed.

  Lemma out_corner_eq f i : valid_corner faces f i -> out_corner r f i = oidx (corner faces f i).
  Proof.
    intros [Hf Hi]. unfold out_corner. rewrite out_faces_eq. destruct (IF0_lengths faces) as [L1 L2].
    rewrite (znth_map (map oidx) (IF0 faces) f [] []) by lia.
    rewrite (znth_map oidx _ i 0 0) by (rewrite L2; lia). reflexivity.
  Qed.

  Theorem rebuild_full :
    (* faces in bijection, in order, same arity; ref_vertex consistent face by face *)
    map (map (ref_vertex r)) (out_faces r) = map (map Some) faces /\
    (* output vertex k carries the position of input vertex ref_vertex k: every corner keeps its position *)
    map Some (out_src r) = map (ref_vertex r) (zrange (out_n r)) /\
    (* all the writes ref_vertex[u] = v agree *)
    (forall u v, In (u, v) (out_ref r) -> ref_vertex r u = Some v) /\
    (* output indices in range; every output vertex used; ref_vertex onto the vertices of the input faces *)
    (forall f i, valid_corner faces f i -> 0 <= out_corner r f i < out_n r) /\
    (forall k, 0 <= k < out_n r -> exists f i, valid_corner faces f i /\ out_corner r f i = k) /\
    (forall v, In v (concat faces) -> exists k, 0 <= k < out_n r /\ ref_vertex r k = Some v) /\
    (* two corners are identified iff a chain of glued pairs links them *)
    (forall f i g j, valid_corner faces f i -> valid_corner faces g j ->
       (out_corner r f i = out_corner r g j <->
        eqcl (glued faces edges cut) (corner faces f i) (corner faces g j))) /\
    (* glued pairs are corners of one original vertex (so chains stay around that vertex) *)
    (forall x y, eqcl (glued faces edges cut) x y -> 0 <= x < ncorners faces -> cvert faces x = cvert faces y) /\
    (* an uncut interior edge is not opened: both of its ends are shared by the two output faces *)
    (forall e a b f1 i1 j1 f2 i2 j2, 0 <= e < zlen edges -> ends edges e = (a, b) -> ~ In e cut ->
       direct_face faces a b = Some (f1, i1, j1) -> direct_face faces b a = Some (f2, i2, j2) ->
       out_corner r f1 i1 = out_corner r f2 j2 /\ out_corner r f1 j1 = out_corner r f2 i2).
  Proof.
    split; [apply rebuild_faces|]. split; [apply rebuild_src|]. split; [apply rebuild_ref_consistent|].
    split; [|split; [|split; [|split; [|split]]]].
    - intros f i V. rewrite out_corner_eq by auto. apply oidx_range. now apply corner_spec.
    - intros k Hk. destruct (rebuild_used k Hk) as [c [Hc E]].
      destruct (corner_surj faces c Hc) as [f [i [V Ec]]]. exists f, i. split; auto.
      rewrite out_corner_eq by auto. now rewrite Ec.
    - intros v Hv. destruct (In_znth _ _ 0 Hv) as [c [Hc Ec]]. exists (oidx c). split.
      + now apply oidx_range.
      + rewrite ref_oidx by auto. f_equal. exact Ec.
    - intros f i g j V1 V2. rewrite !out_corner_eq by auto.
      apply rebuild_identify; now apply corner_spec.
    - intros x y E. induction E as [x y H| | |x y z E1 IH1 E2 IH2]; intros Hx.
      + now apply glued_same_vertex in H.
      + reflexivity.
      + assert (Q : forall x y, eqcl (glued faces edges cut) x y ->
                    (0 <= x < N <-> 0 <= y < N) /\ (0 <= x < N -> cv x = cv y)).
        { clear. intros x y E. induction E as [x y H| | |x y z E1 [A1 B1] E2 [A2 B2]].
          - apply glued_same_vertex in H. fold N in H. fold cv in H. tauto.
          - tauto.
          - destruct IHE as [A B]. split; [tauto|]. intros. symmetry. apply B. tauto.
          - split; [tauto|]. intros. rewrite B1 by auto. apply B2. tauto. }
        destruct (Q _ _ E) as [A B]. symmetry. apply B. apply A. exact Hx.
      + assert (Q : forall x y, eqcl (glued faces edges cut) x y ->
                    (0 <= x < N <-> 0 <= y < N) /\ (0 <= x < N -> cv x = cv y)).
        { clear. intros x' y' E. induction E as [x' y' H| | |x' y' z' E1' [A1 B1] E2' [A2 B2]].
          - apply glued_same_vertex in H. fold N in H. fold cv in H. tauto.
          - tauto.
          - destruct IHE as [A B]. split; [tauto|]. intros. symmetry. apply B. tauto.
          - split; [tauto|]. intros. rewrite B1 by auto. apply B2. tauto. }
        destruct (Q _ _ E1) as [A B]. rewrite IH1 by auto. apply IH2. apply A. exact Hx.
    - intros e a b f1 i1 j1 f2 i2 j2 He Eab Hc E1 E2.
      pose proof (direct_face_spec _ _ _ _ _ _ E1) as [V1 [V1' _]].
      pose proof (direct_face_spec _ _ _ _ _ _ E2) as [V2 [V2' _]].
      rewrite !out_corner_eq by auto. split.
      + apply rebuild_identify; try (now apply corner_spec). apply ec_base.
        exists e, a, b, f1, i1, j1, f2, i2, j2. repeat split; auto; lia.
      + apply rebuild_identify; try (now apply corner_spec). apply ec_base.
        exists e, a, b, f1, i1, j1, f2, i2, j2. repeat split; auto; lia.
  Qed.
End Rebuild.
