(* C16 - structure of the corner numbering of the rebuild and of the half-edge table *)
From Coq Require Import ZArith List Bool Lia.
Import ListNotations.
Require Import MV.Lib.Base MV.C16.Gen MV.C16.Model MV.C16.Proofs_Base.
Open Scope Z_scope.

Lemma zlen_app {A} (a b : list A) : zlen (a ++ b) = zlen a + zlen b.
Proof. unfold zlen. rewrite app_length. lia. Qed.
Lemma zlen_map {A B} (f : A -> B) l : zlen (map f l) = zlen l.
Proof. unfold zlen. now rewrite map_length. Qed.
Lemma zlen_zrange n : 0 <= n -> zlen (zrange n) = n.
Proof. intros. unfold zlen. rewrite zrange_length. lia. Qed.
Lemma zlen_nil {A} : zlen (@nil A) = 0.
Proof. reflexivity. Qed.

Lemma zrange_app a b : 0 <= a -> 0 <= b -> zrange (a + b) = zrange a ++ map (fun i => a + i) (zrange b).
Proof.
  intros Ha Hb. unfold zrange.
  replace (Z.to_nat (a + b)) with (Z.to_nat a + Z.to_nat b)%nat by lia.
  rewrite seq_app, map_app. f_equal. rewrite map_map.
  assert (G : forall m s, map Z.of_nat (seq (Z.to_nat a + s) m) = map (fun x => a + Z.of_nat x) (seq s m)).
  { induction m as [|m IH]; intros s; cbn [seq map]; [reflexivity|]. f_equal; [lia|].
    replace (S (Z.to_nat a + s)) with (Z.to_nat a + S s)%nat by lia. apply IH. }
  replace (0 + Z.to_nat a)%nat with (Z.to_nat a + 0)%nat by lia. apply G.
Qed.

Lemma znth_In {A} (l : list A) i d : 0 <= i < zlen l -> In (znth l i d) l.
Proof. intros H. rewrite znth_nth by lia. apply nth_In. unfold zlen in H. lia. Qed.

Lemma znth_map {A B} (f : A -> B) l i d d' : 0 <= i < zlen l -> znth (map f l) i d' = f (znth l i d).
Proof.
  intros H. rewrite !znth_nth by lia. unfold zlen in H.
  rewrite (nth_indep _ d' (f d)) by (rewrite map_length; lia). apply map_nth.
Qed.

Lemma znth_app1 {A} (a b : list A) i d : 0 <= i < zlen a -> znth (a ++ b) i d = znth a i d.
Proof. intros H. rewrite !znth_nth by lia. unfold zlen in H. apply app_nth1. lia. Qed.
Lemma znth_app2 {A} (a b : list A) i d : zlen a <= i -> znth (a ++ b) i d = znth b (i - zlen a) d.
Proof.
  intros H. pose proof (zlen_nonneg a). rewrite !znth_nth by lia. unfold zlen in *. rewrite app_nth2 by lia.
  f_equal. lia.
Qed.

Lemma map_znth_zrange {A} (l : list A) d : map (fun i => znth l i d) (zrange (zlen l)) = l.
Proof.
  induction l as [|x r IH]; [reflexivity|].
  rewrite zlen_cons. rewrite zrange_app by (pose proof (zlen_nonneg r); lia).
  change (zrange 1) with [0]. cbn [map app]. f_equal. rewrite map_map.
  rewrite <- IH at 2. apply map_ext_in. intros i Hi. apply In_zrange in Hi.
  change (x :: r) with ([x] ++ r). rewrite znth_app2 by (change (zlen [x]) with 1; lia).
  change (zlen [x]) with 1. f_equal. lia.
Qed.

Lemma In_znth {A} (l : list A) x d : In x l -> exists i, 0 <= i < zlen l /\ znth l i d = x.
Proof.
  intros H. apply (In_nth _ _ d) in H. destruct H as [n [Hn E]].
  exists (Z.of_nat n). unfold zlen. split; [lia|]. rewrite znth_nth by lia. now rewrite Nat2Z.id.
Qed.

(* ------------------------------------------------------------------ corner numbering *)
Lemma init_faces_range faces : forall k l c, In l (init_faces k faces) -> In c l -> k <= c.
Proof.
  induction faces as [|F r IH]; intros k l c Hl Hc; [destruct Hl|].
  cbn [init_faces] in Hl. destruct Hl as [<-|Hl].
  - apply in_map_iff in Hc. destruct Hc as [i [<- Hi]]. apply In_zrange in Hi. unfold corner_id. lia.
  - specialize (IH _ _ _ Hl Hc). unfold next_kF in IH. pose proof (zlen_nonneg F). lia.
Qed.

Definition cvert (faces : list face) (c : Z) : Z := znth (concat faces) c 0.

Lemma cv_init faces : forall k, map (map (fun c => cvert faces (c - k))) (init_faces k faces) = faces.
Proof.
  unfold cvert. induction faces as [|F r IH]; intros k; [reflexivity|].
  cbn [init_faces map concat]. f_equal.
  - rewrite map_map. rewrite <- (map_znth_zrange F 0) at 2. apply map_ext_in. intros i Hi.
    apply In_zrange in Hi. unfold corner_id. replace (k + i - k) with i by lia. now apply znth_app1.
  - rewrite <- (IH (next_kF k (zlen F))) at 2. apply map_ext_in. intros l Hl. apply map_ext_in. intros c Hc.
    pose proof (init_faces_range _ _ _ _ Hl Hc) as B. unfold next_kF in *.
    rewrite znth_app2 by lia. f_equal. lia.
Qed.

Lemma concat_init_faces faces : forall k,
  concat (init_faces k faces) = map (fun i => k + i) (zrange (zlen (concat faces))).
Proof.
  induction faces as [|F r IH]; intros k; [reflexivity|].
  cbn [init_faces concat]. rewrite zlen_app, zrange_app by apply zlen_nonneg. rewrite map_app. f_equal.
  rewrite IH, map_map. apply map_ext. intros i. unfold next_kF. lia.
Qed.

Lemma init_dups_spec faces : forall k,
  init_dups k faces = map (fun i => (k + i, cvert faces i)) (zrange (zlen (concat faces))).
Proof.
  unfold cvert. induction faces as [|F r IH]; intros k; [reflexivity|].
  cbn [init_dups concat]. rewrite zlen_app, zrange_app by apply zlen_nonneg. rewrite map_app. f_equal.
  - apply map_ext_in. intros i Hi. apply In_zrange in Hi. unfold dup_corner. now rewrite znth_app1.
  - rewrite IH, map_map. apply map_ext_in. intros i Hi. apply In_zrange in Hi. unfold next_kF.
    rewrite znth_app2 by lia. f_equal; [lia|]. f_equal. lia.
Qed.

Definition ncorners (faces : list face) : Z := zlen (concat faces).
Definition IF0 (faces : list face) := init_faces kF_start faces.

Lemma concat_IF0 faces : concat (IF0 faces) = zrange (ncorners faces).
Proof.
  unfold IF0, kF_start, ncorners. rewrite concat_init_faces. rewrite <- (map_id (zrange _)) at 2.
  apply map_ext. intros; lia.
Qed.

Lemma cv_IF0 faces : map (map (cvert faces)) (IF0 faces) = faces.
Proof.
  unfold IF0, kF_start. etransitivity; [|apply (cv_init faces 0)]. apply map_ext. intros l. apply map_ext. intros c.
  f_equal. lia.
Qed.

Lemma dups0 faces : init_dups kF_start faces = map (fun c => (c, cvert faces c)) (zrange (ncorners faces)).
Proof. unfold kF_start. rewrite init_dups_spec. apply map_ext. intros i. reflexivity. Qed.

(* the corner of face f at local index i *)
Definition corner (faces : list face) (f i : Z) : Z := lookup2 (IF0 faces) f i.
Definition valid_corner (faces : list face) (f i : Z) : Prop :=
  0 <= f < zlen faces /\ 0 <= i < zlen (znth faces f []).

Lemma corner_spec faces f i : valid_corner faces f i ->
  0 <= corner faces f i < ncorners faces /\ cvert faces (corner faces f i) = znth (znth faces f []) i 0.
Proof.
  intros [Hf Hi]. unfold corner, lookup2.
  pose proof (cv_IF0 faces) as E.
  assert (L1 : zlen (IF0 faces) = zlen faces) by (rewrite <- (zlen_map (map (cvert faces)) (IF0 faces)); now rewrite E).
  assert (E2 : znth faces f [] = map (cvert faces) (znth (IF0 faces) f [])).
  { etransitivity; [|apply (znth_map (map (cvert faces)) (IF0 faces) f [] []); lia]. now rewrite E. }
  assert (L2 : zlen (znth (IF0 faces) f []) = zlen (znth faces f [])) by (rewrite E2; now rewrite zlen_map).
  split.
  - apply In_zrange. rewrite <- concat_IF0. apply in_concat. exists (znth (IF0 faces) f []). split.
    + apply znth_In. lia.
    + apply znth_In. lia.
  - rewrite E2. symmetry. apply znth_map. lia.
Qed.

Lemma IF0_lengths faces : zlen (IF0 faces) = zlen faces /\
  forall f, 0 <= f < zlen faces -> zlen (znth (IF0 faces) f []) = zlen (znth faces f []).
Proof.
  pose proof (cv_IF0 faces) as E.
  assert (L1 : zlen (IF0 faces) = zlen faces) by (rewrite <- (zlen_map (map (cvert faces)) (IF0 faces)); now rewrite E).
  split; auto. intros f Hf.
  assert (E2 : znth faces f [] = map (cvert faces) (znth (IF0 faces) f [])).
  { etransitivity; [|apply (znth_map (map (cvert faces)) (IF0 faces) f [] []); lia]. now rewrite E. }
  rewrite E2. now rewrite zlen_map.
Qed.

(* every corner is the corner of a face at a local index *)
Lemma corner_surj faces c : 0 <= c < ncorners faces -> exists f i, valid_corner faces f i /\ corner faces f i = c.
Proof.
  intros H. apply In_zrange in H. rewrite <- concat_IF0 in H. apply in_concat in H. destruct H as [l [Hl Hc]].
  destruct (In_znth _ _ [] Hl) as [f [Hf Ef]]. destruct (In_znth _ _ 0 Hc) as [i [Hi Ei]].
  pose proof (cv_IF0 faces) as E.
  assert (L1 : zlen (IF0 faces) = zlen faces) by (rewrite <- (zlen_map (map (cvert faces)) (IF0 faces)); now rewrite E).
  assert (E2 : znth faces f [] = map (cvert faces) (znth (IF0 faces) f [])).
  { etransitivity; [|apply (znth_map (map (cvert faces)) (IF0 faces) f [] []); lia]. now rewrite E. }
  exists f, i. split.
  - split; [lia|]. rewrite E2, zlen_map, Ef. exact Hi.
  - unfold corner, lookup2. now rewrite Ef.
Qed.

(* ------------------------------------------------------------------ half-edge table *)
Lemma half_edges_from_spec faces : forall k key val, In (key, val) (half_edges_from k faces) ->
  exists f i, let F := znth faces (f - k) [] in let n := zlen F in
    k <= f < k + zlen faces /\ 0 <= i < n /\ val = (f, i, (i + 1) mod n) /\
    key = (znth F i 0, znth F ((i + 1) mod n) 0).
Proof.
  induction faces as [|F r IH]; intros k key val H; [destruct H|].
  cbn [half_edges_from] in H. apply in_app_or in H. destruct H as [H|H].
  - unfold face_half_edges in H. apply in_map_iff in H. destruct H as [i [E Hi]]. apply In_zrange in Hi.
    inversion E; subst. exists k, i. replace (k - k) with 0 by lia. cbn zeta. rewrite zlen_cons.
    pose proof (zlen_nonneg r). change (znth (F :: r) 0 []) with F. repeat split; try lia.
  - destruct (IH _ _ _ H) as [f [i [A [B [C D]]]]]. exists f, i. cbn zeta in *. rewrite zlen_cons.
    assert (E : znth (F :: r) (f - k) [] = znth r (f - (k + 1)) []).
    { change (F :: r) with ([F] ++ r). rewrite znth_app2 by (change (zlen [F]) with 1; lia).
      change (zlen [F]) with 1. f_equal. lia. }
    rewrite E. repeat split; try lia; auto.
Qed.

Lemma direct_face_spec faces u v f i j : direct_face faces u v = Some (f, i, j) ->
  valid_corner faces f i /\ valid_corner faces f j /\
  znth (znth faces f []) i 0 = u /\ znth (znth faces f []) j 0 = v /\
  j = (i + 1) mod zlen (znth faces f []).
Proof.
  unfold direct_face, df_lookup, he_table. destruct (find _ _) as [[key val]|] eqn:E; [|discriminate].
  intros H. injection H as Hv. apply find_some in E. destruct E as [HI HK].
  apply in_rev in HI. apply half_edges_from_spec in HI. destruct HI as [f' [i' [A [B [C D]]]]].
  cbn zeta in *. replace (f' - 0) with f' in * by lia. cbn [snd fst] in *.
  rewrite Hv in C. injection C as Ef Ei Ej. subst f' i'.
  unfold he_key_eqb in HK. rewrite D in HK. cbn [fst snd] in HK. apply andb_true_iff in HK. destruct HK as [K1 K2].
  apply Z.eqb_eq in K1, K2.
  assert (M : 0 <= (i + 1) mod zlen (znth faces f []) < zlen (znth faces f [])) by (apply Z.mod_pos_bound; lia).
  unfold valid_corner. rewrite Ej. repeat split; try lia; auto.
Qed.
