(* C16 - executable model of mouette/processing/cutting.py (SingularityCutter), NO proofs.

   Inputs are the tables of the real mesh: `faces` (vertex lists, in order), `edges` (mesh.edges: edge id =
   position, ends = the pair), `nv`, the singular vertices, and the set `evisited` of dual edges crossed by the dual
   tree (step 2 of the cutter; it depends on floating-point barycentre distances and on heap tie-breaking, so it
   is an INPUT of the model that is validated by the checkers of Checkers.v instead of being recomputed).
   Modelled exactly: half-edge lookup `direct_face(u,v,True)`, interior/boundary classification,
   `_build_cut_edges_tree` (complement), `_prune_edge_tree` (the queue, with fuel), `_build_mesh_with_cuts`
   (corner numbering, unions across glued edges, find, first-occurrence renumbering, vertex table, ref_vertex).
   Index arithmetic, tests and the plumbing of the unions come from Gen.v (regenerated from cutting.py).      *)
From Coq Require Import ZArith List Bool.
Import ListNotations.
Require Import MV.Lib.Base MV.C16.Gen.
Open Scope Z_scope.

Notation face := (list Z) (only parsing).
Definition zlen {A} (l : list A) : Z := Z.of_nat (length l).

(* ------------------------------------------------------------------ small list utilities *)
Fixpoint memZ (x : Z) (l : list Z) : bool :=
  match l with [] => false | y :: r => (y =? x) || memZ x r end.

(* first occurrences, in order (Python: `if v in imap: continue; imap[v] = i; i += 1`) *)
Fixpoint dedup (l : list Z) : list Z :=
  match l with [] => [] | x :: r => x :: filter (fun y => negb (y =? x)) (dedup r) end.

Fixpoint index_of (x : Z) (l : list Z) : Z :=
  match l with [] => 0 | y :: r => if y =? x then 0 else 1 + index_of x r end.

(* ------------------------------------------------------------------ half-edges: surface.py `_half_edges`
   (P, Pnext) -> (iF, iV, (iV+1) % n); a dict, so the LAST face writing a key wins *)
Definition face_half_edges (f : Z) (F : face) : list ((Z * Z) * (Z * Z * Z)) :=
  let n := zlen F in
  map (fun iV => ((znth F iV 0, znth F ((iV + 1) mod n) 0), (f, iV, (iV + 1) mod n))) (zrange n).

Fixpoint half_edges_from (f : Z) (faces : list face) : list ((Z * Z) * (Z * Z * Z)) :=
  match faces with
  | [] => []
  | F :: r => face_half_edges f F ++ half_edges_from (f + 1) r
  end.
Definition half_edges (faces : list face) := half_edges_from 0 faces.

Definition he_key_eqb (k : Z * Z) (u v : Z) : bool := (fst k =? u) && (snd k =? v).

(* direct_face(u, v, True) = Some (F, iu, iv) | None ; H = the half-edge table, last writer first *)
Definition he_table (faces : list face) := rev (half_edges faces).
Definition df_lookup (H : list ((Z * Z) * (Z * Z * Z))) (u v : Z) : option (Z * Z * Z) :=
  match find (fun p => he_key_eqb (fst p) u v) H with
  | Some p => Some (snd p)
  | None => None
  end.
Definition direct_face (faces : list face) (u v : Z) : option (Z * Z * Z) := df_lookup (he_table faces) u v.

(* ------------------------------------------------------------------ edges: interior / boundary
   is_edge_on_border(u,v): direct_face(u,v) is None or direct_face(v,u) is None *)
Definition ends (edges : list (Z * Z)) (e : Z) : Z * Z := znth edges e (0, 0).

(* (e, d1, d2) for every interior edge e, with d1, d2 the results of the two direct_face calls of the rebuild *)
Definition interior_info (faces : list face) (edges : list (Z * Z)) : list (Z * (Z * Z * Z) * (Z * Z * Z)) :=
  let H := he_table faces in
  flat_map (fun e =>
    let ab := ends edges e in
    let q1 := df1_args (fst ab) (snd ab) in
    let q2 := df2_args (fst ab) (snd ab) in
    match df_lookup H (fst q1) (snd q1), df_lookup H (fst q2) (snd q2) with
    | Some d1, Some d2 => [(e, d1, d2)]
    | _, _ => []
    end) (zrange (zlen edges)).

Definition interior_edges faces edges : list Z := map (fun t => fst (fst t)) (interior_info faces edges).
Definition boundary_edges faces edges : list Z :=
  let I := interior_edges faces edges in
  filter (fun e => negb (memZ e I)) (zrange (zlen edges)).

(* ------------------------------------------------------------------ _build_cut_edges_tree *)
Definition cut0 (edges : list (Z * Z)) (evisited : list Z) : list Z :=
  filter (fun e => cut0_keep (memZ e evisited)) (zrange (zlen edges)).

(* ------------------------------------------------------------------ one relaxation of the dual Dijkstra
   (dist, path) of the neighbour iF2 when the popped face iF (distance cur) looks across edge e of length d.
   Distances are floats in mouette; only their order matters here, Z stands for any ordered additive domain. The
   tree itself is not recomputed by the model (see header): this is the step whose comparison decides whether the
   parent edge of an already settled face can be overwritten. *)
Definition relax_step (relax : Z -> Z -> bool) (old : Z * option Z) (cur d e : Z) : Z * option Z :=
  if relax (fst old) (cur + d) then (cur + d, Some e) else old.

(* ------------------------------------------------------------------ the cut graph: cut_adj and _prune_edge_tree *)
Definition touches (edges : list (Z * Z)) (e v : Z) : bool :=
  (fst (ends edges e) =? v) || (snd (ends edges e) =? v).
Definition other_end (edges : list (Z * Z)) (e v : Z) : Z :=
  if fst (ends edges e) =? v then snd (ends edges e) else fst (ends edges e).
(* cut_adj[v] (a set) *)
Definition nbrs (edges : list (Z * Z)) (cut : list Z) (v : Z) : list Z :=
  dedup (map (fun e => other_end edges e v) (filter (fun e => touches edges e v) cut)).
Definition deg edges cut v : Z := zlen (nbrs edges cut v).
Definition joins (edges : list (Z * Z)) (e a b : Z) : bool :=
  let p := ends edges e in ((fst p =? a) && (snd p =? b)) || ((fst p =? b) && (snd p =? a)).
(* self.cut_edges.remove(edge_id(A,B)) *)
Definition remove_edge edges (cut : list Z) (a b : Z) : list Z := filter (fun e => negb (joins edges e a b)) cut.

Definition prune_queue0 (edges : list (Z * Z)) (nv : Z) (sing : Z -> bool) (cut : list Z) : list Z :=
  filter (fun i => leaf_test_init (deg edges cut i) (sing i)) (zrange nv).

(* one iteration of `for B in self.cut_adj[A]` *)
Definition prune_inner edges (sing : Z -> bool) (A : Z) (st : list Z * list Z) (B : Z) : list Z * list Z :=
  let cut' := remove_edge edges (fst st) A B in
  (cut', if leaf_test_loop (deg edges cut' B) (sing B) then snd st ++ [B] else snd st).

Fixpoint prune_loop (fuel : nat) edges (sing : Z -> bool) (queue cut : list Z) : option (list Z) :=
  match queue with
  | [] => Some cut
  | A :: q =>
    match fuel with
    | O => None
    | S fuel' =>
      let st := fold_left (prune_inner edges sing A) (nbrs edges cut A) (cut, q) in
      prune_loop fuel' edges sing (snd st) (fst st)
    end
  end.

Definition prune edges (nv : Z) (sing : Z -> bool) (cut : list Z) : option (list Z) :=
  let q := prune_queue0 edges nv sing cut in
  prune_loop (length q + length cut + 1) edges sing q cut.

(* the whole of run(): complement of the dual tree, then pruning *)
Definition cut_edges_of edges nv (singus evisited : list Z) : option (list Z) :=
  prune edges nv (fun v => memZ v singus) (cut0 edges evisited).

(* ------------------------------------------------------------------ _build_mesh_with_cuts *)
(* first loop: corner ids per face, and the (duplicate id, original vertex) registrations *)
Fixpoint init_faces (kF : Z) (faces : list face) : list (list Z) :=
  match faces with
  | [] => []
  | F :: r => map (corner_id kF) (zrange (zlen F)) :: init_faces (next_kF kF (zlen F)) r
  end.

Fixpoint init_dups (kF : Z) (faces : list face) : list (Z * Z) :=
  match faces with
  | [] => []
  | F :: r => map (fun iv => (dup_corner kF iv, znth F iv 0)) (zrange (zlen F)) ++ init_dups (next_kF kF (zlen F)) r
  end.

(* union-find seen through `find` only: a class-representative function (any union-find inducing the same
   partition gives the same output, see Proofs: rebuild_rep_independent; C20 proves mouette's does) *)
Definition uf := Z -> Z.
Definition uf_init : uf := fun z => z.
Definition uf_union (r : uf) (x y : Z) : uf :=
  let rx := r x in let ry := r y in
  fun z => let t := r z in if t =? rx then ry else t.

Definition lookup2 (ll : list (list Z)) (F i : Z) : Z := znth (znth ll F []) i 0.

(* the pairs handed to uf.union, in order *)
Definition glue_pairs (faces : list face) (edges : list (Z * Z)) (cut : list Z) : list (Z * Z) :=
  let IF := init_faces kF_start faces in
  flat_map (fun t => let '(e, d1, d2) := t in
     if glue_test (memZ e cut) then union_pairs (lookup2 IF) d1 d2 else [])
    (interior_info faces edges).

Definition rep_of_pairs (pairs : list (Z * Z)) : uf :=
  fold_left (fun r p => uf_union r (fst p) (snd p)) pairs uf_init.

Record rebuilt := {
  out_faces : list (list Z);   (* output_mesh.faces *)
  out_src   : list Z;          (* output vertex k carries the position of input vertex (nth k out_src) *)
  out_ref   : list (Z * Z);    (* the writes `ref_vertex[u] = v`, u = output vertex *)
  out_n     : Z                (* number of output vertices *)
}.

Definition rebuild_with (rep : uf) (faces : list face) : rebuilt :=
  let IF := init_faces kF_start faces in
  let FF := map (map rep) IF in
  let seen := dedup (concat FF) in
  let PV := concat faces in      (* output_mesh.vertices before compaction: one entry per corner, in order *)
  {| out_faces := map (map (fun u => index_of u seen)) FF;
     out_src := map (fun u => znth PV u 0) seen;
     out_ref := map (fun dv => (index_of (rep (fst dv)) seen, snd dv)) (init_dups kF_start faces);
     out_n := zlen seen |}.

Definition rebuild (faces : list face) (edges : list (Z * Z)) (cut : list Z) : rebuilt :=
  rebuild_with (rep_of_pairs (glue_pairs faces edges cut)) faces.

(* ref_vertex as a function (first registration; Proofs show that all registrations of one output vertex agree) *)
Fixpoint assocZ (k : Z) (l : list (Z * Z)) : option Z :=
  match l with [] => None | (a, b) :: r => if a =? k then Some b else assocZ k r end.
Definition ref_vertex (r : rebuilt) (k : Z) : option Z := assocZ k (out_ref r).
