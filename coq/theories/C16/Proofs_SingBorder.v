(* C16 - every singular vertex that is an end of a cut edge has a copy on the border of the rebuilt mesh, as soon
   as the cut graph is connected and has at least two edges *)
From Coq Require Import ZArith List Bool Lia.
Import ListNotations.
Require Import MV.Lib.Base MV.C16.Gen MV.C16.Model MV.C16.Checkers.
Require Import MV.C16.Proofs_Base MV.C16.Proofs_UF MV.C16.Proofs_Struct MV.C16.Proofs_Rebuild MV.C16.Proofs_Prune.
Require Import MV.C16.Proofs_Ring MV.C16.Proofs_Border.
Open Scope Z_scope.

Definition joins_unique (edges : list (Z * Z)) : Prop :=
  forall e e' x y, 0 <= e < zlen edges -> 0 <= e' < zlen edges ->
    joins edges e x y = true -> joins edges e' x y = true -> e = e'.
(* every edge of the table is a side of some face *)
Definition table_sound (faces : list face) (edges : list (Z * Z)) : Prop :=
  forall e, 0 <= e < zlen edges ->
    direct_face faces (fst (ends edges e)) (snd (ends edges e)) <> None \/
    direct_face faces (snd (ends edges e)) (fst (ends edges e)) <> None.
(* vertex-manifoldness: the corners of every vertex form one ring or one fan *)
Definition rings (faces : list face) : Prop := forall p, validp faces p -> exists l, ring_at faces (fv faces p) l.

Definition gap faces edges cut (p : Z * Z) : Prop := forall q, ~ linkedp faces edges cut p q.

Section SB.
  Variable faces : list face.
  Variable edges : list (Z * Z).
  Variable cut : list Z.
  Hypothesis T : all_tri faces.
  Hypothesis O : oriented faces.
  Hypothesis JU : joins_unique edges.
  Hypothesis TS : table_sound faces edges.
  Hypothesis RG : rings faces.
  Hypothesis CR : forall e, In e cut -> 0 <= e < zlen edges.
  Let r := rebuild faces edges cut.

  Lemma nv_spec f k k' x y : direct_face faces x y = Some (f, k, k') ->
    validp faces (f, k) /\ fv faces (f, k) = x /\ nv' faces (f, k) = y /\ k' = (k + 1) mod 3 /\ validp faces (f, k').
  Proof.
    intros D. apply direct_face_spec in D. destruct D as [V [V' [A [B M]]]].
    assert (L : zlen (znth faces f []) = 3) by (apply T, znth_In, V). rewrite L in M.
    unfold validp, fv, nv'. cbn [fst snd]. rewrite <- M. auto.
  Qed.

  Lemma gap_cut p e : validp faces p -> In e cut -> joins edges e (fv faces p) (nv' faces p) = true -> gap faces edges cut p.
  Proof.
    intros V He J q [_ [_ [_ [e' [Re' [Nc J']]]]]]. assert (e = e') by (eapply JU; eauto). subst. contradiction.
  Qed.

  Lemma gap_none p : stepp faces p = None -> gap faces edges cut p.
  Proof. intros E q [_ [_ [S _]]]. congruence. Qed.

  Lemma sep_at t l p q p' : ring_at faces t l -> validp faces p -> fv faces p = t -> stepp faces p = Some q ->
    In p' l -> p' <> p -> gap faces edges cut p -> gap faces edges cut p' ->
    ~ eqcl (glued faces edges cut) (pcorner faces p) (pcorner faces q).
  Proof.
    intros R V Ft St Ip' Np G G'. pose proof R as [ND [Cov _]].
    assert (Ip : In p l) by (apply Cov; auto).
    destruct (In_znth _ _ (0, 0) Ip) as [g [Hg Eg]]. destruct (In_znth _ _ (0, 0) Ip') as [g' [Hg' Eg']].
    fold (rpos l g) in Eg. fold (rpos l g') in Eg'.
    assert (Ngg : g <> g') by (intros ->; congruence).
    assert (Eq : q = rpos l ((g + 1) mod zlen l)) by (apply (ring_step faces t l g q R Hg); now rewrite Eg).
    rewrite <- Eg, Eq. apply (ring_separates faces edges cut t l g g' T R Hg Hg' Ngg); [now rewrite Eg|now rewrite Eg'].
  Qed.

  (* a second cut edge e' = {w,u} at w breaks the ring of w somewhere else than after p *)
  Lemma second_gap w l p q e' u : ring_at faces w l -> validp faces p -> fv faces p = w -> stepp faces p = Some q ->
    In e' cut -> joins edges e' w u = true -> u <> nv' faces p ->
    exists p', In p' l /\ p' <> p /\ gap faces edges cut p'.
  Proof.
    intros R V Fw St He' J' Nu. pose proof R as [ND [Cov [Steps Cl]]]. pose proof (CR e' He') as Re'.
    destruct (direct_face faces w u) as [[[f' k'] k'']|] eqn:D1.
    - destruct (nv_spec _ _ _ _ _ D1) as [V' [F' [N' _]]]. exists (f', k'). split; [apply Cov; auto|]. split.
      + intros E. apply Nu. rewrite <- E. now rewrite N'.
      + apply (gap_cut (f', k') e'); auto. now rewrite F', N'.
    - (* the edge only has the face in which it runs u -> w *)
      assert (D2 : exists f' k' k'', direct_face faces u w = Some (f', k', k'')).
      { apply joins_iff in J'. destruct (TS e' Re') as [H|H]; destruct J' as [[P Q]|[P Q]]; rewrite P, Q in H;
          try congruence; destruct (direct_face faces u w) as [[[a b] c]|]; try congruence; eauto. }
      destruct D2 as [f' [k' [k'' D2]]]. destruct (nv_spec _ _ _ _ _ D2) as [Vk [Fk [Nk [Mk Vk'']]]].
      set (c' := (f', k'')).
      assert (Fc : fv faces c' = w).
      { apply direct_face_spec in D2. unfold fv, c'. cbn [fst snd]. tauto. }
      assert (NOPRED : forall x, In x l -> stepp faces x <> Some c').
      { intros x Hx Sx. apply Cov in Hx. destruct Hx as [Vx Fx]. unfold stepp in Sx. rewrite Fx in Sx.
        destruct (direct_face faces (nv' faces x) w) as [[[a b] c]|] eqn:D; [|discriminate].
        unfold tF, tJ, c' in Sx. cbn [fst snd] in Sx. inversion Sx; subst a c.
        destruct (nv_spec _ _ _ _ _ D) as [Vb [Fb [Nb [Mb _]]]].
        unfold validp in Vb, Vk. cbn [fst snd] in Vb, Vk.
        destruct (valid_tri _ _ _ T Vb) as [_ Rb]. destruct (valid_tri _ _ _ T Vk) as [_ Rk].
        assert (b = k').
        { rewrite Mk in Mb. assert (Kb : b = 0 \/ b = 1 \/ b = 2) by lia. assert (Kk : k' = 0 \/ k' = 1 \/ k' = 2) by lia.
          destruct Kb as [ -> | [ -> | -> ] ]; destruct Kk as [ -> | [ -> | -> ] ]; vm_compute in Mb; congruence. }
        subst b. assert (Eu : nv' faces x = u) by congruence.
        destruct x as [fx ix]. destruct (direct_face_exists faces fx ix Vx) as [d Dd]. cbn zeta in Dd.
        assert (Lx : zlen (znth faces fx []) = 3) by (apply T, znth_In, Vx). rewrite Lx in Dd.
        unfold fv, nv' in Fx, Eu. cbn [fst snd] in Fx, Eu. rewrite Fx, Eu in Dd. congruence. }
      assert (Ic : In c' l) by (apply Cov; auto).
      destruct (In_znth _ _ (0, 0) Ic) as [pp [Hpp Epp]]. fold (rpos l pp) in Epp.
      assert (LAST : stepp faces (rpos l (zlen l - 1)) = None).
      { destruct Cl as [C|C]; auto. exfalso.
        destruct (Z.eq_dec pp 0) as [->|Npp].
        - apply (NOPRED (rpos l (zlen l - 1))); [unfold rpos; apply znth_In; lia|]. now rewrite C, Epp.
        - apply (NOPRED (rpos l (pp - 1))); [unfold rpos; apply znth_In; lia|].
          rewrite Steps by lia. replace (pp - 1 + 1) with pp by lia. now rewrite Epp. }
      exists (rpos l (zlen l - 1)). split; [unfold rpos; apply znth_In; lia|]. split.
      + intros E. rewrite E in LAST. congruence.
      + now apply gap_none.
  Qed.

  (* the half-edge x -> y of face f, seen in the rebuilt mesh *)
  Lemma opened_at_start x y f k k' e e' u : direct_face faces x y = Some (f, k, k') ->
    In e cut -> joins edges e x y = true -> In e' cut -> joins edges e' x u = true -> u <> y ->
    exists b, In b (border_half_edges (out_faces r)) /\
              ref_vertex r (fst b) = Some x /\ ref_vertex r (snd b) = Some y.
  Proof.
    intros D He J He' J' Nu. destruct (nv_spec _ _ _ _ _ D) as [V [Fx [Ny [Mk V']]]].
    exists (out_corner r f k, out_corner r f k'). cbn [fst snd].
    assert (RF : ref_vertex r (out_corner r f k) = Some x /\ ref_vertex r (out_corner r f k') = Some y).
    { unfold r. rewrite !ref_out_corner by auto. apply direct_face_spec in D. destruct D as [_ [_ [A [B _]]]]. now rewrite A, B. }
    split; [|exact RF].
    destruct (direct_face faces y x) as [[[g h] h']|] eqn:D'.
    - apply (out_border_of_opened faces edges cut T x y f k k' g h h' O D D'). intros [E1 _].
      destruct (RG (f, k) V) as [l R]. rewrite Fx in R.
      assert (St : stepp faces (f, k) = Some (g, h')).
      { unfold stepp. rewrite Fx, Ny, D'. reflexivity. }
      destruct (second_gap x l (f, k) (g, h') e' u R V Fx St He' J') as [p' [Ip' [Np' Gp']]]; [now rewrite Ny|].
      assert (Gp : gap faces edges cut (f, k)) by (apply (gap_cut (f, k) e); auto; now rewrite Fx, Ny).
      apply (sep_at x l (f, k) (g, h') p' R V Fx St Ip' Np' Gp Gp').
      destruct (nv_spec _ _ _ _ _ D') as [_ [_ [_ [_ Vh']]]].
      destruct (rebuild_full faces edges cut) as [_ [_ [_ [_ [_ [_ [ID _]]]]]]].
      apply (ID f k g h'); auto.
    - apply (out_border_of_border faces edges cut T x y f k k' O D D').
  Qed.

  (* ---- the cut graph: an edge other than e at one of the ends of e *)
  Lemma other_edge e a b e3 : In e3 cut -> e3 <> e -> joins edges e a b = true ->
    forall n l w, (length l <= n)%nat -> (w = a \/ w = b) ->
      walk_in edges cut w l (fst (ends edges e3)) ->
      exists e' w', In e' cut /\ e' <> e /\ (w' = a \/ w' = b) /\ touches edges e' w' = true.
  Proof.
    intros H3 N3 J. induction n as [|n IH]; intros l w Hl Hw W.
    - destruct l; [|simpl in Hl; lia]. simpl in W. exists e3, w. repeat split; auto.
      unfold touches. rewrite W, Z.eqb_refl. reflexivity.
    - destruct l as [|x l]; [simpl in W; exists e3, w; repeat split; auto; unfold touches; rewrite W, Z.eqb_refl; reflexivity|].
      simpl in W. destruct W as [[e' [He' J']] W].
      destruct (Z.eq_dec e' e) as [->|Ne].
      + apply (IH l x); [simpl in Hl; lia| |exact W].
        apply joins_iff in J, J'. destruct J as [[P Q]|[P Q]]; destruct J' as [[P' Q']|[P' Q']]; destruct Hw; subst; auto; congruence.
      + exists e', w. repeat split; auto. apply joins_touches in J'. tauto.
  Qed.

  Theorem singular_on_border s :
    touched edges cut s ->
    (exists e1 e2, In e1 cut /\ In e2 cut /\ e1 <> e2) ->
    (forall u v, touched edges cut u -> touched edges cut v -> conn edges cut u v) ->
    exists b, In b (border_half_edges (out_faces r)) /\
              (ref_vertex r (fst b) = Some s \/ ref_vertex r (snd b) = Some s).
  Proof.
    intros [t [e [He J]]] [e1 [e2 [H1 [H2 N12]]]] CONN.
    (* an edge e3 of the cut graph other than e *)
    assert (E3 : exists e3, In e3 cut /\ e3 <> e).
    { destruct (Z.eq_dec e1 e) as [->|N]; [exists e2; split; auto|exists e1; split; auto]. }
    destruct E3 as [e3 [H3 N3]].
    assert (T3 : touched edges cut (fst (ends edges e3))).
    { exists (snd (ends edges e3)), e3. split; auto. apply joins_iff. auto. }
    assert (Ts : touched edges cut s) by (exists t, e; auto).
    destruct (CONN s _ Ts T3) as [l W].
    destruct (other_edge e s t e3 H3 N3 J (length l) l s (le_n _) (or_introl eq_refl) W) as [e' [w [He' [Ne' [Hw Tw]]]]].
    (* w is the end of e at which e' arrives; w2 the other end of e; u the other end of e' *)
    remember (if Z.eq_dec w s then t else s) as w2 eqn:Ew2.
    assert (Jw : joins edges e w w2 = true).
    { rewrite Ew2. destruct (Z.eq_dec w s) as [Ews|Nws]; [now rewrite Ews|]. destruct Hw as [Hw|Hw]; [congruence|]. rewrite Hw. now rewrite joins_sym. }
    set (u := other_end edges e' w).
    assert (Ju : joins edges e' w u = true) by (apply touches_other; auto).
    assert (Nu : u <> w2).
    { intros E. rewrite E in Ju. apply Ne'. apply (JU e' e w w2); auto. }
    assert (Ss : s = w \/ s = w2).
    { rewrite Ew2. destruct (Z.eq_dec w s); auto. }
    pose proof (CR e He) as Re.
    (* orientation of e seen from w *)
    destruct (direct_face faces w w2) as [[[f k] k']|] eqn:D.
    - destruct (opened_at_start w w2 f k k' e e' u D He Jw He' Ju Nu) as [b [Hb [R1 R2]]].
      exists b. split; auto. destruct Ss as [ -> | -> ]; auto.
    - (* only the half-edge w2 -> w exists: e is a border edge of the input *)
      assert (D2 : exists f k k', direct_face faces w2 w = Some (f, k, k')).
      { apply joins_iff in Jw. destruct (TS e Re) as [H|H]; destruct Jw as [[P Q]|[P Q]]; rewrite P, Q in H;
          try congruence; destruct (direct_face faces w2 w) as [[[a b] c]|]; try congruence; eauto. }
      destruct D2 as [f [k [k' D2]]].
      exists (out_corner r f k, out_corner r f k'). split.
      + apply (out_border_of_border faces edges cut T w2 w f k k' O D2 D).
      + destruct (nv_spec _ _ _ _ _ D2) as [V [_ [_ [_ V']]]]. cbn [fst snd]. unfold r. rewrite !ref_out_corner by auto.
        apply direct_face_spec in D2. destruct D2 as [_ [_ [A [B _]]]]. rewrite A, B.
        destruct Ss as [ -> | -> ]; auto.
  Qed.
End SB.
