(* C16 - the rebuild depends on the union-find only through the partition it induces on the corners:
   two class-representative functions with the same classes (and representatives of the same original vertex)
   give the same output.  mouette's UnionFind enters through `find` only; C20 proves that its `find` induces the
   equivalence closure of the united pairs, like the model's `rep_of_pairs` (Proofs_UF.rep_spec). *)
From Coq Require Import ZArith List Bool Lia.
Import ListNotations.
Require Import MV.Lib.Base MV.C16.Gen MV.C16.Model MV.C16.Checkers.
Require Import MV.C16.Proofs_Base MV.C16.Proofs_UF MV.C16.Proofs_Struct MV.C16.Proofs_Prune.
Open Scope Z_scope.

Lemma dedup_filter p l : filter p (dedup l) = dedup (filter p l).
Proof.
  induction l as [|x l IH]; [reflexivity|]. cbn [dedup filter]. destruct (p x) eqn:E.
  - cbn [dedup]. f_equal. rewrite <- IH.
    clear. induction (dedup l) as [|y m IHm]; [reflexivity|]. cbn [filter].
    destruct (negb (y =? x)) eqn:A; destruct (p y) eqn:B; cbn [filter]; rewrite ?A, ?B; try rewrite IHm; reflexivity.
  - rewrite <- IH. clear IH.
    induction (dedup l) as [|y m IHm]; [reflexivity|]. cbn [filter].
    destruct (Z.eqb_spec y x) as [->|N]; cbn [negb].
    + rewrite E. exact IHm.
    + cbn [filter]. destruct (p y); [f_equal|]; exact IHm.
Qed.

Lemma filter_map_comm {A B} (p : B -> bool) (r : A -> B) l : filter p (map r l) = map r (filter (fun z => p (r z)) l).
Proof. induction l as [|x l IH]; [reflexivity|]. cbn [map filter]. destruct (p (r x)); cbn [map]; now rewrite IH. Qed.

Lemma dedup_map_cons (r : Z -> Z) x l :
  dedup (map r (x :: l)) = r x :: dedup (map r (filter (fun z => negb (r z =? r x)) l)).
Proof. cbn [map dedup]. f_equal. rewrite dedup_filter. f_equal. apply (filter_map_comm (fun y => negb (y =? r x)) r l). Qed.

Section RepIndep.
  Variables r1 r2 : Z -> Z.
  Variable g : Z -> Z.

  Definition same_classes (l : list Z) : Prop := forall z z', In z l -> In z' l -> (r1 z = r1 z' <-> r2 z = r2 z').

  Lemma filter_classes x l : same_classes (x :: l) ->
    filter (fun z => negb (r1 z =? r1 x)) l = filter (fun z => negb (r2 z =? r2 x)) l.
  Proof.
    intros H. apply filter_ext_in. intros z Hz. f_equal.
    destruct (Z.eqb_spec (r1 z) (r1 x)) as [E|N]; destruct (Z.eqb_spec (r2 z) (r2 x)) as [E'|N']; auto; exfalso.
    - apply N'. apply (H z x); simpl; auto.
    - apply N. apply (H z x); simpl; auto.
  Qed.

  Lemma indep_main : forall n l, (length l <= n)%nat ->
    (forall c, same_classes (c :: l) -> In c l ->
       index_of (r1 c) (dedup (map r1 l)) = index_of (r2 c) (dedup (map r2 l))) /\
    (same_classes l -> (forall z, In z l -> g (r1 z) = g (r2 z)) ->
       map g (dedup (map r1 l)) = map g (dedup (map r2 l))).
  Proof.
    induction n as [|n IH]; intros l Hl.
    - destruct l; [|simpl in Hl; lia]. split; [intros c _ []|reflexivity].
    - destruct l as [|x l]; [split; [intros c _ []|reflexivity]|].
      assert (Hf : (length (filter (fun z => negb (r1 z =? r1 x)%Z) l) <= n)%nat).
      { pose proof (filter_len_le (fun z => negb (r1 z =? r1 x)) l). simpl in Hl. lia. }
      destruct (IH _ Hf) as [IH1 IH2]. split.
      + intros c SC Hc. rewrite !dedup_map_cons. cbn [index_of].
        assert (SCx : same_classes (x :: l)) by (intros z z' Hz Hz'; apply SC; now right).
        destruct (Z.eqb_spec (r1 x) (r1 c)) as [E|N]; destruct (Z.eqb_spec (r2 x) (r2 c)) as [E'|N']; auto.
        * exfalso. apply N'. apply (SC x c); simpl; auto.
        * exfalso. apply N. apply (SC x c); simpl; auto.
        * f_equal. rewrite <- (filter_classes x l SCx). apply IH1.
          -- intros z z' Hz Hz'. apply SC.
             ++ destruct Hz as [<-|Hz]; [now left|]. apply filter_In in Hz. right; right; tauto.
             ++ destruct Hz' as [<-|Hz']; [now left|]. apply filter_In in Hz'. right; right; tauto.
          -- destruct Hc as [->|Hc]; [congruence|]. apply filter_In. split; auto.
             apply negb_true_iff, Z.eqb_neq. congruence.
      + intros SC G. rewrite !dedup_map_cons. cbn [map]. f_equal; [apply G; now left|].
        rewrite <- (filter_classes x l SC). apply IH2.
        * intros z z' Hz Hz'. apply filter_In in Hz, Hz'. apply SC; right; tauto.
        * intros z Hz. apply filter_In in Hz. apply G. right; tauto.
  Qed.
End RepIndep.

Theorem rebuild_rep_independent (faces : list face) (r1 r2 : uf) :
  let N := ncorners faces in
  (forall c c', 0 <= c < N -> 0 <= c' < N -> (r1 c = r1 c' <-> r2 c = r2 c')) ->
  (forall c, 0 <= c < N -> cvert faces (r1 c) = cvert faces (r2 c)) ->
  rebuild_with r1 faces = rebuild_with r2 faces.
Proof.
  intros N SC CV. unfold rebuild_with. fold (IF0 faces).
  assert (CM : forall r : uf, concat (map (map r) (IF0 faces)) = map r (zrange N)).
  { intros r. rewrite <- concat_map, concat_IF0. reflexivity. }
  rewrite !CM.
  assert (SCl : same_classes r1 r2 (zrange N)).
  { intros z z' Hz Hz'. apply In_zrange in Hz, Hz'. now apply SC. }
  destruct (indep_main r1 r2 (cvert faces) (length (zrange N)) (zrange N) (le_n _)) as [I1 I2].
  assert (IDX : forall c, 0 <= c < N ->
            index_of (r1 c) (dedup (map r1 (zrange N))) = index_of (r2 c) (dedup (map r2 (zrange N)))).
  { intros c Hc. apply I1; [|now apply In_zrange].
    intros z z' Hz Hz'. apply SC.
    - destruct Hz as [<-|Hz]; auto. now apply In_zrange in Hz.
    - destruct Hz' as [<-|Hz']; auto. now apply In_zrange in Hz'. }
  assert (SRC : map (cvert faces) (dedup (map r1 (zrange N))) = map (cvert faces) (dedup (map r2 (zrange N)))).
  { apply I2; auto. intros z Hz. apply In_zrange in Hz. now apply CV. }
  f_equal.
  - rewrite !map_map. apply map_ext_in. intros l Hl. rewrite !map_map. apply map_ext_in. intros c Hc.
    apply IDX. apply In_zrange. unfold N. rewrite <- concat_IF0. apply in_concat. eauto.
  - exact SRC.
  - rewrite dups0. rewrite !map_map. apply map_ext_in. intros c Hc. apply In_zrange in Hc. cbn [fst snd].
    f_equal. now apply IDX.
  - unfold zlen. f_equal.
    rewrite <- (map_length (cvert faces) (dedup (map r1 (zrange N)))), SRC. now rewrite map_length.
Qed.
