(* C16 - correspondence: what is evaluated (vm_compute, kernel-checked) on every generated case.
   A case carries the input tables, and everything the implementation was observed to produce. *)
From Coq Require Import ZArith List Bool.
Import ListNotations.
Require Import MV.Lib.Base MV.C16.Gen MV.C16.Model MV.C16.Checkers.
Open Scope Z_scope.

Definition pos3 := (Z * Z * Z)%type.
Definition pos3_eqb (p q : pos3) : bool :=
  (fst (fst p) =? fst (fst q)) && (snd (fst p) =? snd (fst q)) && (snd p =? snd q).

Record case := {
  c_nv : Z; c_faces : list face; c_coords : list pos3; c_singus : list Z;
  c_edges : list (Z * Z); c_interior : list Z; c_boundary : list Z;
  c_evisited : list Z; c_rank : list (Z * Z);
  c_cut0 : list Z; c_cut : list Z;
  c_out_faces : list (list Z); c_out_verts : list pos3; c_ref : list (Z * Z)
}.

Definition zl_eqb := list_eqb Z.eqb.
Definition zll_eqb := list_eqb (list_eqb Z.eqb).

(* the sphere exception of the property: closed, Euler characteristic 2, fewer than two singular vertices *)
Definition sphere_exception (c : case) : bool :=
  closed_b (c_faces c) && (euler (c_faces c) =? 2) && (zlen (dedup (c_singus c)) <? 2).
(* the class of the known finding: the whole cut graph is one interior edge (a slit along a single edge cannot be
   represented by an indexed face list; happens for a closed sphere with two adjacent singular vertices) *)
Definition single_slit (c : case) : bool :=
  closed_b (c_faces c) && (zlen (c_cut c) =? 1).

Definition mk (code : Z) (b : bool) : list Z := if b then [] else [code].

Definition check_codes (c : case) : list Z :=
  let faces := c_faces c in let edges := c_edges c in
  let r := rebuild faces edges (c_cut c) in
  (* input sanity (what the theorems assume of the input tables) *)
  mk 1 (tri_ok_b faces && oriented_b faces && faces_connected_b faces && edges_table_ok_b faces edges
        && table_ok_b faces edges && primal_connected_b edges
        && closed_set_b edges (fun _ => false) (boundary_edges faces edges)
        && surface_ok_b faces edges && subsetZ (c_cut c) (zrange (zlen edges))) ++
  (* tables computed by the model = tables of the real mesh *)
  mk 2 (zl_eqb (interior_edges faces edges) (c_interior c) && zl_eqb (boundary_edges faces edges) (c_boundary c)) ++
  (* the dual tree of the implementation is a spanning tree of the dual graph (certificate: ranks) *)
  mk 3 (forest_cert_b faces edges (c_evisited c) (rank_of (c_rank c)) && dual_spanning_b faces edges (c_evisited c)
        && dual_spanning_df_b faces edges (c_evisited c)
        && subsetZ (c_evisited c) (c_interior c)) ++
  (* complement *)
  mk 4 (zl_eqb (cut0 edges (c_evisited c)) (c_cut0 c)) ++
  (* pruning: the model's queue reaches the implementation's cut_edges *)
  mk 5 (match cut_edges_of edges (c_nv c) (c_singus c) (c_evisited c) with
        | Some k => zl_eqb k (c_cut c) | None => false end) ++
  (* rebuild: faces, vertex positions, ref_vertex - UP TO THE NUMBERING of the output vertices, which the property
     leaves free: sigma = {(model index, implementation index)} read off corner by corner must be a bijection *)
  mk 6 (list_eqb Z.eqb (map zlen (out_faces r)) (map zlen (c_out_faces c))
        && (let sg := combine (concat (out_faces r)) (concat (c_out_faces c)) in
            forallb (fun p => forallb (fun q => Bool.eqb (fst p =? fst q) (snd p =? snd q)) sg) sg)) ++
  mk 7 ((out_n r =? zlen (c_out_verts c))
        && forallb (fun p => pos3_eqb (znth (c_coords c) (znth (out_src r) (fst p) 0) (0, 0, 0))
                                      (znth (c_out_verts c) (snd p) (0, 0, 0)))
                   (combine (concat (out_faces r)) (concat (c_out_faces c)))) ++
  mk 8 (forallb (fun p => match ref_vertex r (fst p), assocZ (snd p) (c_ref c) with
                          | Some v, Some w => v =? w | _, _ => false end)
                (combine (concat (out_faces r)) (concat (c_out_faces c)))
        && forallb (fun kv => match ref_vertex r (fst kv) with Some v => v =? snd kv | None => false end) (out_ref r)) ++
  (* the guarded / partial parts of C16, checked on the output *)
  (if sphere_exception c then mk 9 (match c_cut c with [] => true | _ => false end) ++ mk 10 (out_n r =? c_nv c)
   else
     mk 11 (cut_contains_border_b faces edges (c_cut c) && cut_connected_b edges (c_cut c)) ++
     mk 12 (singus_on_cut_b edges (c_cut c) (c_singus c)) ++
     (if single_slit c then []
      else mk 13 (faces_connected_b (out_faces r)) ++ mk 14 (one_border_loop_b (out_faces r)) ++
           mk 15 (euler (out_faces r) =? 1) ++ mk 16 (singus_on_border_b r (c_singus c)))).

Definition check_case (c : case) : bool := match check_codes c with [] => true | _ => false end.
Definition has_code (k : Z) (c : case) : bool := negb (memZ k (check_codes c)).
