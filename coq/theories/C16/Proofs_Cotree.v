(* C16 - tree-cotree: the complement of a forest of the dual graph is a connected subgraph of the primal graph *)
From Coq Require Import ZArith List Bool Lia.
Import ListNotations.
Require Import MV.Lib.Base MV.C16.Gen MV.C16.Model MV.C16.Checkers.
Require Import MV.C16.Proofs_Base MV.C16.Proofs_Struct MV.C16.Proofs_Prune.
Open Scope Z_scope.

Lemma exists_max {A} (g : A -> Z) (l : list A) : l <> [] -> exists x, In x l /\ forall y, In y l -> g y <= g x.
Proof.
  induction l as [|a l IH]; [congruence|]. intros _. destruct l as [|b l].
  - exists a. split; [now left|]. intros y [<-|[]]. lia.
  - destruct IH as [x [Hx M]]; [discriminate|]. destruct (Z_le_gt_dec (g a) (g x)).
    + exists x. split; [now right|]. intros y [<-|Hy]; auto.
    + exists a. split; [now left|]. intros y [<-|Hy]; [lia|]. specialize (M y Hy). lia.
Qed.

Lemma dedup_length_le l : (length (dedup l) <= length l)%nat.
Proof.
  induction l as [|x l IH]; simpl; [lia|].
  pose proof (filter_len_le (fun y => negb (y =? x)) (dedup l)). lia.
Qed.

Lemma dedup_len_NoDup l : zlen (dedup l) = zlen l -> NoDup l.
Proof.
  unfold zlen. induction l as [|x l IH]; intros H; [constructor|]. cbn [dedup length] in H.
  pose proof (filter_len_le (fun y => negb (y =? x)) (dedup l)) as F. pose proof (dedup_length_le l) as D.
  assert (E1 : length (filter (fun y => negb (y =? x)) (dedup l)) = length (dedup l)) by lia.
  assert (E2 : length (dedup l) = length l) by lia.
  constructor; [|apply IH; lia].
  intros Hx. apply dedup_In in Hx.
  assert (K : forall m, In x m -> (length (filter (fun y => negb (y =? x)%Z) m) < length m)%nat).
  { induction m as [|z m IHm]; [intros []|]. intros [->|Hm]; cbn [filter].
    - rewrite Z.eqb_refl. cbn [negb]. pose proof (filter_len_le (fun y => negb (y =? x)) m). simpl. lia.
    - specialize (IHm Hm). destruct (negb (z =? x)); simpl; lia. }
  specialize (K _ Hx). lia.
Qed.

Section Cotree.
  Variable faces : list face.
  Variable edges : list (Z * Z).
  Variable rk : Z -> Z.

  Let fo := faces_of_edge faces edges.
  Let all := zrange (zlen edges).

  (* Prop form of the rank certificate *)
  Definition forest_cert (T : list Z) : Prop :=
    NoDup T /\
    (forall e, In e T -> 0 <= e < zlen edges /\ exists f g, fo e = [f; g] /\ rk f <> rk g) /\
    (forall f e e', In e T -> In e' T -> In f (fo e) -> In f (fo e') ->
       (exists g, In g (fo e) /\ g <> f /\ rk g < rk f) -> (exists g, In g (fo e') /\ g <> f /\ rk g < rk f) -> e = e').

  Lemma forest_cert_of_b T : forest_cert_b faces edges T rk = true -> forest_cert T.
  Proof.
    unfold forest_cert_b. cbn zeta. rewrite !andb_true_iff, !forallb_forall, Z.eqb_eq.
    intros [[[C1 C2] C3] C4]. split; [now apply dedup_len_NoDup|]. split.
    - intros e He. split.
      + specialize (C4 e He). apply andb_true_iff in C4. lia.
      + specialize (C1 (e, fo e)). cbn [snd] in C1.
        assert (I : In (e, fo e) (tree_faces faces edges T)) by (unfold tree_faces; apply in_map_iff; eauto).
        specialize (C1 I). destruct (fo e) as [|f [|g [|h l]]]; try discriminate.
        exists f, g. split; auto. apply negb_true_iff, Z.eqb_neq in C1. auto.
    - intros f e e' He He' Hf Hf' [g [Hg [Ng Lg]]] [g' [Hg' [Ng' Lg']]].
      assert (Rf : 0 <= f < zlen faces).
      { unfold fo, faces_of_edge in Hf. apply filter_In in Hf. destruct Hf as [Hf _]. now apply In_zrange in Hf. }
      specialize (C2 f (proj2 (In_zrange _ _) Rf)). apply Z.leb_le in C2.
      set (L := lower_tree_edges (tree_faces faces edges T) rk f) in *.
      assert (ML : forall e0, In e0 T -> In f (fo e0) -> (exists g0, In g0 (fo e0) /\ g0 <> f /\ rk g0 < rk f) -> In e0 L).
      { intros e0 H0 F0 [g0 [G0 [N0 L0]]]. unfold L, lower_tree_edges. apply in_map_iff. exists (e0, fo e0). split; auto.
        apply filter_In. split; [unfold tree_faces; apply in_map_iff; eauto|]. cbn [snd].
        apply andb_true_iff. split; [|now apply memZ_In].
        apply existsb_exists. exists g0. split; auto. apply andb_true_iff. split.
        - apply negb_true_iff, Z.eqb_neq. auto.
        - now apply Z.ltb_lt. }
      assert (I1 : In e (dedup L)) by (apply dedup_In, ML; eauto).
      assert (I2 : In e' (dedup L)) by (apply dedup_In, ML; eauto).
      unfold zlen in C2. destruct (dedup L) as [|x [|y l]]; cbn [length] in C2; try lia.
      + destruct I1.
      + destruct I1 as [<-|[]]. destruct I2 as [<-|[]]. reflexivity.
  Qed.

  Lemma forest_cert_sub T T' : forest_cert T -> NoDup T' -> (forall e, In e T' -> In e T) -> forest_cert T'.
  Proof.
    intros [A [B C]] ND Sub. split; auto. split.
    - intros e He. apply B. auto.
    - intros f e e' He He'. apply C; auto.
  Qed.

  (* the input surface: triangles with three distinct vertices, every edge of a face is in the edge table *)
  Definition tri_ok : Prop := forall f, 0 <= f < zlen faces -> exists a b c, znth faces f [] = [a; b; c] /\ a <> b /\ b <> c /\ a <> c.
  Definition table_ok : Prop := forall f x y, 0 <= f < zlen faces -> In x (znth faces f []) -> In y (znth faces f []) -> x <> y ->
    exists e, 0 <= e < zlen edges /\ joins edges e x y = true.

  Lemma fo_spec e f : In f (fo e) <-> 0 <= f < zlen faces /\
     In (fst (ends edges e)) (znth faces f []) /\ In (snd (ends edges e)) (znth faces f []) /\ fst (ends edges e) <> snd (ends edges e).
  Proof.
    unfold fo, faces_of_edge, face_has. rewrite filter_In, In_zrange, !andb_true_iff, !memZ_In, negb_true_iff, Z.eqb_neq. tauto.
  Qed.

  Lemma conn_via cut1 cut2 : (forall a b, adj edges cut1 a b -> conn edges cut2 a b) ->
    forall u v, conn edges cut1 u v -> conn edges cut2 u v.
  Proof.
    intros M u v [l W]. revert u W. induction l as [|x r IH]; intros u W; simpl in W.
    - subst. apply conn_refl.
    - destruct W as [A W]. eapply conn_trans; [apply M; eauto|]. apply IH; auto.
  Qed.

  Lemma cotree_connected : tri_ok -> table_ok -> forall n T, length T = n -> forest_cert T ->
    forall u v, conn edges all u v -> conn edges (cut0 edges T) u v.
  Proof.
    intros TRI TAB. induction n as [|n IH]; intros T Hn FC u v C.
    - destruct T; [|discriminate]. eapply conn_mono; [|exact C].
      intros a b [e [He J]]. exists e. split; auto. apply cut0_spec. split; [now apply In_zrange in He|]. intros [].
    - (* the faces touched by tree edges, and one of maximal rank *)
      set (M := flat_map fo T).
      assert (MN : M <> []).
      { destruct T as [|e T']; [discriminate|]. destruct FC as [_ [B _]].
        destruct (B e (or_introl eq_refl)) as [_ [f [g [E _]]]]. unfold M. cbn [flat_map]. rewrite E. discriminate. }
      destruct (exists_max rk M MN) as [f [Hf Mx]].
      unfold M in Hf. apply in_flat_map in Hf. destruct Hf as [e1 [He1 Hf1]].
      destruct FC as [ND [B Cc]].
      (* e1 is the only tree edge of face f *)
      assert (LOW : forall e, In e T -> In f (fo e) -> exists g, In g (fo e) /\ g <> f /\ rk g < rk f).
      { intros e He Hfe. destruct (B e He) as [_ [f' [g' [E Nr]]]]. rewrite E in Hfe.
        assert (Mg : forall h, In h (fo e) -> rk h <= rk f).
        { intros h Hh. apply Mx. unfold M. apply in_flat_map. eauto. }
        destruct Hfe as [<-|[<-|[]]].
        - exists g'. rewrite E. split; [simpl; auto|]. assert (rk g' <= rk f') by (apply Mg; rewrite E; simpl; auto).
          split; [congruence|lia].
        - exists f'. rewrite E. split; [simpl; auto|]. assert (rk f' <= rk g') by (apply Mg; rewrite E; simpl; auto).
          split; [congruence|lia]. }
      assert (ONLY : forall e, In e T -> In f (fo e) -> e = e1).
      { intros e He Hfe. apply (Cc f e e1); auto. }
      (* the triangle f = [a;b;c], e1 joins two of its vertices x y; z is the third *)
      apply fo_spec in Hf1. destruct Hf1 as [Rf [Hx [Hy Nxy]]].
      remember (fst (ends edges e1)) as x eqn:Ex. remember (snd (ends edges e1)) as y eqn:Ey.
      destruct (TRI f Rf) as [a [b [c [EF [Nab [Nbc Nac]]]]]].
      assert (Z3 : exists z, In z (znth faces f []) /\ z <> x /\ z <> y).
      { rewrite EF in *. simpl in Hx, Hy. clear Ex Ey.
        destruct Hx as [Hx|[Hx|[Hx|[]]]]; destruct Hy as [Hy|[Hy|[Hy|[]]]]; subst x y; try congruence;
          first [ exists a; simpl; split; [tauto|split; congruence]
                | exists b; simpl; split; [tauto|split; congruence]
                | exists c; simpl; split; [tauto|split; congruence] ]. }
      destruct Z3 as [z [Hz [Nzx Nzy]]].
      assert (SIDE : forall p, In p (znth faces f []) -> p <> z -> adj edges (cut0 edges T) p z).
      { intros p Hp Np. destruct (TAB f p z Rf Hp Hz Np) as [e [Re J]]. exists e. split; auto.
        apply cut0_spec. split; auto. intros HeT.
        assert (e = e1).
        { apply ONLY; auto. apply fo_spec. apply joins_iff in J.
          destruct J as [[P Q]|[P Q]]; rewrite P, Q; repeat split; try lia; auto; congruence. }
        subst e. apply joins_iff in J. rewrite <- Ex, <- Ey in J. destruct J as [[P Q]|[P Q]]; congruence. }
      assert (XY : conn edges (cut0 edges T) x y).
      { apply (conn_step _ x z y); [apply SIDE; [exact Hx|congruence]|].
        apply (conn_step _ z y y); [apply adj_sym, SIDE; [exact Hy|congruence]|apply conn_refl]. }
      (* remove e1 from the tree and use the induction hypothesis *)
      set (T' := filter (fun e => negb (e =? e1)) T).
      assert (LT : length T' = n).
      { assert (K : forall l, NoDup l -> In e1 l -> S (length (filter (fun e => negb (e =? e1)%Z) l)) = length l).
        { induction l as [|a0 l IHl]; [intros _ []|]. intros NDl [->|Hin]; cbn [filter].
          - rewrite Z.eqb_refl. cbn [negb length]. f_equal. inversion NDl as [|? ? Nin _]; subst.
            clear -Nin. induction l as [|b0 l IHl]; [reflexivity|]. cbn [filter].
            destruct (Z.eqb_spec b0 e1) as [->|_]; [exfalso; apply Nin; now left|]. cbn [negb length]. f_equal.
            apply IHl. intros H. apply Nin. now right.
          - inversion NDl as [|? ? Nin NDl']; subst. destruct (Z.eqb_spec a0 e1) as [->|_]; [contradiction|].
            cbn [negb length]. f_equal. apply IHl; auto. }
        specialize (K T ND He1). fold T' in K. lia. }
      assert (FC' : forest_cert T').
      { apply (forest_cert_sub T); [split; auto|apply NoDup_filter; auto|].
        intros e He. unfold T' in He. apply filter_In in He. tauto. }
      pose proof (IH T' LT FC' u v C) as C'.
      eapply conn_via; [|exact C'].
      intros p q [e [He J]]. apply cut0_spec in He. destruct He as [Re NT'].
      destruct (Z.eq_dec e e1) as [->|Ne].
      + apply joins_iff in J. rewrite <- Ex, <- Ey in J. destruct J as [[<- <-]|[<- <-]]; auto. now apply conn_sym.
      + eapply conn_step; [|apply conn_refl]. exists e. split; auto. apply cut0_spec. split; auto.
        intros HT. apply NT'. unfold T'. apply filter_In. split; auto. apply negb_true_iff, Z.eqb_neq. auto.
  Qed.
End Cotree.
