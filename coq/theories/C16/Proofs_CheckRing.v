(* C16 - soundness of the boolean checkers behind the hypotheses of singular_on_border *)
From Coq Require Import ZArith List Bool Lia.
Import ListNotations.
Require Import MV.Lib.Base MV.C16.Gen MV.C16.Model MV.C16.Checkers.
Require Import MV.C16.Proofs_Base MV.C16.Proofs_UF MV.C16.Proofs_Struct MV.C16.Proofs_Rebuild MV.C16.Proofs_Prune.
Require Import MV.C16.Proofs_Cotree MV.C16.Proofs_Top MV.C16.Proofs_Ring MV.C16.Proofs_Border MV.C16.Proofs_SingBorder.
Open Scope Z_scope.

Lemma all_tri_of_b faces : tri_ok_b faces = true -> all_tri faces.
Proof.
  unfold tri_ok_b. rewrite forallb_forall. intros H F HF. specialize (H F HF).
  destruct F as [|a [|b [|c [|d l]]]]; try discriminate. reflexivity.
Qed.

Lemma nodupP_b_NoDup l : nodupP_b l = true -> NoDup l.
Proof.
  induction l as [|x r IH]; intros H; [constructor|]. cbn [nodupP_b] in H. apply andb_true_iff in H. destruct H as [A B].
  constructor; auto. intros HI. apply memP_In in HI. rewrite HI in A. discriminate.
Qed.

Lemma oriented_of_b faces : oriented_nodup_b faces = true -> oriented faces.
Proof. unfold oriented_nodup_b, oriented, dir_edges. apply nodupP_b_NoDup. Qed.

Lemma joins_unique_of_b edges : joins_unique_b edges = true -> joins_unique edges.
Proof.
  unfold joins_unique_b, joins_unique. cbn zeta. rewrite forallb_forall. intros H e e' x y He He' J J'.
  specialize (H e (proj2 (In_zrange _ _) He)). rewrite forallb_forall in H. specialize (H e' (proj2 (In_zrange _ _) He')).
  apply orb_true_iff in H. destruct H as [H|H]; [|apply Z.eqb_eq in H; auto].
  apply negb_true_iff in H. exfalso.
  apply joins_iff in J. destruct J as [[P Q]|[P Q]]; rewrite P, Q in H; [congruence|].
  rewrite joins_sym in H. congruence.
Qed.

Lemma table_sound_of_b faces edges : table_sound_b faces edges = true -> table_sound faces edges.
Proof.
  unfold table_sound_b, table_sound. cbn zeta. rewrite forallb_forall. intros H e He.
  specialize (H e (proj2 (In_zrange _ _) He)). unfold direct_face.
  destruct (df_lookup (he_table faces) (fst (ends edges e)) (snd (ends edges e)));
    destruct (df_lookup (he_table faces) (snd (ends edges e)) (fst (ends edges e))); try discriminate;
    [left|left|right]; discriminate.
Qed.

Lemma corners_of_spec faces v p : In p (corners_of faces v) <-> validp faces p /\ fv faces p = v.
Proof.
  unfold corners_of, validp, valid_corner, fv. rewrite in_flat_map. split.
  - intros [f [Hf H]]. apply In_zrange in Hf. apply in_flat_map in H. destruct H as [i [Hi H]]. apply In_zrange in Hi.
    destruct (Z.eqb_spec (znth (znth faces f []) i 0) v) as [E|N]; [|destruct H]. destruct H as [<-|[]]. cbn [fst snd]. auto.
  - intros [[Hf Hi] E]. exists (fst p). split; [now apply In_zrange|]. apply in_flat_map. exists (snd p).
    split; [now apply In_zrange|]. rewrite E, Z.eqb_refl. left. now destruct p.
Qed.

Lemma pair_eqb_eq p q : pair_eqb p q = true -> p = q.
Proof. unfold pair_eqb. rewrite andb_true_iff, !Z.eqb_eq. destruct p, q; cbn [fst snd]; intros [-> ->]; reflexivity. Qed.

Lemma stepH_eq faces p : stepH (he_table faces) faces p = stepp faces p.
Proof. reflexivity. Qed.

Lemma ring_at_of_b faces v l : ring_at_b (he_table faces) faces v l = true -> ring_at faces v l.
Proof.
  unfold ring_at_b. change (stepH (he_table faces) faces) with (stepp faces). rewrite !andb_true_iff, !forallb_forall. intros [[[[A B] C] D] E].
  split; [now apply nodupP_b_NoDup|]. split; [|split].
  - intros p. split.
    + intros Hp. specialize (B p Hp). rewrite !andb_true_iff in B. destruct B as [[[[B1 B2] B3] B4] B5].
      apply Z.leb_le in B1, B3. apply Z.ltb_lt in B2, B4. apply Z.eqb_eq in B5.
      split; [split; lia|exact B5].
    + intros Hp. apply memP_In, C. now apply corners_of_spec.
  - intros i Hi. specialize (D i (proj2 (In_zrange _ _) Hi)). unfold rposb in D. unfold rpos.
    destruct (stepp faces (znth l i (0, 0))) as [q|]; [|discriminate]. f_equal. now apply pair_eqb_eq.
  - unfold rposb in E. unfold rpos. destruct (stepp faces (znth l (zlen l - 1) (0, 0))) as [q|]; [left|now right].
    f_equal. now apply pair_eqb_eq.
Qed.

Lemma rings_of_b faces : rings_b faces = true -> rings faces.
Proof.
  unfold rings_b, rings. cbn zeta. rewrite forallb_forall. intros H p V. exists (find_ring (he_table faces) faces (fv faces p)).
  apply ring_at_of_b, H. unfold used_vertices. apply dedup_In. destruct V as [Hf Hi]. unfold fv.
  apply in_concat. exists (znth faces (fst p) []). split; now apply znth_In.
Qed.

Lemma subset_range (edges : list (Z * Z)) cut : subsetZ cut (zrange (zlen edges)) = true -> forall e, In e cut -> 0 <= e < zlen edges.
Proof. unfold subsetZ. rewrite forallb_forall. intros H e He. apply In_zrange, memZ_In, H, He. Qed.

Theorem singular_on_border_b faces edges cut s :
  surface_ok_b faces edges = true ->
  subsetZ cut (zrange (zlen edges)) = true -> cut_connected_b edges cut = true ->
  (exists e1 e2, In e1 cut /\ In e2 cut /\ e1 <> e2) ->
  touched edges cut s ->
  let r := rebuild faces edges cut in
  exists b, In b (border_half_edges (out_faces r)) /\
            (ref_vertex r (fst b) = Some s \/ ref_vertex r (snd b) = Some s).
Proof.
  unfold surface_ok_b. rewrite !andb_true_iff. intros [[[[H1 H2] H3] H4] H5] SR CC E2 Ts. cbn zeta.
  apply (singular_on_border faces edges cut (all_tri_of_b _ H1) (oriented_of_b _ H2) (joins_unique_of_b _ H3)
           (table_sound_of_b _ _ H4) (rings_of_b _ H5) (subset_range _ _ SR) s Ts E2).
  now apply cut_connected_of_b.
Qed.

Lemma ends_distinct faces edges e : tri_ok faces -> table_sound faces edges -> 0 <= e < zlen edges ->
  fst (ends edges e) <> snd (ends edges e).
Proof.
  intros TRI TS He E.
  assert (K : forall x y f k k', direct_face faces x y = Some (f, k, k') -> x <> y).
  { intros x y f k k' D. apply direct_face_spec in D. destruct D as [[Rf Rk] [_ [A [B M]]]].
    destruct (TRI f Rf) as [a [b [c [EF [Nab [Nbc Nac]]]]]]. rewrite EF in *. change (zlen [a; b; c]) with 3 in *.
    assert (Kk : k = 0 \/ k = 1 \/ k = 2) by lia.
    destruct Kk as [ -> | [ -> | -> ] ]; vm_compute in M; subst k'; vm_compute in A, B; congruence. }
  destruct (TS e He) as [H|H].
  - destruct (direct_face faces (fst (ends edges e)) (snd (ends edges e))) as [[[f k] k']|] eqn:D; [|congruence].
    exact (K _ _ _ _ _ D E).
  - destruct (direct_face faces (snd (ends edges e)) (fst (ends edges e))) as [[[f k] k']|] eqn:D; [|congruence].
    exact (K _ _ _ _ _ D (eq_sym E)).
Qed.

Theorem singularities_on_border_full faces edges nv singus T rk :
  cut_hyps faces edges T rk -> surface_ok_b faces edges = true ->
  exists cut, cut_edges_of edges nv singus T = Some cut /\
    ((exists e1 e2, In e1 cut /\ In e2 cut /\ e1 <> e2) ->
     forall s, In s singus -> touched edges (zrange (zlen edges)) s ->
       let r := rebuild faces edges cut in
       exists b, In b (border_half_edges (out_faces r)) /\
                 (ref_vertex r (fst b) = Some s \/ ref_vertex r (snd b) = Some s)).
Proof.
  intros [H1 [H2 [H3 [H4 [H5 H6]]]]] SO.
  destruct (cut_graph_full faces edges nv singus T rk H1 H2 H3 H4 H5 H6) as [cut [A [_ [_ [Sub [_ [_ [CONN SING]]]]]]]].
  exists cut. split; auto. intros [e1 [e2 [I1 [I2 N12]]]] s Hs Ts. cbn zeta.
  pose proof SO as SO'. unfold surface_ok_b in SO'. rewrite !andb_true_iff in SO'. destruct SO' as [[[[S1 S2] S3] S4] S5].
  assert (CR : forall e, In e cut -> 0 <= e < zlen edges) by (intros e He; apply Sub, cut0_spec in He; tauto).
  apply (singular_on_border faces edges cut (all_tri_of_b _ S1) (oriented_of_b _ S2) (joins_unique_of_b _ S3)
           (table_sound_of_b _ _ S4) (rings_of_b _ S5) CR s); [|exists e1, e2; auto|exact CONN].
  (* s is an end of a cut edge: some other vertex is *)
  pose proof (ends_distinct faces edges e1 (tri_ok_of_b _ H1) (table_sound_of_b _ _ S4) (CR e1 I1)) as ND.
  assert (J1 : joins edges e1 (fst (ends edges e1)) (snd (ends edges e1)) = true) by (apply joins_iff; auto).
  set (a := fst (ends edges e1)) in *. set (b := snd (ends edges e1)) in *.
  assert (Ta : touched edges cut a) by (exists b, e1; auto).
  assert (Tb : touched edges cut b) by (exists a, e1; split; auto; now rewrite joins_sym).
  destruct (Z.eq_dec s a) as [Ea|Na].
  - apply (SING s b); auto; [congruence|eapply touched_range; eauto].
  - apply (SING s a); auto. eapply touched_range; eauto.
Qed.
