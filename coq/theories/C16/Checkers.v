(* C16 - executable boolean checkers (no proofs here; their specifications are proved in Proofs_Check.v).
   They serve twice: as HYPOTHESES of the theorems (`checker ... = true`) and as the run-time validation of what
   the implementation returned on each generated case (the parts of C16 that stay `_partial` are checked here on
   every run: one border loop, Euler characteristic, singular vertices on the border of the cut mesh). *)
From Coq Require Import ZArith List Bool.
Import ListNotations.
Require Import MV.Lib.Base MV.C16.Gen MV.C16.Model.
Open Scope Z_scope.

Definition pair_eqb (p q : Z * Z) : bool := (fst p =? fst q) && (snd p =? snd q).
Fixpoint memP (x : Z * Z) (l : list (Z * Z)) : bool :=
  match l with [] => false | y :: r => pair_eqb y x || memP x r end.
Fixpoint dedupP (l : list (Z * Z)) : list (Z * Z) :=
  match l with [] => [] | x :: r => x :: filter (fun y => negb (pair_eqb y x)) (dedupP r) end.
Definition ukey (a b : Z) : Z * Z := if a <=? b then (a, b) else (b, a).

(* ------------------------------------------------------------------ faces as sets of directed / undirected edges *)
Definition dir_edges (faces : list face) : list (Z * Z) := map fst (half_edges faces).
Definition und_edges (faces : list face) : list (Z * Z) := dedupP (map (fun p => ukey (fst p) (snd p)) (dir_edges faces)).
Definition used_vertices (faces : list face) : list Z := dedup (concat faces).

Definition euler (faces : list face) : Z := zlen (used_vertices faces) - zlen (und_edges faces) + zlen faces.

(* every directed edge at most once (oriented, edge-manifold) *)
Definition oriented_b (faces : list face) : bool :=
  let d := dir_edges faces in zlen (dedupP d) =? zlen d.
Definition triangles_b (faces : list face) : bool := forallb (fun F => zlen F =? 3) faces.

(* ------------------------------------------------------------------ connectivity through a class-representative function *)
Definition all_same_rep (r : uf) (l : list Z) : bool :=
  match l with [] => true | x :: t => forallb (fun y => r y =? r x) t end.

(* faces linked by sharing an undirected edge: pairs (f, g) *)
Definition face_adj_pairs (faces : list face) : list (Z * Z) :=
  let H := he_table faces in
  flat_map (fun p => match df_lookup H (snd (fst p)) (fst (fst p)) with
                     | Some d => [(tF (snd p), tF d)]
                     | None => [] end) (half_edges faces).
Definition faces_connected_b (faces : list face) : bool :=
  all_same_rep (rep_of_pairs (face_adj_pairs faces)) (zrange (zlen faces)).

(* ------------------------------------------------------------------ border *)
Definition border_half_edges (faces : list face) : list (Z * Z) :=
  let D := dir_edges faces in
  filter (fun k => negb (memP (snd k, fst k) D)) D.

Fixpoint assocP (k : Z) (l : list (Z * Z)) : option Z :=
  match l with [] => None | (a, b) :: r => if a =? k then Some b else assocP k r end.

Fixpoint walk (nxt : list (Z * Z)) (n : nat) (v : Z) : list Z :=
  match n with O => [] | S n' => v :: match assocP v nxt with Some w => walk nxt n' w | None => [] end end.

(* the border half-edges form exactly one cycle: distinct starts, and the walk from the first start visits
   |border| distinct vertices and closes *)
Definition one_border_loop_b (faces : list face) : bool :=
  let B := border_half_edges faces in
  match B with
  | [] => false
  | (s, _) :: _ =>
    let l := walk B (length B) s in
    (zlen (dedup (map fst B)) =? zlen B) && (zlen l =? zlen B) && (zlen (dedup l) =? zlen l)
    && match assocP (last l s) B with Some w => w =? s | None => false end
  end.
Definition closed_b (faces : list face) : bool := match border_half_edges faces with [] => true | _ => false end.

Definition is_disk_b (faces : list face) : bool :=
  faces_connected_b faces && one_border_loop_b faces && (euler faces =? 1).

(* ------------------------------------------------------------------ the cut graph *)
Definition cut_pairs (edges : list (Z * Z)) (cut : list Z) : list (Z * Z) := map (ends edges) cut.
Definition cut_vertices (edges : list (Z * Z)) (cut : list Z) : list Z :=
  dedup (flat_map (fun e => [fst (ends edges e); snd (ends edges e)]) cut).
Definition cut_connected_b edges cut : bool :=
  all_same_rep (rep_of_pairs (cut_pairs edges cut)) (cut_vertices edges cut).
Definition subsetZ (a b : list Z) : bool := forallb (fun x => memZ x b) a.
Definition cut_contains_border_b faces edges cut : bool := subsetZ (boundary_edges faces edges) cut.

(* every singular vertex is an end of a cut edge *)
Definition singus_on_cut_b edges cut (singus : list Z) : bool :=
  let V := cut_vertices edges cut in forallb (fun s => memZ s V) singus.
(* every singular vertex has a copy on the border of the rebuilt mesh *)
Definition singus_on_border_b (r : rebuilt) (singus : list Z) : bool :=
  let bv := flat_map (fun u => match ref_vertex r u with Some v => [v] | None => [] end)
                     (map fst (border_half_edges (out_faces r))) in
  forallb (fun s => memZ s bv) singus.

(* ------------------------------------------------------------------ the dual tree handed over by the implementation *)
(* faces containing both ends of edge e (triangles: the faces of which e is an edge) *)
Definition face_has (F : face) (a b : Z) : bool := memZ a F && memZ b F && negb (a =? b).
Definition faces_of_edge (faces : list face) (edges : list (Z * Z)) (e : Z) : list Z :=
  filter (fun f => face_has (znth faces f []) (fst (ends edges e)) (snd (ends edges e))) (zrange (zlen faces)).

(* rank certificate of acyclicity: every tree edge joins exactly two faces of different rank, and no face has two
   tree edges leading to faces of smaller rank *)
(* TF = the tree edges with their faces: [(e, faces_of_edge e)] *)
Definition tree_faces faces edges (T : list Z) : list (Z * list Z) :=
  map (fun e => (e, faces_of_edge faces edges e)) T.
Definition lower_tree_edges (TF : list (Z * list Z)) (rk : Z -> Z) (f : Z) : list Z :=
  map fst (filter (fun ef => existsb (fun g => negb (g =? f) && (rk g <? rk f)) (snd ef) && memZ f (snd ef)) TF).
Definition forest_cert_b faces edges (T : list Z) (rk : Z -> Z) : bool :=
  let TF := tree_faces faces edges T in
  forallb (fun ef => match snd ef with
                     | [f; g] => negb (rk f =? rk g)
                     | _ => false end) TF
  && forallb (fun f => zlen (dedup (lower_tree_edges TF rk f)) <=? 1) (zrange (zlen faces))
  && (zlen (dedup T) =? zlen T)
  && forallb (fun e => (0 <=? e) && (e <? zlen edges)) T.

(* the tree edges link all faces *)
Definition dual_pairs faces edges (T : list Z) : list (Z * Z) :=
  flat_map (fun e => match faces_of_edge faces edges e with [f; g] => [(f, g)] | _ => [] end) T.
Definition dual_spanning_b faces edges (T : list Z) : bool :=
  all_same_rep (rep_of_pairs (dual_pairs faces edges T)) (zrange (zlen faces)).

(* the edge table lists every edge of every face exactly once, sorted ends *)
Definition edges_table_ok_b (faces : list face) (edges : list (Z * Z)) : bool :=
  let U := und_edges faces in
  forallb (fun k => memP k edges) U
  && forallb (fun k => memP k U) edges
  && (zlen (dedupP edges) =? zlen edges).

(* triangles with three distinct vertices *)
Definition tri_ok_b (faces : list face) : bool :=
  forallb (fun F => match F with
                    | [a; b; c] => negb (a =? b) && negb (b =? c) && negb (a =? c)
                    | _ => false end) faces.
(* every pair of distinct vertices of a face is joined by an edge of the table *)
Definition table_ok_b (faces : list face) (edges : list (Z * Z)) : bool :=
  let ids := zrange (zlen edges) in
  forallb (fun F => forallb (fun x => forallb (fun y => (x =? y) || existsb (fun e => joins edges e x y) ids) F) F) faces.
(* no edge of S ends in a leaf of S, except at singular vertices *)
Definition closed_set_b (edges : list (Z * Z)) (sing : Z -> bool) (S : list Z) : bool :=
  forallb (fun e => forallb (fun v =>
     sing v || existsb (fun e' => touches edges e' v && negb (other_end edges e' v =? other_end edges e v)) S)
     [fst (ends edges e); snd (ends edges e)]) S.
(* the two faces of each tree edge as direct_face sees them, and: these pairs link all faces *)
Definition dual_pairs_df faces edges (T : list Z) : list (Z * Z) :=
  let H := he_table faces in
  flat_map (fun e => match df_lookup H (fst (ends edges e)) (snd (ends edges e)),
                           df_lookup H (snd (ends edges e)) (fst (ends edges e)) with
                     | Some d1, Some d2 => [(tF d1, tF d2)]
                     | _, _ => [] end) T.
Definition dual_spanning_df_b faces edges (T : list Z) : bool :=
  all_same_rep (rep_of_pairs (dual_pairs_df faces edges T)) (zrange (zlen faces)).
(* the whole edge table as a graph is connected *)
Definition primal_connected_b (edges : list (Z * Z)) : bool := cut_connected_b edges (zrange (zlen edges)).

(* ------------------------------------------------------------------ turning around a vertex; p = (face, local index) *)
Definition fv (faces : list face) (p : Z * Z) : Z := znth (znth faces (fst p) []) (snd p) 0.        (* vertex of the corner *)
Definition nv' (faces : list face) (p : Z * Z) : Z := znth (znth faces (fst p) []) ((snd p + 1) mod 3) 0. (* next vertex *)
(* the corner of the same vertex in the face across the edge (vertex, next vertex) *)
Definition stepp (faces : list face) (p : Z * Z) : option (Z * Z) :=
  match direct_face faces (nv' faces p) (fv faces p) with
  | Some d => Some (tF d, tJ d)
  | None => None
  end.

(* the same with the half-edge table computed once *)
Definition stepH (H : list ((Z * Z) * (Z * Z * Z))) (faces : list face) (p : Z * Z) : option (Z * Z) :=
  match df_lookup H (nv' faces p) (fv faces p) with
  | Some d => Some (tF d, tJ d)
  | None => None
  end.

Fixpoint nodupP_b (l : list (Z * Z)) : bool :=
  match l with [] => true | x :: r => negb (memP x r) && nodupP_b r end.
Definition oriented_nodup_b (faces : list face) : bool := nodupP_b (dir_edges faces).
(* an unordered pair of vertices has at most one edge id *)
Definition joins_unique_b (edges : list (Z * Z)) : bool :=
  let ids := zrange (zlen edges) in
  forallb (fun e => forallb (fun e' => negb (joins edges e' (fst (ends edges e)) (snd (ends edges e))) || (e' =? e)) ids) ids.
(* every edge of the table is a side of some face *)
Definition table_sound_b (faces : list face) (edges : list (Z * Z)) : bool :=
  let H := he_table faces in
  forallb (fun e => match df_lookup H (fst (ends edges e)) (snd (ends edges e)),
                          df_lookup H (snd (ends edges e)) (fst (ends edges e)) with
                    | None, None => false | _, _ => true end) (zrange (zlen edges)).

(* the corners (f, i) of vertex v *)
Definition corners_of (faces : list face) (v : Z) : list (Z * Z) :=
  flat_map (fun f => flat_map (fun i => if znth (znth faces f []) i 0 =? v then [(f, i)] else [])
                              (zrange (zlen (znth faces f [])))) (zrange (zlen faces)).
Fixpoint walkp H (faces : list face) (n : nat) (p : Z * Z) : list (Z * Z) :=
  match n with
  | O => []
  | S n' => p :: match stepH H faces p with Some q => walkp H faces n' q | None => [] end
  end.
(* start at the corner nobody steps into (open fan), else anywhere *)
Definition find_ring H (faces : list face) (v : Z) : list (Z * Z) :=
  let C := corners_of faces v in
  let targets := flat_map (fun x => match stepH H faces x with Some q => [q] | None => [] end) C in
  match filter (fun c => negb (memP c targets)) C ++ C with
  | [] => []
  | s :: _ => walkp H faces (length C) s
  end.
Definition rposb (l : list (Z * Z)) (i : Z) : Z * Z := znth l i (0, 0).
Definition ring_at_b H (faces : list face) (v : Z) (l : list (Z * Z)) : bool :=
  nodupP_b l
  && forallb (fun p => (0 <=? fst p) && (fst p <? zlen faces) && (0 <=? snd p) && (snd p <? zlen (znth faces (fst p) []))
                       && (fv faces p =? v)) l
  && forallb (fun p => memP p l) (corners_of faces v)
  && forallb (fun i => match stepH H faces (rposb l i) with Some q => pair_eqb q (rposb l (i + 1)) | None => false end)
             (zrange (zlen l - 1))
  && match stepH H faces (rposb l (zlen l - 1)) with Some q => pair_eqb q (rposb l 0) | None => true end.
Definition rings_b (faces : list face) : bool :=
  let H := he_table faces in
  forallb (fun v => ring_at_b H faces v (find_ring H faces v)) (used_vertices faces).

(* the hypotheses on the input surface used by the border theorems, as one boolean: triangles with distinct vertices,
   every directed edge once, one id per edge, every edge a side of a face, one ring or fan of corners per vertex *)
Definition surface_ok_b (faces : list face) (edges : list (Z * Z)) : bool :=
  tri_ok_b faces && oriented_nodup_b faces && joins_unique_b edges && table_sound_b faces edges && rings_b faces.

Definition rank_of (l : list (Z * Z)) (f : Z) : Z := match assocP f l with Some r => r | None => -1 end.
