(* C16 - the class-representative union-find of Model.v induces the least equivalence containing the united pairs *)
From Coq Require Import ZArith List Bool Lia.
Import ListNotations.
Require Import MV.Lib.Base MV.C16.Gen MV.C16.Model MV.C16.Checkers MV.C16.Proofs_Base.
Open Scope Z_scope.

Inductive eqcl (P : Z -> Z -> Prop) : Z -> Z -> Prop :=
| ec_base x y : P x y -> eqcl P x y
| ec_refl x : eqcl P x x
| ec_sym x y : eqcl P x y -> eqcl P y x
| ec_trans x y z : eqcl P x y -> eqcl P y z -> eqcl P x z.

Lemma eqcl_mono (P Q : Z -> Z -> Prop) : (forall x y, P x y -> Q x y) -> forall x y, eqcl P x y -> eqcl Q x y.
Proof.
  intros H x y E. induction E.
  - apply ec_base; auto.
  - apply ec_refl.
  - now apply ec_sym.
  - eapply ec_trans; eauto.
Qed.

Definition inP (l : list (Z * Z)) (x y : Z) : Prop := In (x, y) l.

Definition uf_good (r : uf) (l : list (Z * Z)) : Prop :=
  (forall x, eqcl (inP l) x (r x)) /\ (forall x y, eqcl (inP l) x y -> r x = r y).

Lemma uf_union_val r a b z : uf_union r a b z = if r z =? r a then r b else r z.
Proof. reflexivity. Qed.

Lemma uf_good_step r l a b : uf_good r l -> uf_good (uf_union r a b) (l ++ [(a, b)]).
Proof.
  intros [G1 G2].
  assert (M : forall x y, eqcl (inP l) x y -> eqcl (inP (l ++ [(a, b)])) x y).
  { apply eqcl_mono. unfold inP. intros. apply in_or_app. now left. }
  assert (AB : eqcl (inP (l ++ [(a, b)])) a b).
  { apply ec_base. unfold inP. apply in_or_app. right. now left. }
  split.
  - intros x. rewrite uf_union_val. destruct (Z.eqb_spec (r x) (r a)) as [E|N].
    + eapply ec_trans; [apply M, G1|]. rewrite E.
      eapply ec_trans; [apply ec_sym, M, G1|]. eapply ec_trans; [apply AB|]. apply M, G1.
    + apply M, G1.
  - intros x y E. induction E as [x y H| | |].
    + unfold inP in H. apply in_app_or in H. destruct H as [H|[H|[]]].
      * rewrite !uf_union_val. rewrite (G2 x y); auto. now apply ec_base.
      * inversion H; subst. rewrite !uf_union_val. rewrite Z.eqb_refl.
        destruct (Z.eqb_spec (r y) (r x)); reflexivity.
    + reflexivity.
    + congruence.
    + congruence.
Qed.

Lemma uf_good_fold l : forall r l0, uf_good r l0 ->
  uf_good (fold_left (fun r p => uf_union r (fst p) (snd p)) l r) (l0 ++ l).
Proof.
  induction l as [|[a b] l IH]; intros r l0 G; simpl.
  - now rewrite app_nil_r.
  - replace (l0 ++ (a, b) :: l) with ((l0 ++ [(a, b)]) ++ l) by (rewrite <- app_assoc; reflexivity).
    apply IH. now apply uf_good_step.
Qed.

Lemma rep_good l : uf_good (rep_of_pairs l) l.
Proof.
  unfold rep_of_pairs. apply (uf_good_fold l uf_init []).
  split.
  - intros x. apply ec_refl.
  - intros x y E. unfold uf_init. induction E as [x y H| | |]; try congruence. destruct H.
Qed.

Theorem rep_spec l x y : rep_of_pairs l x = rep_of_pairs l y <-> eqcl (inP l) x y.
Proof.
  destruct (rep_good l) as [G1 G2]. split.
  - intros E. eapply ec_trans; [apply G1|]. rewrite E. apply ec_sym, G1.
  - apply G2.
Qed.

(* a property preserved along every united pair is preserved by taking representatives *)
Lemma rep_invariant (Q : Z -> Z -> Prop) l :
  (forall x, Q x x) -> (forall x y, Q x y -> Q y x) -> (forall x y z, Q x y -> Q y z -> Q x z) ->
  (forall x y, In (x, y) l -> Q x y) -> forall x, Q x (rep_of_pairs l x).
Proof.
  intros R S T B x. destruct (rep_good l) as [G1 _].
  specialize (G1 x). induction G1; eauto.
Qed.

Lemma all_same_rep_spec r l : all_same_rep r l = true <-> forall x y, In x l -> In y l -> r x = r y.
Proof.
  destruct l as [|a t]; simpl.
  - split; auto. intros _ x y [].
  - rewrite forallb_forall. split.
    + intros H x y Hx Hy.
      assert (K : forall z, a = z \/ In z t -> r z = r a).
      { intros z [<-|Hz]; auto. apply Z.eqb_eq. now apply H. }
      rewrite (K x Hx), (K y Hy). reflexivity.
    + intros H x Hx. apply Z.eqb_eq. apply H; auto.
Qed.
