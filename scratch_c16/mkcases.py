import sys, json, random, time
sys.path.insert(0, "/verif")
from vf import core
from vf.props import C16 as P
from vf.impl import c16_meshgen as G
rng = random.Random(5)
cases = [G.gen_case(rng) for _ in range(int(sys.argv[1]))]
t = time.time()
obs = P.run_impl_cases(cases)
print("impl time", time.time() - t, file=sys.stderr)
terms = [P.case_term(c, o) for c, o in zip(cases, obs) if o.get("ok")]
print(P.HEADER)
print("Definition cases : list case := [")
print(";\n".join(terms))
print("].")
print("Time Eval vm_compute in map check_codes cases.")
