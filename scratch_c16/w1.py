import sys, json
sys.path.insert(0, "/verif")
from vf import core
from vf.impl import c16_meshgen as G
from vf.impl.c16_oracle import oracle
nv, faces = G.seed_grid(3, 3, diag=1)
case = {"nv": nv, "faces": faces, "coords": G.grid_coords(3, 3), "singus": [4], "feat": [[1, 4], [4, 7]]}
print(G.validate(nv, faces), G.stats(nv, faces))
o = core.run_impl("vf.impl.c16_driver", {"cases": [case]})["results"][0]
print({k: o[k] for k in ("edges", "flagged", "evisited", "cut0", "cut", "out_faces", "error")})
print(oracle(case, o))
case["singus"] = [0]
o = core.run_impl("vf.impl.c16_driver", {"cases": [case]})["results"][0]
print(oracle(case, o))
case["singus"] = []
o = core.run_impl("vf.impl.c16_driver", {"cases": [case]})["results"][0]
print(oracle(case, o))
