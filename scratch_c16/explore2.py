import sys, json, random, collections
sys.path.insert(0, "/verif")
from vf import core
from vf.impl import c16_meshgen as G
from vf.impl.c16_oracle import oracle
seed = int(sys.argv[1]); N = int(sys.argv[2]); mode = sys.argv[3]
rng = random.Random(seed)
cases = []
while len(cases) < N:
    c = G.gen_case(rng)
    if mode == "nofeat" and c["feat"] is not None: continue
    if mode == "feat" and c["feat"] is None: continue
    cases.append(c)
nsh = 16
res = core.run_impl_parallel("vf.impl.c16_driver", [{"cases": cases[i::nsh]} for i in range(nsh)], timeout=900)
obs = [None]*N
for i, r in enumerate(res):
    for j, o in zip(range(i, N, nsh), r["results"]):
        obs[j] = o
fails = collections.defaultdict(list)
for k, (c, o) in enumerate(zip(cases, obs)):
    for key, msg in oracle(c, o):
        fails[key].append((k, msg))
for key, l in fails.items():
    print("==", key, len(l))
    for k, msg in l[:6]:
        c = cases[k]
        i = c["info"]
        print("   case", k, i["seed_kind"], i["coords"], "g%d b%d" % (i["genus"], i["loops"]), "nf", i["nf"], "singus", c["singus"], "feat", c["feat"], "\n      ", msg[:200])
json.dump({"cases": cases, "obs": obs}, open("/verif/scratch_c16/last_%s.json" % mode, "w"))
