import sys, json, random, collections
sys.path.insert(0, "/verif")
from vf import core
from vf.impl import c16_meshgen as G
from vf.impl.c16_oracle import oracle
seed = int(sys.argv[1]) if len(sys.argv) > 1 else 0
N = int(sys.argv[2]) if len(sys.argv) > 2 else 200
rng = random.Random(seed)
cases = [G.gen_case(rng) for _ in range(N)]
nsh = 16
payloads = [{"cases": cases[i::nsh]} for i in range(nsh)]
res = core.run_impl_parallel("vf.impl.c16_driver", payloads, timeout=600)
obs = [None]*N
for i, r in enumerate(res):
    for j, o in zip(range(i, N, nsh), r["results"]):
        obs[j] = o
hist = collections.Counter()
fails = collections.defaultdict(list)
for k, (c, o) in enumerate(zip(cases, obs)):
    hist[(c["info"]["genus"], c["info"]["loops"])] += 1
    for key, msg in oracle(c, o):
        fails[key].append((k, msg))
print(sorted(hist.items()))
for key, l in fails.items():
    print("==", key, len(l))
    for k, msg in l[:4]:
        c = cases[k]
        print("   case", k, c["info"], "singus", c["singus"], "feat", c["feat"], "\n      ", msg[:300])
json.dump({"cases": cases, "obs": obs}, open("/verif/scratch_c16/last.json", "w"))
