#!/bin/bash
# usage: mut.sh name 'python-snippet that edits s (file text)'
name="$1"; snippet="$2"
cd /tmp/wt-C16 && git checkout -q -- mouette/processing/cutting.py
/venv/bin/python - <<PY
p = "/tmp/wt-C16/mouette/processing/cutting.py"
s = open(p).read()
s0 = s
$snippet
assert s != s0, "mutation did not apply"
open(p, "w").write(s)
PY
[ $? -eq 0 ] || exit 1
echo "=== MUTATION $name"
git -C /tmp/wt-C16 diff --stat | tail -1
VERIF_REPO=/tmp/wt-C16 /verif/check C16 --tier quick 2>&1 | grep -v "^WARNING conda" | grep -E "VIOLATION|TRANSLATION|FAILED|obligations|  ->" | cut -c1-330
