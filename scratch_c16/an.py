import json, sys
sys.path.insert(0, "/verif")
from vf.impl.c16_oracle import oracle
d = json.load(open("/verif/scratch_c16/last_%s.json" % sys.argv[1]))
import collections
h = collections.Counter()
for c, o in zip(d["cases"], d["obs"]):
    r = oracle(c, o)
    if r:
        i = c["info"]
        h[(tuple(sorted(k for k, _ in r)), i["genus"], i["loops"], len(set(c["singus"])), len(o.get("cut") or []), c["feat"] is not None)] += 1
for k, v in sorted(h.items()): print(v, k)
