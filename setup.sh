#!/bin/bash
# Build the whole Coq development from files on disk (offline): regenerate Gen*.v from /repo, then make.
HERE="$(cd "$(dirname "${BASH_SOURCE[0]}")" && pwd)"
export PYTHONPATH="$HERE:/repo" PYTHONHASHSEED=0 PIP_NO_INDEX=1
cd "$HERE" && /venv/bin/python -m vf.setup "$@"
