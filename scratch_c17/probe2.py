import numpy as np, mouette as M, math
from mouette.processing import parametrization as PARAM
from mouette.processing.border import extract_border_cycle
def mk(verts, faces):
    d = M.mesh.RawMeshData()
    d.vertices += [M.Vec(*v) for v in verts]
    d.faces += [tuple(f) for f in faces]
    return M.mesh.SurfaceMesh(d)
# disk with shuffled border numbering: center 2, border vertices 0,4,1,5,3 in cyclic order
order=[0,4,1,5,3]; n=5
vs=[None]*6; vs[2]=(0,0,0)
for k,v in enumerate(order): vs[v]=(math.cos(2*math.pi*k/n), math.sin(2*math.pi*k/n),0)
fs=[(2,order[k],order[(k+1)%n]) for k in range(n)]
m=mk(vs,fs)
print("bv", m.boundary_vertices, "cycle", extract_border_cycle(m)[0])
poly=np.array([(2,0),(1,2),(-1,2),(-2,0),(0,-2)],dtype=float)
t=PARAM.TutteEmbedding(m, custom_boundary=poly, save_on_corners=False); t.run()
for v in m.id_vertices: print(v, t.uvs[v])
# non-disk
import mouette
s = M.procedural.icosphere() if hasattr(M.procedural,'icosphere') else None
