From Coq Require Import List.
Search NoDup app.
