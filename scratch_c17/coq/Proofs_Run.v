(* C17 - what a successful per-case check [check_ok] establishes about that case. *)
From Coq Require Import ZArith QArith List Bool Lia.
Import ListNotations.
Require Import MV.Lib.Base MV.C17.Gen MV.C17.Model MV.C17.Run MV.C17.Proofs_Cert.
Require Import Proofs_Scaled.
Open Scope Z_scope.
Open Scope Q_scope.

Theorem check_ok_establishes : forall c : tcase, check_ok c = true ->
  let B := border_data c in
  let Ub := map fst B in
  let Vb := map snd B in
  let T := lap_triplets (c_faces c) (c_cotan c) (c_cot c) in
  let U := cert_values (k_D c) (k_NU c) in
  let V := cert_values (k_D c) (k_NV c) in
  let p := read0 (vertex_writes (o_free c) (o_bnd c) U V Ub Vb) in
  is_solution_U T (o_free c) (o_bnd c) Ub Vb U /\ is_solution_V T (o_free c) (o_bnd c) Ub Vb V /\
  (promised c (fun v => znth (tabulate (exact_vertex_map c) (c_nv c)) v zero2) = true -> k_exact_orient c = true ->
   (forall f, In f (c_faces c) -> 0 < face_det p f) \/ (forall f, In f (c_faces c) -> face_det p f < 0)).
Proof.
  intros c H B Ub Vb T U V p. unfold check_ok in H.
  repeat (apply andb_true_iff in H; let H' := fresh "K" in destruct H as [H H']).
  match goal with
  | HU : check_cert_with rhs_U _ _ _ _ _ _ = true, HV : check_cert_with rhs_V _ _ _ _ _ _ = true |- _ =>
      pose proof (cert_sound_U _ _ _ _ _ _ _ HU) as SU; pose proof (cert_sound_V _ _ _ _ _ _ _ HV) as SV;
      pose proof HU as CU
  end.
  split; [exact SU|]. split; [exact SV|].
  intros Hp He.
  match goal with
  | HF : (if promised c _ then _ else true) = true |- _ => rewrite Hp, He in HF; apply andb_true_iff in HF; destruct HF as [_ HF]
  end.
  apply fold_free_spec. unfold p, U, V, Ub, Vb, B.
  assert (HD : (0 < k_D c)%Z).
  { unfold check_cert_with in CU. apply andb_true_iff in CU as [CU _]. apply andb_true_iff in CU as [CU _]. now apply Z.ltb_lt. }
  apply (scaled_fold_free _ _ _ _ _ _ _ _ HD).
  (* the run evaluated fold_free on the tabulated scaled positions *)
  revert HF. unfold fold_free. 
  assert (E : forall f, In f (c_faces c) ->
     face_det (fun v => znth (tabulate (scaled_vertex_map c) (c_nv c)) v zero2) f
     = face_det (read0 (vertex_writes (o_free c) (o_bnd c) (map inject_Z (k_NU c)) (map inject_Z (k_NV c))
          (map (Qmult (inject_Z (k_D c))) (map fst (border_data c))) (map (Qmult (inject_Z (k_D c))) (map snd (border_data c))))) f).
  { admit. }
Abort.
