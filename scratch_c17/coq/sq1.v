From Coq Require Import ZArith QArith List Bool Lia ZifyBool Qfield.
Import ListNotations.
Require Import MV.Lib.Base MV.C17.Gen MV.C17.Model.
Open Scope Z_scope.
Ltac Zify.zify_post_hook ::= Z.to_euclidean_division_equations.

(* perimeter parameter, as a numerator over n: side * n + 4 * (v - corner) *)
Definition pnum (n v : Z) : Z :=
  if v <? n / 4 then 4 * v
  else if v <? n / 2 then n + 4 * (v - n / 4)
  else if v <? (3 * n) / 4 then 2 * n + 4 * (v - n / 2)
  else 3 * n + 4 * (v - (3 * n) / 4).

(* the boundary of the unit square, counter-clockwise from (0,0), numerators over n, parameter t in [0, 4n) *)
Definition sqc_num (n t : Z) : Z * Z :=
  if t <? n then (t, 0) else if t <? 2 * n then (n, t - n) else if t <? 3 * n then (3 * n - t, n) else (0, 4 * n - t).

Lemma pnum_range n v : 3 <= n -> 0 <= v < n -> 0 <= pnum n v < 4 * n.
Proof. intros Hn Hv. unfold pnum. repeat match goal with |- context[if ?b then _ else _] => destruct b eqn:? end; lia. Qed.

Lemma pnum_mono n v w : 3 <= n -> 0 <= v -> v < w -> w < n -> pnum n v < pnum n w.
Proof. intros Hn Hv Hw Hwn. unfold pnum. repeat match goal with |- context[if ?b then _ else _] => destruct b eqn:? end; lia. Qed.

Ltac split_ifs := repeat match goal with |- context[if ?b then _ else _] => destruct b eqn:? end.


Lemma injn_nz n : 0 < n -> ~ (inject_Z n == 0)%Q.
Proof. intros H E. unfold Qeq in E. simpl in E. lia. Qed.

Lemma shape_div n a A : a = A -> (inject_Z a / inject_Z n == inject_Z A / inject_Z n)%Q.
Proof. intros ->. reflexivity. Qed.
Lemma shape_one_minus n b A : 0 < n -> n - b = A -> (inject_Z 1 - inject_Z b / inject_Z n == inject_Z A / inject_Z n)%Q.
Proof.
  intros Hn <-. unfold Z.sub. rewrite inject_Z_plus, inject_Z_opp.
  field. now apply injn_nz.
Qed.
Lemma shape_const n c A : 0 < n -> c * n = A -> (inject_Z c == inject_Z A / inject_Z n)%Q.
Proof. intros Hn <-. rewrite inject_Z_mult. field. now apply injn_nz. Qed.

Ltac shape := first [ apply shape_div | apply shape_one_minus; [lia|] | apply shape_const; [lia|] | apply (shape_const _ 0); [lia|] ].

Lemma sq_U_num n v : 3 <= n -> 0 <= v < n ->
  (sq_U n v == inject_Z (fst (sqc_num n (pnum n v))) / inject_Z n)%Q.
Proof.
  intros Hn Hv. unfold sq_U, sqc_num, pnum.
  split_ifs; try lia; cbn [fst snd]; shape; lia.
Qed.
Lemma sq_V_num n v : 3 <= n -> 0 <= v < n ->
  (sq_V n v == inject_Z (snd (sqc_num n (pnum n v))) / inject_Z n)%Q.
Proof.
  intros Hn Hv. unfold sq_V, sqc_num, pnum.
  split_ifs; try lia; cbn [fst snd]; shape; lia.
Qed.
