import sys, time, random
sys.path.insert(0, "/verif")
from vf import core
from vf.props import C17 as P
class Ctx: pass
ctx = Ctx(); ctx.rng = random.Random(5); ctx.tier = "quick"
cases = P.gen_cases(ctx)[:64]
obs = P.run_impl_cases([P.strip(c) for c in cases])
lines = [P.HEADER]
for i, (c, o) in enumerate(zip(cases, obs)):
    if o["status"] != "ok": continue
    cert = P.certificate(c, o)
    nb, ni = P.describe(c)
    lines.append('Definition c%d := %s.' % (i, P.case_term(c, o, cert)))
    lines.append('Goal True. idtac "case %d mode %s cotan %s nv %d nf %d ni %d Dbits %d". Abort.' % (i, c["mode"], c["cotan"], len(c["verts"]), len(c["faces"]), ni, cert["D"].bit_length()))
    lines.append('Time Eval vm_compute in (check_case c%d).' % i)
open("/verif/scratch_c17/prof.v", "w").write("\n".join(lines))
