import numpy as np, mouette as M
from mouette.processing import parametrization as PARAM
def mk(verts, faces):
    d = M.mesh.RawMeshData()
    d.vertices += [M.Vec(*v) for v in verts]
    d.faces += [tuple(f) for f in faces]
    return M.mesh.SurfaceMesh(d)
# fan around a center, n border
def fan(n):
    import math
    vs=[(0,0,0)]+[(math.cos(2*math.pi*i/n), math.sin(2*math.pi*i/n),0) for i in range(n)]
    fs=[(0,1+i,1+(i+1)%n) for i in range(n)]
    return mk(vs,fs)
for n in (3,4,5,8,9):
    m=fan(n)
    print(n, "bv", m.boundary_vertices, "iv", m.interior_vertices)
    for mode in ("square","circle"):
        t=PARAM.TutteEmbedding(m, boundary_mode=mode, save_on_corners=False); t.run()
        print(mode, [tuple(np.round(t.uvs[v],4)) for v in m.id_vertices])
# single triangle
m=mk([(0,0,0),(1,0,0),(0,1,0)],[(0,1,2)])
try:
    t=PARAM.TutteEmbedding(m, boundary_mode="circle", save_on_corners=False); t.run()
    print("single tri", [tuple(t.uvs[v]) for v in m.id_vertices])
except Exception as e:
    print("single tri EXC", type(e), e)
# custom
m=fan(5)
from mouette.processing.border import extract_border_cycle
print(extract_border_cycle(m))
