import subprocess, sys, os, shutil, re, time
WT="/tmp/wt-C17"
TUT="mouette/processing/parametrization/tutte.py"
LAP="mouette/operators/laplacian_op.py"
BASE="mouette/processing/parametrization/base.py"
MUTS = [
 ("M1 rhs sign of the U solve flipped", TUT, "U = linalg.spsolve(LI, -LB.dot(Ubnd))", "U = linalg.spsolve(LI, LB.dot(Ubnd))"),
 ("M2 square side 3 enumerates from 0 again", TUT, "U[v] = 1-4*(i+1)/n", "U[v] = 1-4*i/n"),
 ("M3 square side 1 range off by one (overwrites corner 1)", TUT, "for i in range(1, n//4):", "for i in range(1, n//4+1):"),
 ("M4 gate compares with 2", TUT, "if euler_characteristic(self.mesh)!=1:", "if euler_characteristic(self.mesh)!=2:"),
 ("M5 per-corner scatter swaps U,V of interior vertices", TUT, "                    self.uvs[c] = Vec(U[i], V[i])", "                    self.uvs[c] = Vec(V[i], U[i])"),
 ("M6 laplacian: edge (q,r) takes weight b instead of a", LAP, "[(p, q, c), (q, r, a), (r, p, b)]", "[(p, q, c), (q, r, b), (r, p, b)]"),
 ("M7 LB selects the interior columns", TUT, "LB = lap[freeInds, :][:, bndInds]", "LB = lap[freeInds, :][:, freeInds]"),
 ("M8 laplacian: off-diagonal coefficient written on the diagonal", LAP, "rows[_c], cols[_c], coeffs[_c], _c = i, j, -v, _c+1", "rows[_c], cols[_c], coeffs[_c], _c = i, i, -v, _c+1"),
 ("M9 flat_mesh reads corner 3*T+i+1", BASE, "Vec(self.uvs[3*T+i][0], self.uvs[3*T+i][1], 0.)", "Vec(self.uvs[3*T+(i+1)%3][0], self.uvs[3*T+(i+1)%3][1], 0.)"),
 ("M10 circle angle pi*i/n (half circle: still distinct, convex, in order)", TUT, "rt = cmath.rect(1., 2*pi*i/n)", "rt = cmath.rect(1., pi*i/n)"),
 ("H3 harmless: border walk starts the other way round", "mouette/processing/border.py", "mesh.connectivity.vertex_to_vertices(starting_point)[0]", "mesh.connectivity.vertex_to_vertices(starting_point)[-1]"),
 ("H1 harmless: local lap renamed, LI/LB lines swapped", TUT, None, None),
 ("H2 harmless: square side parameter written (4*i+4)/n ... no: reorder U/V zero init and rename rt", TUT, None, None),
]
def run(name):
    t=time.time()
    env=dict(os.environ, VERIF_REPO=WT)
    p=subprocess.run(["/verif/check","C17"],env=env,stdout=subprocess.PIPE,stderr=subprocess.STDOUT,text=True,timeout=1500)
    lines=[l for l in p.stdout.splitlines() if "VIOLATION" in l or "->" in l or "obligations" in l or "FAILED" in l or "TRANSLAT" in l or "KNOWN" in l]
    print("=== %s  (exit %d, %.0fs)"%(name,p.returncode,time.time()-t)); print("\n".join(lines[:12])); sys.stdout.flush()
sel = sys.argv[1:] 
for name, f, old, new in MUTS:
    if sel and not any(name.startswith(s) for s in sel): continue
    path=os.path.join(WT,f)
    orig=open(path).read()
    if old is not None:
        assert orig.count(old)>=1, (name, old)
        mut=orig.replace(old,new,1)
    elif name.startswith("H1"):
        mut=orig.replace("lap = operators.laplacian","Lmat = operators.laplacian").replace("lap[freeInds","Lmat[freeInds")
        a="        LI = Lmat[freeInds, :][:, freeInds]\n"; b="        LB = Lmat[freeInds, :][:, bndInds]\n"
        assert a+b in mut
        mut=mut.replace(a+b,b+a)
    else:
        mut=orig.replace("rt = cmath.rect(1., 2*pi*i/n)","z = cmath.rect(1., 2*pi*i/n)").replace("U[i] = rt.real","U[i] = z.real").replace("V[i] = rt.imag","V[i] = z.imag")
        a="                U[i] = z.real\n"; b="                V[i] = z.imag\n"
        assert a+b in mut
        mut=mut.replace(a+b,b+a)
    open(path,"w").write(mut)
    try: run(name)
    finally: open(path,"w").write(orig)
