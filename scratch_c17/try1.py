import random, json, sys, time
sys.path.insert(0, "/verif")
from vf import core
from vf.impl import c17_meshgen as G, c17_oracle as O

def gen_case(rng, nb=None, mode=None, cotan=None):
    nb = nb or rng.randint(3, 40)
    mode = mode or rng.choice(["circle", "square", "custom"])
    cotan = rng.random() < 0.4 if cotan is None else cotan
    for _ in range(30):
        kind, pts, faces = G.make_disk(rng, nb, kind=("delaunay" if cotan and rng.random() < 0.5 else None), planar_valid=cotan)
        verts, fs = G.finish(rng, pts, faces, lift=(rng.random() < 0.4))
        if O.is_disk(len(verts), fs) and (not cotan or G.nondegenerate(verts, fs)):
            break
    else:
        raise RuntimeError("no disk")
    case = {"verts": verts, "faces": fs, "mode": mode, "cotan": cotan, "kind": kind, "disk": True}
    if mode == "custom":
        cyc = G.border_cycle(fs)[0]
        k0 = rng.randrange(len(cyc)); cyc = cyc[k0:] + cyc[:k0]
        case["cycle"] = cyc
        case["poly"] = G.convex_polygon(rng, len(cyc))
    return case

rng = random.Random(1)
cases = [gen_case(rng, nb=3 + i % 38) for i in range(120)]
for i in range(8):
    k, v, f = G.non_disk(rng)
    cases.append({"verts": v, "faces": f, "mode": rng.choice(["circle","square"]), "cotan": False, "kind": k, "disk": False})
t=time.time()
nsh = 16
res = core.run_impl_parallel("vf.impl.c17_driver", [{"cases": cases[i::nsh]} for i in range(nsh)], timeout=300)
obs = [None]*len(cases)
for i, r in enumerate(res):
    for j, o in zip(range(i, len(cases), nsh), r["obs"]): obs[j] = o
print("impl time", time.time()-t)
from collections import Counter
cnt = Counter()
for c, o in zip(cases, obs):
    fl = O.oracle(c, o)
    nbd = len(G.border_cycle(c["faces"])[0] or []) if c["disk"] else -1
    cnt[(c["mode"], c["cotan"], o["status"][:20], o.get("_guard"), tuple(sorted({k for k,_ in fl})))] += 1
    if fl and not (c["mode"]=="square"):
        print(c["kind"], c["mode"], c["cotan"], nbd, len(c["verts"]), fl[:2])
for k, v in sorted(cnt.items(), key=str): print(v, k)
for c, o in zip(cases, obs):
    fl = O.oracle(c, o)
    if fl and c["mode"]=="square":
        print(len(c["verts"]), fl[:2]); break
