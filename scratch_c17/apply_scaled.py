import shutil
p="/verif/coq/theories/C17/Run.v"
s=open(p).read()
old="""                (map (fun b => d * fst b) B) (map (fun b => d * snd b) B)."""
new="""                (map (Qmult d) (map fst B)) (map (Qmult d) (map snd B))."""
assert s.count(old)==1
s=s.replace(old,new)
old="""  let scaledV := tabulate (scaled_vertex_map c) (c_nv c) in
  let posS := fun v => znth scaledV v zero2 in"""
new="""  let posS := read0 (scaled_vertex_map c) in"""
assert s.count(old)==1
s=s.replace(old,new)
open(p,"w").write(s)
shutil.copy("/verif/scratch_c17/coq/Proofs_Scaled.v","/verif/coq/theories/C17/Proofs_Scaled.v")
src=open("/verif/scratch_c17/coq/Proofs_Run.v").read()
src=src.replace("Require Import Proofs_Scaled.","Require Import MV.C17.Proofs_Scaled.")
i=src.index("  (* the run evaluated fold_free on the tabulated scaled positions *)")
src=src[:i]+"  exact HF.\nQed.\n"
open("/verif/coq/theories/C17/Proofs_Run.v","w").write(src)
