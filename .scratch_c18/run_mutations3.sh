#!/bin/bash
M=/verif/.scratch_c18/mutate.sh
W=/tmp/wt-C18/mouette
cd /tmp/wt-C18 && git checkout -q -- .
sed -i 's/\*\* self\.order/** 4/g; s/\*\*self\.order/**4/g' $W/processing/framefield/vertex2d.py
sed -n 76,96p $W/processing/framefield/vertex2d.py | grep -c '\*\* *4'
cd /verif && VERIF_REPO=/tmp/wt-C18 ./check C18 > /verif/.scratch_c18/mut_m9b.log 2>&1; echo "MUTATION m9b_vertex_power_all exit=$? $(grep -c '^VIOLATION' /verif/.scratch_c18/mut_m9b.log)"; grep -- '->' /verif/.scratch_c18/mut_m9b.log | head -3
cd /tmp/wt-C18 && git checkout -q -- .
cd /verif && ./check C18 > /dev/null 2>&1
$M m13_no_rotation $W/processing/connection.py 'A,B,C = utils.offset([A,B,C], np.argmax(feat))' 'A,B,C = utils.offset([A,B,C], 0)'
cd /verif && ./check C18 > /dev/null 2>&1
$M m14_nabla_sign $W/operators/laplacian_op.py 'Nabla[ie,T1] = -1
                Nabla[ie,T2] = cmath.rect(1, order*connection.transport(T1,T2))' 'Nabla[ie,T1] = 1
                Nabla[ie,T2] = cmath.rect(1, order*connection.transport(T1,T2))'
cd /verif && ./check C18 > /verif/.scratch_c18/mut_final3.log 2>&1; echo "FINAL on /repo exit=$?"
