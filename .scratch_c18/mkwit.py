import json, sys, random
sys.path.insert(0, "/verif")
from vf.props import C18
from vf.impl import c18_gen as G, c18_oracle as ORA
rng = random.Random(0)
out = {}
V4, F4 = G.eqtri4(rng)
base = {"features": False, "n_smooth": 0, "cotan": True, "smooth_normals": True, "seed": 1}
out["constraint_two_edges"] = ("constraint/two-edges-power-4", dict(base, elem="faces", order=6, V=V4, F=[list(f) for f in F4], planar=True, kind="eqtri2"))
Vg, Fg = [], []
for i in range(4):
    for j in range(4):
        Vg.append([float(i), float(j), 0.0])
idx = lambda i, j: i * 4 + j
for i in range(3):
    for j in range(3):
        Fg += [[idx(i, j), idx(i + 1, j), idx(i + 1, j + 1)], [idx(i, j), idx(i + 1, j + 1), idx(i, j + 1)]]
out["unit_zero_solution"] = ("unit/zero-solution", dict(base, elem="faces", order=2, V=Vg, F=Fg, planar=True, kind="grid3x3"))
Vo, Fo = G.polyhedron(rng, "octa")
out["unit_zero_constraint"] = ("unit/zero-constraint", dict(base, elem="vertices", order=3, features=True, V=Vo, F=[list(f) for f in Fo], planar=False, kind="octa"))
# gauge witnesses by search
def search(case, want):
    for t in range(200):
        V2, F2, vp, fp = G.renumber(rng, case["V"], case["F"])
        c1 = dict(case, n_smooth=0); c2 = dict(case, V=V2, F=F2, n_smooth=0)
        r1, r2 = C18.run_cases_impl([c1, c2])
        v = ORA.compare_runs(c1, r1["obs"], c2, r2["obs"], vp, fp)
        if v and v[0] == want:
            print(want, "found after", t, v[1])
            return dict(case, _meta={"V2": V2, "F2": F2, "vperm": vp, "fperm": fp})
        elif v:
            print("other:", v)
    raise SystemExit("not found " + want)
out["gauge_two_edges"] = ("gauge/two-feature-edge-face", search(dict(base, elem="faces", order=3, V=V4, F=[list(f) for f in F4], planar=True, kind="eqtri2"), "gauge/two-feature-edge-face"))
V2g, F2g = [], []
for i in range(3):
    for j in range(3):
        V2g.append([float(i), float(j), 0.0])
idx = lambda i, j: i * 3 + j
for i in range(2):
    for j in range(2):
        F2g += [[idx(i, j), idx(i + 1, j), idx(i + 1, j + 1)], [idx(i, j), idx(i + 1, j + 1), idx(i, j + 1)]]
out["gauge_vertex_conflict"] = ("gauge/conflicting-vertex-constraints", search(dict(base, elem="vertices", order=6, cotan=False, V=V2g, F=F2g, planar=True, kind="grid2x2"), "gauge/conflicting-vertex-constraints"))
for name, (key, case) in out.items():
    json.dump({"key": key, "case": case}, open("/verif/corpus/C18/witness_%s.json" % name, "w"))
    r = C18.run_cases_impl([case])[0]
    print(name, key, [f for f in C18.oracle_on(case, r)])
