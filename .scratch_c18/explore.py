import numpy as np, time, cmath, math
import mouette as M
from mouette import framefield as ff

def grid(n, m, jitter=0):
    V=[]; F=[]
    for i in range(n+1):
        for j in range(m+1):
            V.append([float(i), float(j), 0.])
    idx=lambda i,j:i*(m+1)+j
    for i in range(n):
        for j in range(m):
            F.append((idx(i,j), idx(i+1,j), idx(i+1,j+1)))
            F.append((idx(i,j), idx(i+1,j+1), idx(i,j+1)))
    return V,F

def mk(V,F):
    d = M.mesh.RawMeshData()
    d.vertices += [M.Vec(*v) for v in V]
    d.faces += [tuple(f) for f in F]
    return M.mesh.SurfaceMesh(d)

V,F = grid(3,3)
for order in (1,2,3,4,6):
    m = mk(V,F)
    t=time.time()
    f = ff.SurfaceFrameField(m, "faces", order=order, features=False, n_smooth=0, verbose=False)
    f.run()
    print("order",order,"time",time.time()-t, "absmin", np.abs(f.var).min(), np.abs(f.var).max())
    fe = list(f.feat.feature_edges)
    print(" feature edges", fe[:20], type(f.feat.feature_edges))
    # constraint check
    for e in fe:
        a,b = m.edges[e]
        for T in m.connectivity.edge_to_faces(a,b):
            if T is None: continue
            X,Y = f.conn.base(T)
            ed = m.vertices[b]-m.vertices[a]
            c = complex(ed.dot(X), ed.dot(Y)); u=c/abs(c)
            rts = M.utils.maths.roots(f.var[T], order)
            tang = min(min(abs(r-u),abs(r+u)) for r in rts)
            nfe = sum(1 for (p,q) in [(m.faces[T][k], m.faces[T][(k+1)%3]) for k in range(3)] if m.connectivity.edge_id(p,q) in f.feat.feature_edges)
            if tang>1e-6: print("   face",T,"nfeat",nfe,"edge",e,"u",u,"var",f.var[T],"not tangent", tang)
    f.flag_singularities()
    s = m.vertices.get_attribute("singuls")
    print(" singuls", {k:s[k] for k in s}, "sum", sum(s[k] for k in s))
