import json, sys, os, subprocess
sys.path.insert(0, "/verif")
from vf.props import C18
from vf import core
case = json.load(open(sys.argv[1]))
r = C18.run_cases_impl([case])[0]
obs = r["obs"]
faces = case["elem"] == "faces"
term = C18.faces_term(case, obs) if faces else C18.vertices_term(case, obs)
pre = "fc" if faces else "vc"
body = C18.HEADER + "\nFrom Coq Require Import PrimFloat.\nDefinition c := %s.\n" % term
if faces:
    body += """
Definition V := map fvec (fc_verts c).
Definition F := fc_faces c. Definition E := fc_edges c. Definition FE := fc_feat c.
Definition n := zlen F.
Definition order := fc_order c.
Definition B := conn_bases Fops V F E FE.
Definition P := dual_pairs F E.
Definition D := match fc_D c with Some l => Some (map lit_f l) | None => None end.
Definition L := lap_faces Fops order D V F E FE.
Definition var0 := init_faces Fops order V F E FE.
Definition fb := fixed_face F E FE.
Eval vm_compute in (pairs_distinct P).
Eval vm_compute in (all2 (fun (m : vec float * vec float) (o : lit3 * lit3) => vcl (fst m) (fvec (fst o)) && vcl (snd m) (fvec (snd o))) B (fc_bases c)).
Eval vm_compute in (forallb (fun p : Z * edge * Z * Z => let '(ie, uv, t1, t2) := p in
     let '(m12, m21) := face_transport Fops V B uv t1 t2 in
     match tr_obs (fc_transport c) t1 t2, tr_obs (fc_transport c) t2 t1 with
     | Some o12, Some o21 => ccl m12 o12 && ccl m21 o21
     | _, _ => false end) P).
Eval vm_compute in (Z.of_nat (length (fc_transport c)), 2 * zlen P).
Eval vm_compute in (mat_agree n L (fc_lap c)).
Eval vm_compute in (all2 (fun i o => ccl (var0 i) (fcx o)) (zrange n) (fc_var0 c)).
Eval vm_compute in (list_Zeqb (part_free n fb) (fc_free c), list_Zeqb (part_fixed n fb) (fc_fixed c)).
Eval vm_compute in (match fc_solve c with
   | Some sr => check_solve (optf_rhs Fops) optf_smooth_guard n (fc_nsmooth c) L var0 (fc_free c) (fc_fixed c) sr (fc_final c)
   | None => true end).
Eval vm_compute in (let defect := fun v => znth (map lit_f (fc_defect c)) v PrimFloat.zero in
   let rot := fun e => znth (map lit_f (fc_rot c)) e PrimFloat.zero in
   all2 (fun v o => fcl (singul Fops defect E rot v) (lit_f o)) (zrange (zlen V)) (fc_singuls c)).
Eval vm_compute in (let defect := fun v => znth (map lit_f (fc_defect c)) v PrimFloat.zero in
   let rot := fun e => znth (map lit_f (fc_rot c)) e PrimFloat.zero in
   map (fun v => singul Fops defect E rot v) (zrange (zlen V)), map lit_f (fc_singuls c)).
"""
else:
    body += "Eval vm_compute in (check_vertices c).\n"
open("/verif/.scratch_c18/dbg/Dbg.v", "w").write(body)
print(subprocess.run("cd /verif/coq && timeout 300 coqc -Q theories MV /verif/.scratch_c18/dbg/Dbg.v", shell=True, capture_output=True, text=True).stdout[-6000:])
