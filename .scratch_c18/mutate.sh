#!/bin/bash
# usage: mutate.sh name file 'python-replace-old' 'python-replace-new'
set -u
name="$1"; file="$2"; old="$3"; new="$4"
cd /tmp/wt-C18 && git checkout -q -- . 
/venv/bin/python - "$file" "$old" "$new" <<'PY'
import sys
p, old, new = sys.argv[1], sys.argv[2], sys.argv[3]
s = open(p).read()
assert s.count(old) >= 1, "pattern not found: " + old
s = s.replace(old, new, 1)
open(p, "w").write(s)
PY
[ $? -eq 0 ] || { echo "MUTATION $name: pattern not found"; exit 1; }
cd /verif && VERIF_REPO=/tmp/wt-C18 ./check C18 > /verif/.scratch_c18/mut_$name.log 2>&1
echo "MUTATION $name exit=$? : $(grep -c '^VIOLATION' /verif/.scratch_c18/mut_$name.log) violation line(s); $(grep '^VIOLATION' /verif/.scratch_c18/mut_$name.log | head -3 | tr '\n' ' ')"
grep -- '->' /verif/.scratch_c18/mut_$name.log | head -4
cd /tmp/wt-C18 && git checkout -q -- .
