import json, sys, random
sys.path.insert(0, "/verif")
from vf.props import C18
from vf.impl import c18_gen as G, c18_oracle as ORA
d=json.load(open('/verif/replays/C18/93a1eb5e0b8e.json'))
c=d['replay']['case']
c=dict(c, n_smooth=0)
json.dump({"key":"gauge/vertex-constraint-projection","case":c}, open("/verif/corpus/C18/witness_gauge_vertex_projection.json","w"))
d=json.load(open('/verif/replays/C18/7c4e90ac0438.json'))
c=d['replay']['case']; c.pop('_meta',None)
json.dump({"key":"crash/singular-operator","case":c}, open("/verif/corpus/C18/witness_crash_singular.json","w"))
for f in ("witness_gauge_vertex_projection","witness_crash_singular"):
    w=json.load(open("/verif/corpus/C18/%s.json"%f)); case=w["case"]
    r=C18.run_cases_impl([case])[0]
    print(f, C18.oracle_on(case,r)[:2])
    if "_meta" in case and r["ok"]:
        m=case["_meta"]; c1=dict(case,n_smooth=0); c2=dict(case,V=m["V2"],F=m["F2"],n_smooth=0)
        r1,r2=C18.run_cases_impl([c1,c2]); print("  meta:", ORA.compare_runs(c1,r1["obs"],c2,r2["obs"],m["vperm"],m["fperm"]))
d=json.load(open('/verif/replays/C18/e517588c371a.json'))
case=d['replay']['case']; m=case["_meta"]; c1=dict(case,n_smooth=0); c2=dict(case,V=m["V2"],F=m["F2"],n_smooth=0)
r1,r2=C18.run_cases_impl([c1,c2]); print("grid5x5 meta:", ORA.compare_runs(c1,r1["obs"],c2,r2["obs"],m["vperm"],m["fperm"]))
