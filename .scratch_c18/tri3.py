import json, sys, cmath, math
import numpy as np
sys.path.insert(0, "/verif")
from vf.props import C18
d=json.load(open('/verif/replays/C18/e517588c371a.json'))
c=d['replay']['case']; m=c['_meta']
c1=dict(c,n_smooth=0); c2=dict(c,V=m['V2'],F=m['F2'],n_smooth=0)
r1,r2=C18.run_cases_impl([c1,c2])
o1,o2=r1['obs'],r2['obs']
x1=np.array([complex(*z) for z in o1['solve']['x']]); x2=np.array([complex(*z) for z in o2['solve']['x']])
print("min |x| run1", np.abs(x1).min(), "run2", np.abs(x2).min())
f1=o1['free']; 
fp=m['fperm']
i=24
print("face 24 free idx", f1.index(24) if 24 in f1 else None, abs(x1[f1.index(24)]) if 24 in f1 else None)
j=fp[24]; f2=o2['free']; print("twin", j, abs(x2[f2.index(j)]) if j in f2 else None)
# tet crash
d=json.load(open('/verif/replays/C18/7c4e90ac0438.json'))
c=d['replay']['case']
for order in (1,2,3,4,5,6):
    for cot in (True, False):
        r=C18.run_cases_impl([dict(c,order=order,cotan=cot)])[0]
        print("tet order",order,"cotan",cot, "ok" if r['ok'] else r['error'])
