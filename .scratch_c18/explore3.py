import numpy as np, time, cmath, math, sys, traceback
import mouette as M
from mouette import framefield as ff
def mk(V,F):
    d = M.mesh.RawMeshData()
    d.vertices += [M.Vec(*v) for v in V]
    d.faces += [tuple(f) for f in F]
    return M.mesh.SurfaceMesh(d)
def grid(n, m):
    V=[]; F=[]
    for i in range(n+1):
        for j in range(m+1):
            V.append([float(i), float(j), float((i*i+j)%3)/4])
    idx=lambda i,j:i*(m+1)+j
    for i in range(n):
        for j in range(m):
            F.append((idx(i,j), idx(i+1,j), idx(i+1,j+1)))
            F.append((idx(i,j), idx(i+1,j+1), idx(i,j+1)))
    return V,F
octa=([(1,0,0),(-1,0,0),(0,1,0),(0,-1,0),(0,0,1),(0,0,-1)],[(0,2,4),(2,1,4),(1,3,4),(3,0,4),(2,0,5),(1,2,5),(3,1,5),(0,3,5)])
for name,(V,F) in [("grid",grid(3,4)),("octa",octa)]:
  for elem in ("vertices","faces"):
    for order in (1,2,3,4,6):
      for feats in (False,True):
        for ns in (0,2):
            m=mk(V,F)
            t=time.time()
            try:
                f = ff.SurfaceFrameField(m, elem, order=order, features=feats, n_smooth=ns, verbose=False, cad_correction=False)
                f.run()
                f.flag_singularities()
                s = (m.vertices if elem=="faces" else m.faces).get_attribute("singuls")
                print(name,elem,order,feats,ns,"t=%.3f"%(time.time()-t),"abs",round(np.abs(f.var).min(),6),round(np.abs(f.var).max(),6),"nfeat",len(f.feat.feature_edges),"sum",round(sum(s[k] for k in s),6))
            except Exception as ex:
                print(name,elem,order,feats,ns,"EXC",type(ex).__name__,ex)
