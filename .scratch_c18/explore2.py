import numpy as np, time, cmath, math, sys
import mouette as M
from mouette import framefield as ff
def mk(V,F):
    d = M.mesh.RawMeshData()
    d.vertices += [M.Vec(*v) for v in V]
    d.faces += [tuple(f) for f in F]
    return M.mesh.SurfaceMesh(d)
h = math.sqrt(3)/2
# big equilateral triangle subdivided in 4
V=[(0,0,0),(1,0,0),(2,0,0),(0.5,h,0),(1.5,h,0),(1,2*h,0)]
F=[(0,1,3),(1,2,4),(3,4,5),(1,4,3)]
def tangency(m,f,order):
    out=[]
    for T,(A,B,C) in enumerate(m.faces):
        fes=[(p,q) for (p,q) in [(A,B),(B,C),(C,A)] if m.connectivity.edge_id(p,q) in f.feat.feature_edges]
        if not fes: continue
        X,Y = f.conn.base(T)
        res=[]
        for (p,q) in fes:
            ed = m.vertices[q]-m.vertices[p]
            c = complex(ed.dot(X), ed.dot(Y)); u=c/abs(c)
            rts = M.utils.maths.roots(f.var[T], order)
            res.append(round(min(min(abs(r-u),abs(r+u)) for r in rts),6))
        out.append((T,len(fes),res, complex(np.round(f.var[T],6))))
    return out
for order in (2,3,4,6):
    m=mk(V,F)
    f = ff.SurfaceFrameField(m, "faces", order=order, features=False, n_smooth=0, verbose=False)
    f.run()
    print(order, tangency(m,f,order))
