#!/bin/bash
M=/verif/.scratch_c18/mutate.sh
W=/tmp/wt-C18/mouette
# make sure Gen.v on disk is the unchanged one before starting
cd /verif && ./check C18 > /verif/.scratch_c18/mut_pre.log 2>&1; echo "PRE exit=$?"
$M m4b_rhs_sign $W/processing/framefield/faces2d.py 'res = linalg.spsolve(lapI, -valB) # first system solved without diffusion' 'res = linalg.spsolve(lapI, valB) # first system solved without diffusion'
cd /verif && ./check C18 > /dev/null 2>&1
$M m7b_nabla_star $W/operators/laplacian_op.py 'Nabla_star = Nabla.conj().transpose()' 'Nabla_star = Nabla.transpose()'
cd /verif && ./check C18 > /dev/null 2>&1
$M m11_thr_value $W/processing/framefield/base.py 'if abs(self.var[i])>1e-10:' 'if abs(self.var[i])>1e10:'
cd /verif && ./check C18 > /dev/null 2>&1
$M h3_edge_orient $W/processing/framefield/faces2d.py 'edge = self.mesh.vertices[e2] - self.mesh.vertices[e1]' 'edge = self.mesh.vertices[e1] - self.mesh.vertices[e2]'
cd /verif && ./check C18 > /verif/.scratch_c18/mut_final2.log 2>&1; echo "FINAL on /repo exit=$?"
