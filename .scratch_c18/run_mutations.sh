#!/bin/bash
M=/verif/.scratch_c18/mutate.sh
W=/tmp/wt-C18/mouette
$M m1_power_order $W/processing/framefield/faces2d.py 'self.var[T] = (c/abs(c))**4' 'self.var[T] = (c/abs(c))**self.order'
$M m2_lapv_conj $W/operators/laplacian_op.py 'cmath.rect(1., order*(aj - ai - math.pi))' 'cmath.rect(1., order*(ai - aj - math.pi))'
$M m3_norm_cmp $W/processing/framefield/base.py 'if abs(self.var[i])>1e-10:' 'if abs(self.var[i])<1e-10:'
$M m4_rhs_sign $W/processing/framefield/faces2d.py 'res = linalg.spsolve(lapI, -valB) # first system solved without diffusion' 'res = linalg.spsolve(lapI, valB) # first system solved without diffusion'
$M m5_atan2_swap $W/processing/connection.py 'angle1 = math.atan2( geom.dot(E,Y1), geom.dot(E,X1))' 'angle1 = math.atan2( geom.dot(E,X1), geom.dot(E,Y1))'
$M m6_index_scale $W/processing/framefield/faces2d.py 'singuls[v] = angle*2/pi' 'singuls[v] = angle*4/pi'
$M m7_nabla_star $W/operators/laplacian_op.py 'Nabla_star = Nabla.conj().transpose()' 'Nabla_star = Nabla.transpose()'
$M m8_fixed_T2 $W/processing/framefield/faces2d.py 'if T2 is not None: fixed[T2] = True' 'pass'
$M m9_vertex_power $W/processing/framefield/vertex2d.py 'vpow = (v/abs(v)) ** self.order
                if abs(self.var[B] + vpow)>1e-10:' 'vpow = (v/abs(v)) ** 4
                if abs(self.var[B] + vpow)>1e-10:'
$M m10_transport_order $W/operators/laplacian_op.py 'Nabla[ie,T2] = cmath.rect(1, order*connection.transport(T1,T2))' 'Nabla[ie,T2] = cmath.rect(1, order*connection.transport(T2,T1))'
$M h1_rename $W/processing/framefield/faces2d.py 'c = complex(edge.dot(X), edge.dot(Y)) # compute edge in local basis coordinates (edge.dot(Z) = 0 -> complex number for 2D vector)
                self.var[T] = (c/abs(c))**4' 'cc = complex(edge.dot(X), edge.dot(Y))
                self.var[T] = (cc/abs(cc))**4'
$M h2_reorder $W/processing/connection.py 'X1,Y1 = self._baseX[T1], self._baseY[T1]
            X2,Y2 = self._baseX[T2], self._baseY[T2]' 'X2,Y2 = self._baseX[T2], self._baseY[T2]
            X1,Y1 = self._baseX[T1], self._baseY[T1]'
cd /verif && ./check C18 > /verif/.scratch_c18/mut_final.log 2>&1; echo "FINAL on /repo exit=$?"
