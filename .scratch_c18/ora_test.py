import sys, random, json
sys.path.insert(0, "/verif")
from vf.props import C18
rng = random.Random(11)
cases = [C18.make_case(rng, "quick") for _ in range(60)]
res = C18.run_cases_impl(cases)
from collections import Counter
cnt = Counter()
for c, r in zip(cases, res):
    for k, m in C18.oracle_on(c, r):
        cnt[k] += 1
        if k.startswith("rotation") or k.startswith("index"): print(c["kind"], c["elem"], c["order"], c["features"], k, m)
print(cnt)
