import json, sys, cmath, math
sys.path.insert(0, "/verif")
from vf.props import C18
d=json.load(open(sys.argv[1]))
c=d['replay']['case']; m=c['_meta']
c1=dict(c,n_smooth=0); c2=dict(c,V=m['V2'],F=m['F2'],n_smooth=0)
r1,r2=C18.run_cases_impl([c1,c2])
o1,o2=r1['obs'],r2['obs']
vp=m['vperm']
order=c['order']
t1={(a,b):complex(x,y) for a,b,x,y in o1['transport']}
t2={(a,b):complex(x,y) for a,b,x,y in o2['transport']}
f1=[complex(*z) for z in o1['final']]; f2=[complex(*z) for z in o2['final']]
v0a=[complex(*z) for z in o1['var0']]; v0b=[complex(*z) for z in o2['var0']]
print("feat1",o1['feat_vertices'],"corn")
for v in range(len(f1)):
    pv=vp[v]
    nb=[w for (a,w) in t1 if a==v]
    print("v",v,"->",pv,"fixed" if v in o1['fixed'] else "free", "var0", [round(cmath.phase(v0a[v]*(t1[(v,w)].conjugate()**order)),4) if abs(v0a[v])>0 else None for w in nb], [round(cmath.phase(v0b[pv]*(t2[(pv,vp[w])].conjugate()**order)),4) if abs(v0b[pv])>0 else None for w in nb])
    print("     final", [round(cmath.phase(f1[v]*(t1[(v,w)].conjugate()**order)),4) for w in nb], [round(cmath.phase(f2[pv]*(t2[(pv,vp[w])].conjugate()**order)),4) for w in nb])
    print("     transports", [round(cmath.phase(t1[(v,w)]),4) for w in nb], [round(cmath.phase(t2[(pv,vp[w])]),4) for w in nb])
