import json, sys, cmath, math
import numpy as np
sys.path.insert(0, "/verif")
from vf.props import C18
from vf.impl import c18_oracle as ORA
d=json.load(open('/verif/replays/C18/93a1eb5e0b8e.json'))
c=d['replay']['case']; m=c['_meta']
c1=dict(c,n_smooth=0); c2=dict(c,V=m['V2'],F=m['F2'],n_smooth=0)
r1,r2=C18.run_cases_impl([c1,c2])
o1,o2=r1['obs'],r2['obs']
vp=m['vperm']
for (cc,o,v) in ((c1,o1,5),(c2,o2,vp[5])):
    t={(a,b):complex(x,y) for a,b,x,y in o['transport']}
    z=complex(*o['var0'][v])
    fes=[e for e in o['feat'] if v in o['edges'][e]]
    print("vertex",v,"feature edges",[o['edges'][e] for e in fes], "V", cc['V'][v])
    for e in fes:
        A,B=o['edges'][e]; w=B if v==A else A
        print("   g =", z*(t[(v,w)].conjugate()**4), "contribs", ORA.vertex_contributions(cc,o,v))
    nb=[w for (a,w) in t if a==v]
    print("   nbrs", nb, "X", o['bases'][v][0])
