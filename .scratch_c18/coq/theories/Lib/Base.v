(* Shared helpers for the executable models: integer ranges, float literals, small list utilities. *)
From Coq Require Import ZArith List Bool Lia FinFun.
Import ListNotations.

(* 0, 1, ..., n-1 as Z (empty for n <= 0): the image of Python's range(n) *)
Definition zrange (n : Z) : list Z := map Z.of_nat (seq 0 (Z.to_nat n)).

Lemma In_zrange n i : In i (zrange n) <-> (0 <= i < n)%Z.
Proof.
  unfold zrange. rewrite in_map_iff. split.
  - intros [k [<- Hk]]. apply in_seq in Hk. lia.
  - intros H. exists (Z.to_nat i). split; [lia|]. apply in_seq. lia.
Qed.

Lemma zrange_length n : length (zrange n) = Z.to_nat n.
Proof. unfold zrange. now rewrite map_length, seq_length. Qed.

Lemma NoDup_zrange n : NoDup (zrange n).
Proof.
  unfold zrange. apply Injective_map_NoDup; [|apply seq_NoDup].
  intros a b H. lia.
Qed.

(* range(a, b) *)
Definition zrange2 (a b : Z) : list Z := map (fun i => (a + i)%Z) (zrange (b - a)).

Lemma In_zrange2 a b i : In i (zrange2 a b) <-> (a <= i < b)%Z.
Proof.
  unfold zrange2. rewrite in_map_iff. split.
  - intros [k [<- Hk]]. apply In_zrange in Hk. lia.
  - intros H. exists (i - a)%Z. split; [lia|]. apply In_zrange. lia.
Qed.

Definition znth {A} (l : list A) (i : Z) (d : A) : A :=
  if (i <? 0)%Z then d else nth (Z.to_nat i) l d.

Fixpoint list_eqb {A} (eqb : A -> A -> bool) (a b : list A) : bool :=
  match a, b with
  | [], [] => true
  | x :: s, y :: t => eqb x y && list_eqb eqb s t
  | _, _ => false
  end.

Lemma list_eqb_spec {A} (eqb : A -> A -> bool) :
  (forall x y, eqb x y = true <-> x = y) -> forall a b, list_eqb eqb a b = true <-> a = b.
Proof.
  intros H a. induction a as [|x s IH]; intros [|y t]; simpl; split; try congruence; try discriminate.
  - intros E. apply andb_true_iff in E as [E1 E2]. apply H in E1. apply IH in E2. congruence.
  - intros E. inversion E; subst. apply andb_true_iff. split; [now apply H | now apply IH].
Qed.
