(* binary64 literals from integer (mantissa, exponent) pairs: bit-exact and much faster to parse
   than hexadecimal float literals.  mkf m e = m * 2^e  for |m| < 2^53. *)
From Coq Require Import ZArith Uint63 PrimFloat.

Definition mkf (m e : Z) : float :=
  let a := ldshiftexp (of_uint63 (Uint63.of_Z (Z.abs m))) (Uint63.of_Z (e + 2101)) in
  if (m <? 0)%Z then PrimFloat.opp a else a.
Definition mkf_negzero : float := PrimFloat.opp PrimFloat.zero.

(* |a - b| <= tol * (1 + |b|) *)
Definition fclose (tol a b : float) : bool :=
  PrimFloat.leb (PrimFloat.abs (PrimFloat.sub a b)) (PrimFloat.mul tol (PrimFloat.add PrimFloat.one (PrimFloat.abs b))).
Definition tol9 : float := mkf 4835703278458517 (-82).  (* 1e-9 *)
