(* C18 - gauge / numbering covariance of the operator assembly on faces, over an arbitrary commutative ring with Leibniz
   equality (section hypothesis; axiom-free).

   Rotating the basis of every face t by an angle (unit complex number h t) changes the transport across a dual edge
   (t1, t2) to  t12 * conj(h t1) * h t2  and the representation vectors to  z_t * g_t,  g_t = conj(h t)^order.  Then
     * the assembled operator is  L' = G L G^*  triplet for triplet (G = diag g),
     * (L' (G z))_i = g_i (L z)_i : the harmonic extension computed in the rotated bases is the rotated harmonic
       extension - the directions, measured against the mesh's own edges, are the same;
   reversing the stored orientation of an edge multiplies its Nabla row by a unit and leaves its block unchanged;
   renumbering the elements by an injective map relabels the entries.  (How the code picks bases, orientations and
   numbers is then immaterial for the OPERATOR; the constraint initialisation is not covariant in two known cases -
   known findings gauge/...; the end-to-end claim is carried by the metamorphic run, which is a test.) *)
From Coq Require Import ZArith List Bool Ring Lia.
Import ListNotations.
Require Import MV.Lib.Base MV.C18.Ops MV.C18.Gen MV.C18.Model MV.C18.Proofs_Herm.
Open Scope Z_scope.

Section Gauge.
Variable T : Type.
Variable O : ops T.
Hypothesis Rth : ring_theory (o0 O) (o1 O) (oadd O) (omul O) (osub O) (oopp O) eq.
Add Ring RingT : Rth.

Declare Scope T_scope.
Notation "0" := (o0 O) : T_scope.
Notation "1" := (o1 O) : T_scope.
Notation "x + y" := (oadd O x y) : T_scope.
Notation "x * y" := (omul O x y) : T_scope.
Notation "x - y" := (osub O x y) : T_scope.
Notation "- x" := (oopp O x) : T_scope.
Delimit Scope T_scope with T.
Local Open Scope T_scope.

Notation cx := (cx T).
Notation cmat := (cmat T).

Ltac cxr := unfold cadd, csub, cmul, cconj, cneg, cscale, cofre, cnorm2, c0, c1; cbn [fst snd]; f_equal; ring.

Definition unitc (g : cx) : Prop := cnorm2 O g = 1.

Lemma cmul_comm (a b : cx) : cmul O a b = cmul O b a. Proof. cxr. Qed.
Lemma cmul_assoc (a b c : cx) : cmul O a (cmul O b c) = cmul O (cmul O a b) c. Proof. cxr. Qed.
Lemma cmul_c1_r (a : cx) : cmul O a (c1 O) = a. Proof. rewrite (cx_eta T a) at 2. cxr. Qed.
Lemma cmul_c0_r (a : cx) : cmul O a (c0 O) = c0 O. Proof. cxr. Qed.
Lemma cmul_add_r (a b c : cx) : cmul O a (cadd O b c) = cadd O (cmul O a b) (cmul O a c). Proof. cxr. Qed.
Lemma unit_conj (g : cx) : unitc g -> cmul O g (cconj O g) = c1 O.
Proof.
  unfold unitc, cnorm2. intros H. unfold cmul, cconj, c1. cbn [fst snd]. f_equal.
  - rewrite <- H. ring.
  - ring.
Qed.
Lemma unit_conj' (g : cx) : unitc g -> cmul O (cconj O g) g = c1 O.
Proof. intros H. rewrite cmul_comm. apply unit_conj, H. Qed.
Lemma unitc_conj (g : cx) : unitc g -> unitc (cconj O g).
Proof. unfold unitc, cnorm2, cconj. cbn [fst snd]. intros H. rewrite <- H. ring. Qed.
Lemma unitc_mul (a b : cx) : unitc a -> unitc b -> unitc (cmul O a b).
Proof.
  unfold unitc, cnorm2, cmul. cbn [fst snd]. intros Ha Hb.
  transitivity ((fst a * fst a + snd a * snd a) * (fst b * fst b + snd b * snd b)); [ring | rewrite Ha, Hb; ring].
Qed.
Lemma unitc_c1 : unitc (c1 O). Proof. unfold unitc, cnorm2, c1. cbn [fst snd]. ring. Qed.
Lemma unitc_pow (a : cx) n : unitc a -> unitc (cpow O a n).
Proof. intros H. induction n; cbn [cpow]; [apply unitc_c1 | apply unitc_mul; assumption]. Qed.
Lemma cpow_mul (a b : cx) n : cpow O (cmul O a b) n = cmul O (cpow O a n) (cpow O b n).
Proof. induction n as [|n IH]; cbn [cpow]; [cxr | rewrite IH; cxr]. Qed.

(* G M G^*, triplet for triplet *)
Definition gauge_map (g : Z -> cx) (M : cmat) : cmat :=
  map (fun t : Z * Z * cx => let '(i, j, v) := t in (i, j, cmul O (cmul O (g i) v) (cconj O (g j)))) M.

Lemma centry_gauge_map g M i j :
  centry O (gauge_map g M) i j = cmul O (cmul O (g i) (centry O M i j)) (cconj O (g j)).
Proof.
  induction M as [|[[a b] v] M IH]; cbn [gauge_map map centry].
  - cxr.
  - fold (gauge_map g M). rewrite IH.
    destruct (Z.eqb_spec a i) as [Ea | Na], (Z.eqb_spec b j) as [Eb | Nb]; cbn [andb]; try reflexivity.
    subst. cxr.
Qed.

(* (G M G^* (G z))_i = g_i (M z)_i  for unit gauges *)
Theorem mrow_dot_gauge g M i (z : Z -> cx) :
  (forall t, unitc (g t)) ->
  mrow_dot O (gauge_map g M) i (fun j => cmul O (g j) (z j)) = cmul O (g i) (mrow_dot O M i z).
Proof.
  intros Hu. induction M as [|[[a b] v] M IH]; cbn [gauge_map map mrow_dot].
  - symmetry. apply cmul_c0_r.
  - fold (gauge_map g M). rewrite IH.
    destruct (Z.eqb_spec a i) as [Ea | Na]; [| reflexivity]. subst a.
    rewrite cmul_add_r. f_equal.
    transitivity (cmul O (cmul O (g i) v) (cmul O (cmul O (cconj O (g b)) (g b)) (z b))); [cxr |].
    rewrite (unit_conj' _ (Hu b)). cxr.
Qed.

(* ---- rotating the face bases *)
Definition rot_tr (h : Z -> cx) (tr : Z * edge * Z * Z -> cx * cx) : Z * edge * Z * Z -> cx * cx :=
  fun p => let '(ie, uv, t1, t2) := p in let '(t12, t21) := tr p in
           (cmul O (cmul O t12 (cconj O (h t1))) (h t2), cmul O (cmul O t21 (cconj O (h t2))) (h t1)).
Definition gauge_of (h : Z -> cx) (order : nat) : Z -> cx := fun t => cpow O (cconj O (h t)) order.

Lemma block_gauge d (b : cx) t1 t2 (g1 g2 : cx) :
  unitc g1 -> unitc g2 ->
  lapt_block O d (lapt_n1 O) (cmul O (cmul O b g1) (cconj O g2)) t1 t2 =
  [(t1, t1, cmul O (cmul O g1 (cmul O (wmul O d (lapt_star O (lapt_n1 O))) (lapt_n1 O))) (cconj O g1));
   (t1, t2, cmul O (cmul O g1 (cmul O (wmul O d (lapt_star O (lapt_n1 O))) b)) (cconj O g2));
   (t2, t1, cmul O (cmul O g2 (cmul O (wmul O d (lapt_star O b)) (lapt_n1 O))) (cconj O g1));
   (t2, t2, cmul O (cmul O g2 (cmul O (wmul O d (lapt_star O b)) b)) (cconj O g2))].
Proof.
  intros H1 H2. unfold lapt_block.
  pose proof (unit_conj g1 H1) as U1. pose proof (unit_conj g2 H2) as U2.
  assert (K : forall x y : cx, cmul O (cmul O x y) (cconj O x) = cmul O y (cmul O x (cconj O x))) by (intros; cxr).
  f_equal; [f_equal | f_equal; [f_equal | f_equal; [f_equal | f_equal; f_equal]]].
  - symmetry. rewrite K, U1, cmul_c1_r. reflexivity.
  - unfold lapt_star, wmul. destruct d; cxr.
  - unfold lapt_star, wmul. destruct d; cxr.
  - transitivity (cmul O (cmul O (wmul O d (lapt_star O b)) b) (cmul O (cmul O g1 (cconj O g1)) (cmul O g2 (cconj O g2)))).
    + unfold lapt_star, wmul. destruct d; cxr.
    + rewrite U1, U2. rewrite K, U2. cxr.
Qed.

Lemma gauge_map_app g A B : gauge_map g (A ++ B) = gauge_map g A ++ gauge_map g B.
Proof. unfold gauge_map. apply map_app. Qed.

(* L built on the rotated transports = G L G^* *)
Theorem lap_faces_gauge order D tr P (h : Z -> cx) :
  (forall t, unitc (h t)) ->
  lap_faces_gen O order D (rot_tr h tr) P = gauge_map (gauge_of h order) (lap_faces_gen O order D tr P).
Proof.
  intros Hu. unfold lap_faces_gen.
  induction P as [|[[[ie uv] t1] t2] P IH]; cbn [flat_map]; [reflexivity |].
  rewrite gauge_map_app, <- IH. f_equal.
  unfold rot_tr. destruct (tr (ie, uv, t1, t2)) as [t12 t21].
  unfold lapt_n2. rewrite !cpow_mul.
  set (g1 := gauge_of h order t1). set (g2 := gauge_of h order t2).
  assert (E2 : cpow O (h t2) order = cconj O g2) by (subst g2; unfold gauge_of; rewrite <- cconj_pow by exact Rth; rewrite cconj_invol by exact Rth; reflexivity).
  change (cpow O (cconj O (h t1)) order) with g1. rewrite E2.
  rewrite (block_gauge _ (cpow O t12 order) t1 t2 g1 g2)
    by (subst g1 g2; unfold gauge_of; apply unitc_pow, unitc_conj, Hu).
  reflexivity.
Qed.

Corollary lap_faces_gauge_harmonic order D tr P h (z : Z -> cx) i :
  (forall t, unitc (h t)) ->
  mrow_dot O (lap_faces_gen O order D (rot_tr h tr) P) i (fun j => cmul O (gauge_of h order j) (z j))
  = cmul O (gauge_of h order i) (mrow_dot O (lap_faces_gen O order D tr P) i z).
Proof.
  intros Hu. rewrite (lap_faces_gauge order D tr P h Hu). apply mrow_dot_gauge.
  intros t. unfold gauge_of. apply unitc_pow, unitc_conj, Hu.
Qed.

(* ---- reversing the stored orientation of an edge: its Nabla row (a, b) becomes (u a, u b) with u a unit; same block *)
Theorem block_row_unit d a b t1 t2 (u : cx) :
  unitc u -> lapt_block O d (cmul O u a) (cmul O u b) t1 t2 = lapt_block O d a b t1 t2.
Proof.
  intros Hu. unfold lapt_block, lapt_star, wmul. pose proof (unit_conj' u Hu) as U.
  assert (K : forall x y : cx, cmul O (cconj O (cmul O u x)) (cmul O u y) = cmul O (cmul O (cconj O u) u) (cmul O (cconj O x) y))
    by (intros; cxr).
  destruct d as [w |].
  - assert (K' : forall x y : cx, cmul O (cscale O w (cconj O (cmul O u x))) (cmul O u y)
                                  = cscale O w (cmul O (cmul O (cconj O u) u) (cmul O (cconj O x) y))) by (intros; cxr).
    rewrite !K', U. f_equal; [f_equal | f_equal; [f_equal | f_equal; [f_equal | f_equal; f_equal]]]; cxr.
  - rewrite !K, U. f_equal; [f_equal | f_equal; [f_equal | f_equal; [f_equal | f_equal; f_equal]]]; cxr.
Qed.

(* ---- renumbering the elements *)
Definition relabel (s : Z -> Z) (M : cmat) : cmat := map (fun t : Z * Z * cx => let '(i, j, v) := t in (s i, s j, v)) M.
Theorem centry_relabel s M i j :
  (forall x y, s x = s y -> x = y) -> centry O (relabel s M) (s i) (s j) = centry O M i j.
Proof.
  intros Hinj.
  assert (Eq : forall x y, (s x =? s y)%Z = (x =? y)%Z).
  { intros x y. destruct (Z.eqb_spec x y) as [E | N]; [subst; apply Z.eqb_refl |].
    apply Z.eqb_neq. intros E. apply N, Hinj, E. }
  induction M as [|[[a b] v] M IH]; cbn [relabel map centry]; [reflexivity |].
  fold (relabel s M). rewrite IH, !Eq. reflexivity.
Qed.

(* ------------------------------------------------------------------ the statement exported by Props.v *)
Theorem gauge_all :
  (forall (order : nat) (D : option (list T)) (tr : Z * edge * Z * Z -> cx * cx) (P : list (Z * edge * Z * Z)) (h : Z -> cx),
      (forall t, unitc (h t)) ->
      lap_faces_gen O order D (rot_tr h tr) P = gauge_map (gauge_of h order) (lap_faces_gen O order D tr P) /\
      forall (z : Z -> cx) (i : Z),
        mrow_dot O (lap_faces_gen O order D (rot_tr h tr) P) i (fun j => cmul O (gauge_of h order j) (z j))
        = cmul O (gauge_of h order i) (mrow_dot O (lap_faces_gen O order D tr P) i z)) /\
  (forall (d : option T) (a b : cx) (t1 t2 : Z) (u : cx),
      unitc u -> lapt_block O d (cmul O u a) (cmul O u b) t1 t2 = lapt_block O d a b t1 t2) /\
  (forall (s : Z -> Z) (M : cmat) (i j : Z),
      (forall x y, s x = s y -> x = y) -> centry O (relabel s M) (s i) (s j) = centry O M i j).
Proof.
  split; [| split].
  - intros order D tr P h Hu. split; [exact (lap_faces_gauge order D tr P h Hu) |].
    intros z i. exact (lap_faces_gauge_harmonic order D tr P h z i Hu).
  - exact block_row_unit.
  - intros s M i j H. exact (centry_relabel s M i j H).
Qed.

End Gauge.
