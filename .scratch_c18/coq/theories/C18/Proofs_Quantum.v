(* C18 - index quantum (PARTIAL): e^{i order angle_v} = 1 at a vertex whose faces form a closed fan, under three named
   hypotheses.  Over an arbitrary commutative ring with Leibniz equality (section hypothesis; axiom-free).

   `cis` stands for x |-> e^{i x}: a map from the numbers to the complex numbers that turns sums into products and 0
   into 1 (in R: x |-> (cos x, sin x), Examples.v).  angle_v = defect_v + the signed edge rotations at v (Model.angle_terms).
     H1 (matching rule): for the k-th term r of angle_terms,  (cis r)^order = fb_k * conj fa_k * rho_k  where fa_k / fb_k are the
        normalised representation vectors of the face before / after the edge (turning around v) and rho_k the order-th
        power of the transport between their bases: what picking the closest of the `order` roots means;
     H2 (closed fan): every face around v is entered once and left once: the fb's are a permutation of the fa's, all unit;
     H3 (holonomy): the transports around v compose to the angle defect:  (cis defect_v)^order * prod rho_k = 1.
   Conclusion: (cis angle_v)^order = 1, i.e. order * angle_v is a whole multiple of 2 pi, i.e. the stored index
   angle_v * 2/pi is a whole multiple of 4/order.  Missing for the full statement: H1 and H3 are facts about atan2 / phase /
   modulo (real analysis), and the last step e^{ix} = 1 -> x in 2 pi Z; each run checks the quantum numerically. *)
From Coq Require Import ZArith List Bool Ring Lia Permutation.
Import ListNotations.
Require Import MV.Lib.Base MV.C18.Ops MV.C18.Gen MV.C18.Model MV.C18.Proofs_Herm MV.C18.Proofs_Gauge.
Open Scope Z_scope.

Section Quantum.
Variable T : Type.
Variable O : ops T.
Hypothesis Rth : ring_theory (o0 O) (o1 O) (oadd O) (omul O) (osub O) (oopp O) eq.
Add Ring RingT : Rth.

Notation cx := (cx T).
Ltac cxr := unfold cadd, csub, cmul, cconj, cneg, cscale, cofre, cnorm2, c0, c1; cbn [fst snd]; f_equal; ring.

Variable cis : T -> cx.
Hypothesis cis_add : forall x y, cis (oadd O x y) = cmul O (cis x) (cis y).
Hypothesis cis_0 : cis (o0 O) = c1 O.

Fixpoint cprod (l : list cx) : cx := match l with [] => c1 O | x :: r => cmul O x (cprod r) end.

Lemma cis_sum l : cis (sumT O l) = cprod (map cis l).
Proof. induction l as [|x l IH]; cbn [sumT map cprod]; [exact cis_0 | rewrite cis_add, IH; reflexivity]. Qed.
Lemma cprod_app l m : cprod (l ++ m) = cmul O (cprod l) (cprod m).
Proof. induction l as [|x l IH]; cbn [app cprod]; [symmetry; apply (cmul_c1_l T O Rth) | rewrite IH; apply (cmul_assoc T O Rth)]. Qed.
Lemma cprod_perm l m : Permutation l m -> cprod l = cprod m.
Proof.
  induction 1; cbn [cprod]; try congruence.
  rewrite !(cmul_assoc T O Rth), (cmul_comm T O Rth y x). reflexivity.
Qed.
Lemma cprod_pow l n : cpow O (cprod l) n = cprod (map (fun z => cpow O z n) l).
Proof.
  induction l as [|x l IH]; cbn [map cprod]; [apply (cpow_c1 T O Rth) |].
  rewrite (cpow_mul T O Rth), IH. reflexivity.
Qed.
Lemma cprod_mul3 (l : list (cx * cx * cx)) :
  cprod (map (fun t : cx * cx * cx => let '(fa, fb, rho) := t in cmul O (cmul O fb (cconj O fa)) rho) l)
  = cmul O (cmul O (cprod (map (fun t : cx * cx * cx => snd (fst t)) l))
                   (cconj O (cprod (map (fun t : cx * cx * cx => fst (fst t)) l))))
           (cprod (map (fun t : cx * cx * cx => snd t) l)).
Proof.
  induction l as [|[[fa fb] rho] l IH]; cbn [map cprod fst snd].
  - cxr.
  - rewrite IH, (cconj_mul T O Rth). cxr.
Qed.
Lemma cprod_unit l : Forall (unitc T O) l -> unitc T O (cprod l).
Proof. induction 1; cbn [cprod]; [apply (unitc_c1 T O Rth) | apply (unitc_mul T O Rth); assumption]. Qed.

Theorem quantum_partial (order : nat) (defect : Z -> T) (E : list edge) (rot : Z -> T) (v : Z)
    (fan : list (cx * cx * cx)) :
  (* H1 *) Forall2 (fun r (t : cx * cx * cx) => let '(fa, fb, rho) := t in
                      cpow O (cis r) order = cmul O (cmul O fb (cconj O fa)) rho) (angle_terms O E rot v) fan ->
  (* H2 *) Permutation (map (fun t : cx * cx * cx => fst (fst t)) fan) (map (fun t : cx * cx * cx => snd (fst t)) fan) ->
           Forall (unitc T O) (map (fun t : cx * cx * cx => fst (fst t)) fan) ->
  (* H3 *) cmul O (cpow O (cis (defect v)) order) (cprod (map (fun t : cx * cx * cx => snd t) fan)) = c1 O ->
  cpow O (cis (vertex_angle O defect E rot v)) order = c1 O.
Proof.
  intros H1 H2 Hu H3. unfold vertex_angle. rewrite cis_add, (cpow_mul T O Rth), cis_sum, cprod_pow, map_map.
  assert (E1 : map (fun x => cpow O (cis x) order) (angle_terms O E rot v)
               = map (fun t : cx * cx * cx => let '(fa, fb, rho) := t in cmul O (cmul O fb (cconj O fa)) rho) fan).
  { clear H2 Hu H3. induction H1 as [|r [[fa fb] rho] rs fs Hr _ IH]; cbn [map]; [reflexivity | rewrite Hr, IH; reflexivity]. }
  rewrite E1, cprod_mul3, <- (cprod_perm _ _ H2).
  rewrite (unit_conj T O Rth _ (cprod_unit _ Hu)), (cmul_c1_l T O Rth). exact H3.
Qed.

End Quantum.
