(* C18 - structural theorems about the assembled connection Laplacians, over an arbitrary commutative ring with Leibniz
   equality (section hypothesis; axiom-free):
     * Hermitian:  L_ij = conj L_ji  for EVERY element list, EVERY real weights and EVERY transport (no geometry);
     * flat connection: with trivial transports the operator is, triplet for triplet, the scalar operator the code
       builds without a connection, whose entries are real.
   They are about the generated coefficient patterns of Gen.v (Nabla entries, conjugate transpose, the four
   coefficients per edge and their angle forms): losing a conjugate or swapping an index in the source changes Gen.v
   and the per-block lemmas below stop closing. *)
From Coq Require Import ZArith List Bool Ring Lia.
Import ListNotations.
Require Import MV.Lib.Base MV.C18.Ops MV.C18.Gen MV.C18.Model.
Open Scope Z_scope.

Section Herm.
Variable T : Type.
Variable O : ops T.
Hypothesis Rth : ring_theory (o0 O) (o1 O) (oadd O) (omul O) (osub O) (oopp O) eq.
Add Ring RingT : Rth.

Declare Scope T_scope.
Notation "0" := (o0 O) : T_scope.
Notation "1" := (o1 O) : T_scope.
Notation "x + y" := (oadd O x y) : T_scope.
Notation "x * y" := (omul O x y) : T_scope.
Notation "x - y" := (osub O x y) : T_scope.
Notation "- x" := (oopp O x) : T_scope.
Delimit Scope T_scope with T.
Local Open Scope T_scope.

Notation cx := (cx T).
Notation cmat := (cmat T).

Ltac cxr := unfold cadd, csub, cmul, cconj, cneg, cscale, cofre, c0, c1; cbn [fst snd]; f_equal; ring.

Lemma cx_eta (a : cx) : a = (fst a, snd a). Proof. destruct a; reflexivity. Qed.

Lemma cconj_add (a b : cx) : cconj O (cadd O a b) = cadd O (cconj O a) (cconj O b).
Proof. cxr. Qed.
Lemma cconj_mul (a b : cx) : cconj O (cmul O a b) = cmul O (cconj O a) (cconj O b).
Proof. cxr. Qed.
Lemma cconj_invol (a : cx) : cconj O (cconj O a) = a.
Proof. rewrite (cx_eta a) at 2. cxr. Qed.
Lemma cconj_c0 : cconj O (c0 O) = c0 O.
Proof. cxr. Qed.
Lemma cconj_c1 : cconj O (c1 O) = c1 O.
Proof. cxr. Qed.
Lemma cconj_pow (a : cx) (n : nat) : cconj O (cpow O a n) = cpow O (cconj O a) n.
Proof. induction n as [|n IH]; cbn [cpow]; [apply cconj_c1 | rewrite cconj_mul, IH; reflexivity]. Qed.
Lemma cadd_c0_l (a : cx) : cadd O (c0 O) a = a.
Proof. rewrite (cx_eta a) at 2. cxr. Qed.
Lemma cadd_assoc (a b c : cx) : cadd O a (cadd O b c) = cadd O (cadd O a b) c.
Proof. cxr. Qed.
Lemma cadd_comm (a b : cx) : cadd O a b = cadd O b a.
Proof. cxr. Qed.
Lemma cmul_c1_l (a : cx) : cmul O (c1 O) a = a.
Proof. rewrite (cx_eta a) at 2. cxr. Qed.
Lemma cpow_c1 (n : nat) : cpow O (c1 O) n = c1 O.
Proof. induction n as [|n IH]; cbn [cpow]; [reflexivity | rewrite IH; apply cmul_c1_l]. Qed.

Definition herm (M : cmat) : Prop := forall i j, centry O M i j = cconj O (centry O M j i).

Lemma centry_app A B i j : centry O (A ++ B) i j = cadd O (centry O A i j) (centry O B i j).
Proof.
  induction A as [|[[a b] v] A IH]; cbn [app centry].
  - symmetry. apply cadd_c0_l.
  - destruct ((a =? i)%Z && (b =? j)%Z); rewrite IH; [apply cadd_assoc | reflexivity].
Qed.
Lemma herm_nil : herm [].
Proof. intros i j. cbn. symmetry. apply cconj_c0. Qed.
Lemma herm_app A B : herm A -> herm B -> herm (A ++ B).
Proof. intros HA HB i j. rewrite !centry_app, cconj_add, <- HA, <- HB. reflexivity. Qed.
Lemma herm_flat_map {X} (f : X -> cmat) l : (forall x, herm (f x)) -> herm (flat_map f l).
Proof. intros H. induction l; cbn [flat_map]; [apply herm_nil | apply herm_app; auto]. Qed.

(* a real coefficient on the diagonal *)
Lemma herm_cons_diag k x M : cconj O x = x -> herm M -> herm ((k, k, x) :: M).
Proof.
  intros Hx H i j. cbn [centry]. rewrite (H i j).
  destruct (k =? i)%Z, (k =? j)%Z; cbn [andb]; try reflexivity.
  rewrite cconj_add, Hx. reflexivity.
Qed.
(* two mirrored coefficients that are conjugate to each other *)
Lemma herm_cons_pair a b y y' M : cconj O y = y' -> herm M -> herm ((a, b, y) :: (b, a, y') :: M).
Proof.
  intros Hy H i j. cbn [centry]. rewrite (H i j).
  assert (Hy' : cconj O y' = y) by (rewrite <- Hy; apply cconj_invol).
  destruct (a =? i)%Z, (b =? j)%Z, (b =? i)%Z, (a =? j)%Z; cbn [andb];
    rewrite ?cconj_add, ?Hy, ?Hy'; try reflexivity.
  rewrite !cadd_assoc. f_equal. apply cadd_comm.
Qed.

(* ------------------------------------------------------------------ laplacian_triangles *)
Lemma herm_lapt_block d a b t1 t2 : herm (lapt_block O d a b t1 t2).
Proof.
  unfold lapt_block.
  apply herm_cons_diag; [| apply herm_cons_pair; [| apply herm_cons_diag; [| apply herm_nil]]];
    unfold lapt_star, wmul; destruct d; cxr.
Qed.

Theorem lap_faces_gen_herm order D tr P : herm (lap_faces_gen O order D tr P).
Proof.
  unfold lap_faces_gen. apply herm_flat_map. intros [[[ie uv] t1] t2].
  destruct (tr (ie, uv, t1, t2)) as [t12 t21]. apply herm_lapt_block.
Qed.

Corollary lap_faces_herm order D V F E FE : herm (lap_faces O order D V F E FE).
Proof. unfold lap_faces. apply lap_faces_gen_herm. Qed.

(* ------------------------------------------------------------------ laplacian (vertices) *)
Lemma herm_lapv_coeffs order i j v ai aj : herm (lapv_coeffs O order i j v ai aj).
Proof.
  unfold lapv_coeffs.
  apply herm_cons_diag; [cxr |]. apply herm_cons_diag; [cxr |].
  apply herm_cons_pair; [| apply herm_nil].
  match goal with |- cconj O (cscale O ?s (cpow O ?z ?n)) = cscale O ?s (cpow O ?w ?n) =>
    replace (cconj O (cscale O s (cpow O z n))) with (cscale O s (cpow O (cconj O z) n));
      [ f_equal; f_equal; cxr | rewrite <- cconj_pow; cxr ]
  end.
Qed.

Theorem lap_vertices_gen_herm order wf tr F : herm (lap_vertices_gen O order wf tr F).
Proof.
  unfold lap_vertices_gen. apply herm_flat_map. intros [it [[p q] r]]. cbn [snd].
  destruct (wf _) as [[a b] c].
  apply herm_flat_map. intros [[i j] v]. apply herm_lapv_coeffs.
Qed.

Corollary lap_vertices_herm order cots trs F : herm (lap_vertices O order cots trs F).
Proof. unfold lap_vertices. apply lap_vertices_gen_herm. Qed.

(* ------------------------------------------------------------------ flat connection = scalar operator *)
Theorem lap_faces_flat order D P :
  lap_faces_gen O order D (fun _ => (c1 O, c1 O)) P = lap_faces_scalar O D P.
Proof.
  unfold lap_faces_gen, lap_faces_scalar. apply flat_map_ext. intros [[[ie uv] t1] t2].
  unfold lapt_n2, lapt_n1, lapt_n1_flat, lapt_n2_flat. rewrite ?cpow_c1. reflexivity.
Qed.

(* the scalar dual operator with real coefficients: d on the diagonal, -d off it *)
Definition lapt_block_real (d : option T) (t1 t2 : Z) : list (Z * Z * T) :=
  let w := match d with Some x => x | None => 1 end in
  [(t1, t1, w); (t1, t2, - w); (t2, t1, - w); (t2, t2, w)].
Fixpoint rentry (M : list (Z * Z * T)) (i j : Z) : T :=
  match M with
  | [] => 0
  | (a, b, v) :: r => if (a =? i)%Z && (b =? j)%Z then v + rentry r i j else rentry r i j
  end.
Definition lap_faces_real (D : option (list T)) (P : list (Z * edge * Z * Z)) : list (Z * Z * T) :=
  flat_map (fun p : Z * edge * Z * Z => let '(ie, uv, t1, t2) := p in
     lapt_block_real (match D with Some l => Some (tnth O l ie) | None => None end) t1 t2) P.

Lemma rentry_app A B i j : rentry (A ++ B) i j = rentry A i j + rentry B i j.
Proof.
  induction A as [|[[a b] v] A IH]; cbn [app rentry].
  - ring.
  - destruct ((a =? i)%Z && (b =? j)%Z); rewrite IH; ring.
Qed.

Theorem lap_faces_scalar_real D P i j :
  centry O (lap_faces_scalar O D P) i j = cofre O (rentry (lap_faces_real D P) i j).
Proof.
  unfold lap_faces_scalar, lap_faces_real.
  induction P as [|[[[ie uv] t1] t2] P IH]; cbn [flat_map].
  - cbn. reflexivity.
  - rewrite centry_app, rentry_app, IH. clear IH.
    unfold lapt_block, lapt_block_real, lapt_star, lapt_n1_flat, lapt_n2_flat, wmul.
    cbn [centry rentry].
    destruct (match D with Some l => Some (tnth O l ie) | None => None end);
      destruct (t1 =? i)%Z, (t1 =? j)%Z, (t2 =? i)%Z, (t2 =? j)%Z; cbn [andb]; cxr.
Qed.

(* flat on vertices: e^{i (a_xy - a_yx - pi)} = 1 along every edge.  (It cannot hold for x = y, so it is asked for
   distinct indices only and the faces are required to have distinct corners.) *)
Definition flat_tr (tr : Z -> Z -> cx) : Prop :=
  forall x y, x <> y -> cmul O (cmul O (tr x y) (cconj O (tr y x))) (cneg O (c1 O)) = c1 O.
Definition faces_distinct (F : list face) : Prop :=
  forall p q r, In (p, q, r) F -> p <> q /\ q <> r /\ r <> p.

Lemma lapv_coeffs_flat_entry order x y v tr i j : flat_tr tr -> x <> y ->
  centry O (lapv_coeffs O order x y v (tr x y) (tr y x)) i j = centry O (lapv_coeffs_flat O x y v) i j.
Proof.
  intros Hflat Hxy. unfold lapv_coeffs, lapv_coeffs_flat.
  rewrite (Hflat x y Hxy), (Hflat y x (not_eq_sym Hxy)), !cpow_c1.
  cbn [centry].
  destruct (x =? i)%Z, (x =? j)%Z, (y =? i)%Z, (y =? j)%Z; cbn [andb]; cxr.
Qed.

Theorem lap_vertices_flat order wf tr F :
  flat_tr tr -> faces_distinct F ->
  forall i j, centry O (lap_vertices_gen O order wf tr F) i j = centry O (lap_vertices_scalar O wf F) i j.
Proof.
  intros Hflat Hd i j. unfold lap_vertices_gen, lap_vertices_scalar, indexed.
  generalize 0%Z. induction F as [|[[p q] r] F IH]; intros k; cbn [indexed_from flat_map]; [reflexivity |].
  rewrite !centry_app, IH by (intros p' q' r' H; apply Hd; right; exact H). f_equal. cbn [snd].
  destruct (wf _) as [[a b] c].
  destruct (Hd p q r (or_introl eq_refl)) as [Hpq [Hqr Hrp]].
  unfold lapv_edges. cbn [flat_map]. rewrite !centry_app.
  rewrite !lapv_coeffs_flat_entry by assumption. reflexivity.
Qed.

Theorem lap_vertices_scalar_real wf F i j : snd (centry O (lap_vertices_scalar O wf F) i j) = 0.
Proof.
  unfold lap_vertices_scalar.
  induction (indexed F) as [|[it [[p q] r]] l IH]; cbn [flat_map]; [reflexivity |].
  rewrite centry_app. unfold cadd at 1. cbn [snd]. rewrite IH. cbn [snd].
  destruct (wf _) as [[a b] c].
  induction (lapv_edges p q r a b c) as [|[[x y] v] m IHm]; cbn [flat_map]; [cbn; ring |].
  rewrite centry_app. unfold cadd at 1. cbn [snd].
  assert (E : snd (centry O (flat_map (fun t : Z * Z * T => let '(i0, j0, v0) := t in lapv_coeffs_flat O i0 j0 v0) m) i j) + 0 = 0)
    by exact IHm.
  assert (E2 : snd (centry O (lapv_coeffs_flat O x y v) i j) = 0).
  { unfold lapv_coeffs_flat. cbn [centry].
    destruct (x =? i)%Z, (x =? j)%Z, (y =? i)%Z, (y =? j)%Z; cbn [andb];
      unfold cadd, cofre, c0; cbn [fst snd]; ring. }
  rewrite E2. transitivity (snd (centry O (flat_map (fun t : Z * Z * T => let '(i0, j0, v0) := t in lapv_coeffs_flat O i0 j0 v0) m) i j) + 0); [ring | exact E].
Qed.

(* ------------------------------------------------------------------ the statements exported by Props.v *)
Theorem hermitian_both :
  (forall (order : nat) (D : option (list T)) (tr : Z * edge * Z * Z -> cx * cx) (P : list (Z * edge * Z * Z)),
      herm (lap_faces_gen O order D tr P)) /\
  (forall (order : nat) (wf : Z * face -> T * T * T) (tr : Z -> Z -> cx) (F : list face),
      herm (lap_vertices_gen O order wf tr F)).
Proof. split; [exact lap_faces_gen_herm | exact lap_vertices_gen_herm]. Qed.

Theorem flat_both :
  (forall (order : nat) (D : option (list T)) (P : list (Z * edge * Z * Z)),
      lap_faces_gen O order D (fun _ => (c1 O, c1 O)) P = lap_faces_scalar O D P /\
      forall i j, centry O (lap_faces_scalar O D P) i j = cofre O (rentry (lap_faces_real D P) i j)) /\
  (forall (order : nat) (wf : Z * face -> T * T * T) (tr : Z -> Z -> cx) (F : list face),
      flat_tr tr -> faces_distinct F ->
      forall i j, centry O (lap_vertices_gen O order wf tr F) i j = centry O (lap_vertices_scalar O wf F) i j /\
                  snd (centry O (lap_vertices_scalar O wf F) i j) = 0).
Proof.
  split.
  - intros order D P. split; [exact (lap_faces_flat order D P) | exact (lap_faces_scalar_real D P)].
  - intros order wf tr F H1 H2 i j. split; [exact (lap_vertices_flat order wf tr F H1 H2 i j) | exact (lap_vertices_scalar_real wf F i j)].
Qed.

End Herm.
