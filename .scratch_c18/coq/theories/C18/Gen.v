(* GENERATED on every run by vf/translate from /repo - do not edit, not committed.
   C18: connection / constraint / normalisation / Laplacian / optimisation / index expressions
   source connection.SurfaceConnectionFaces._initialize sha256/16=6818c069279d96cb
   source connection.SurfaceConnection.project sha256/16=8c78d02454dc07ef
   source faces2d._BaseFrameField2DFaces._initialize_variables sha256/16=88273d442fa5cfd2
   source FrameField2DFaces.optimize sha256/16=198c15d3e9bea38a
   source faces2d._BaseFrameField2DFaces.flag_singularities sha256/16=758385b63cf8221f
   source base.FrameField.normalize sha256/16=52870bcd13f8e7f9
   source laplacian_op.laplacian_triangles sha256/16=53649757746fb717
   source laplacian_op.laplacian sha256/16=15e028e710a27be4
   source vertex2d._BaseFrameField2DVertices._initialize_variables sha256/16=2982f96f0db73a1c
   source FrameField2DVertices.optimize sha256/16=52e24bf22f866cc7
*)
From Coq Require Import ZArith List Bool QArith.
Import ListNotations.
Require Import MV.Lib.Base MV.C18.Ops.
Open Scope Z_scope.

Section Gen.
Context {T : Type} (OPS_ : ops T).
Notation cx := (cx T).
Notation vec := (vec T).
Notation cmat := (cmat T).

(* ---- connection.py: SurfaceConnectionFaces._initialize, SurfaceConnection.project *)
Definition conn_edge_vec (pA pB : vec) : vec := vsub OPS_ pB pA.
Definition conn_dir (E X Y : vec) : cx := (vdot OPS_ E X, vdot OPS_ E Y).
Definition conn_t12 (w1 w2 : cx) : cx := (cmul OPS_ w1 (cconj OPS_ w2)).
Definition conn_t21 (w1 w2 : cx) : cx := (cmul OPS_ w2 (cconj OPS_ w1)).
Definition conn_project (X Y V : vec) : cx := (vdot OPS_ X V, vdot OPS_ Y V).

(* ---- faces2d.py: _BaseFrameField2DFaces._initialize_variables *)
Definition cstrf_edge_vec (p1 p2 : vec) : vec := vsub OPS_ p2 p1.
Definition cstrf_local (edge X Y : vec) : cx := (vdot OPS_ edge X, vdot OPS_ edge Y).
Definition cstrf_power (order : nat) : nat := 4%nat.
Definition cstrf_value (order : nat) (c : cx) : cx := cpow OPS_ (cdivr OPS_ c (cabs OPS_ c)) (cstrf_power order).
(* ---- faces2d.py: FrameField2DFaces.optimize (bordered branch) *)
Definition optf_fix_direct : bool := true.
Definition optf_fix_indirect : bool := true.
Definition optf_rhs (valB : cx) : cx := cneg OPS_ valB.
Definition optf_smooth_guard (n_smooth : Z) : bool := 0 <? n_smooth.
(* ---- faces2d.py: _BaseFrameField2DFaces.flag_singularities *)
Definition sing_thr : Q := (1 # 1000)%Q.
Definition sing_sign (u v : Z) : bool := u <? v.
Definition sing_flag (angle : T) : bool := oltb OPS_ (oofQ OPS_ sing_thr) (oabs OPS_ angle).
Definition sing_value (angle : T) : T := (odiv OPS_ (omul OPS_ angle (oofZ OPS_ 2)) (opi OPS_)).

(* ---- base.py: FrameField.normalize *)
Definition norm_thr : Q := (1 # 10000000000)%Q.
Definition norm_guard (a : T) : bool := oltb OPS_ (oofQ OPS_ norm_thr) a.
Definition norm_elem (z : cx) : cx := if norm_guard (cabs OPS_ z) then cdivr OPS_ z (cabs OPS_ z) else z.

(* ---- laplacian_op.py: laplacian_triangles *)
Definition lapt_n1 : cx := cneg OPS_ (c1 OPS_).
Definition lapt_n2 (order : nat) (t12 t21 : cx) : cx := (cpow OPS_ t12 order).
Definition lapt_n1_flat : cx := cneg OPS_ (c1 OPS_).
Definition lapt_n2_flat : cx := c1 OPS_.
Definition lapt_star (z : cx) : cx := cconj OPS_ z.
(* ---- laplacian_op.py: laplacian *)
Definition lapv_edges {W : Type} (p q r : Z) (a b c : W) : list (Z * Z * W) := [(p, q, c); (q, r, a); (r, p, b)].
Definition lapv_w_cotan (cp cq cr : T) : T * T * T :=
  (odiv OPS_ cp (oofZ OPS_ 2), odiv OPS_ cq (oofZ OPS_ 2), odiv OPS_ cr (oofZ OPS_ 2)).
Definition lapv_w_uniform : T * T * T := (oofQ OPS_ (1 # 2)%Q, oofQ OPS_ (1 # 2)%Q, oofQ OPS_ (1 # 2)%Q).
Definition lapv_coeffs (order : nat) (i j : Z) (v : T) (ai aj : cx) : cmat :=
  [(i, i, cofre OPS_ v);
   (j, j, cofre OPS_ v);
   (i, j, cscale OPS_ (oopp OPS_ v) (cpow OPS_ (cmul OPS_ (cmul OPS_ ai (cconj OPS_ aj)) (cneg OPS_ (c1 OPS_))) order));
   (j, i, cscale OPS_ (oopp OPS_ v) (cpow OPS_ (cmul OPS_ (cmul OPS_ aj (cconj OPS_ ai)) (cneg OPS_ (c1 OPS_))) order))].
Definition lapv_coeffs_flat (i j : Z) (v : T) : cmat :=
  [(i, i, cofre OPS_ v);
   (j, j, cofre OPS_ v);
   (i, j, cofre OPS_ (oopp OPS_ v));
   (j, i, cofre OPS_ (oopp OPS_ v))].

(* ---- vertex2d.py: _BaseFrameField2DVertices._initialize_variables *)
Definition cstrv_smooth_branch (smooth_normals : bool) (order : Z) : bool := smooth_normals && negb (order mod 2 =? 1).
Definition cstrv_edge_vec (pA pB : vec) : vec := vsub OPS_ pB pA.
Definition cstrv_power (order : nat) : nat := order.
Definition cstrv_add_thr : Q := (1 # 10000000000)%Q.
Definition cstrv_add_guard (a : T) : bool := oltb OPS_ (oofQ OPS_ cstrv_add_thr) a.
Definition cstrv_norm_thr : Q := (1 # 100000000)%Q.
Definition cstrv_norm_guard (a : T) : bool := oltb OPS_ (oofQ OPS_ cstrv_norm_thr) a.
(* ---- vertex2d.py: FrameField2DVertices.optimize (bordered branch) *)
Definition optv_rhs (valB : cx) : cx := cneg OPS_ valB.
Definition optv_smooth_guard (n_smooth : Z) : bool := 0 <? n_smooth.

End Gen.
