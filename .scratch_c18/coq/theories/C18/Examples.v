(* C18 - non-vacuity: the laws hold in R, concrete objects satisfy the hypotheses of each theorem; and the refutation
   witnesses (exact rationals, vm_compute) of the two statements that are FALSE of the faithful model. *)
From Coq Require Import ZArith List Bool Reals Lra QArith Qreals RealField.
Import ListNotations.
Require Import MV.Lib.Base MV.C18.Ops MV.C18.Gen MV.C18.Model.
Require Import MV.C18.Proofs_Herm MV.C18.Proofs_Opt MV.C18.Proofs_Cstr MV.C18.Proofs_Index MV.C18.Proofs_Main MV.C18.Proofs_Gauge MV.C18.Proofs_Quantum.

(* ================================================================== the real numbers *)
Definition Rltb (a b : R) : bool := if Rlt_dec a b then true else false.
Definition Rops : ops R := {|
  o0 := 0%R; o1 := 1%R; oadd := Rplus; osub := Rminus; omul := Rmult; odiv := Rdiv; oopp := Ropp; oinv := Rinv;
  osqrt := sqrt; oabs := Rabs; oltb := Rltb; oofZ := IZR; oofQ := Q2R; opi := PI |}.

Lemma Rltb_thr (q : Q) : (0 <= q)%Q -> Rltb (Q2R q) 0 = false.
Proof.
  intros H. unfold Rltb. destruct (Rlt_dec (Q2R q) 0) as [L | _]; [| reflexivity].
  exfalso. apply Qle_Rle in H. rewrite RMicromega.Q2R_0 in H. lra.
Qed.

Example R_laws : laws Rops.
Proof.
  constructor; cbn.
  - exact Rfield.
  - intros a b. apply sqrt_sqrt. nra.
  - exact sqrt_1.
  - apply Rltb_thr. unfold norm_thr. discriminate.
  - apply Rltb_thr. unfold cstrv_norm_thr. discriminate.
Qed.

Local Open Scope R_scope.

(* C18_unit: the guard is satisfiable - the element (3, 4) has modulus 5 > 1e-10 and is normalised to modulus 1 *)
Example ex_unit_guard : norm_guard Rops (cabs Rops (3, 4)) = true.
Proof.
  unfold norm_guard, cabs, cnorm2. cbn.
  replace (3 * 3 + 4 * 4) with (5 * 5) by ring. rewrite sqrt_square by lra.
  unfold Rltb. destruct (Rlt_dec (Q2R norm_thr) 5) as [_ | N]; [reflexivity |].
  exfalso. apply N. unfold norm_thr, Q2R. cbn. lra.
Qed.
Example ex_unit : cnorm2 Rops (norm_elem Rops (3, 4)) = 1.
Proof. exact (proj1 (unit_all R Rops R_laws) (3, 4) ex_unit_guard). Qed.

(* C18_harmonic_extension: a 3-element chain 0 - 1 - 2 with the two ends constrained to 1; the solver that answers 1 at
   element 1 satisfies the system, the operator is partitioned *)
Definition exL : cmat R := [(1%Z, 1%Z, (2, 0)); (1%Z, 0%Z, (-1, 0)); (1%Z, 2%Z, (-1, 0))].
Definition exvar0 : Z -> cx R := fun i => if (i =? 1)%Z then (0, 0) else (1, 0).
Definition exsolve : cmat R -> list Z -> (Z -> cx R) -> (Z -> cx R) := fun _ _ _ _ => (1, 0).
Example ex_harmonic_hyps :
  partitioned R exL [1%Z] [0%Z; 2%Z] /\
  solves R Rops (cneg Rops) exL exvar0 [1%Z] [0%Z; 2%Z] (exsolve exL [1%Z] (opt_rhs_fn Rops (cneg Rops) exL [0%Z; 2%Z] exvar0)).
Proof.
  split.
  - intros a b v [H | [H | [H | []]]]; inversion H; subst; reflexivity.
  - intros i Hi. unfold memZ in Hi. cbn in Hi. rewrite orb_false_r in Hi. apply Z.eqb_eq in Hi. subst i.
    unfold opt_rhs_fn, exL, exsolve, exvar0, mask, memZ. cbn. unfold cadd, cmul, cneg, c0. cbn. f_equal; ring.
Qed.
Example ex_harmonic :
  forall i, memZ i [1%Z] = true ->
  mrow_dot Rops exL i (opt_first Rops exsolve (cneg Rops) exL exvar0 [1%Z] [0%Z; 2%Z]) = c0 Rops.
Proof.
  destruct ex_harmonic_hyps as [Hp Hs].
  exact (proj1 (proj2 (harmonic_extension_all R Rops R_laws exsolve (fun x => x) false (cneg Rops) (fun _ => false) 0%nat
                         exL exvar0 [1%Z] [0%Z; 2%Z] (fun w => eq_refl) Hp Hs))).
Qed.

(* C18_flat: a non-trivial flat transport on vertices (e^{i a_xy} = 1 for x < y and -1 for x > y) *)
Example ex_flat_tr : flat_tr R Rops (fun x y => if (x <? y)%Z then (1, 0) else (-1, 0)).
Proof.
  intros x y Hxy. destruct (x <? y)%Z eqn:E1, (y <? x)%Z eqn:E2;
    try (apply Z.ltb_lt in E1); try (apply Z.ltb_lt in E2); try (apply Z.ltb_ge in E1); try (apply Z.ltb_ge in E2);
    try (exfalso; apply Hxy; apply Z.le_antisymm; assumption); try (exfalso; apply (Z.lt_asymm _ _ E1 E2));
    unfold cmul, cconj, cneg, c1; cbn; f_equal; ring.
Qed.
Example ex_faces_distinct : faces_distinct [(0, 1, 2); (0, 2, 3)]%Z.
Proof. intros p q r [H | [H | []]]; inversion H; subst; repeat split; discriminate. Qed.

(* C18_index_sum: the edge list of a triangle *)
Example ex_edges_ok : edges_ok 3 [(0, 1); (1, 2); (0, 2)]%Z.
Proof. intros a b [H | [H | [H | []]]]; inversion H; subst; repeat split; try discriminate; apply Z.leb_le || idtac; cbv; congruence. Qed.

(* C18_gauge: a non-trivial unit gauge (quarter turns on the even faces) *)
Example ex_gauge_unit : forall t : Z, unitc R Rops (if Z.even t then (0, 1) else (1, 0)).
Proof. intros t. unfold unitc, cnorm2. destruct (Z.even t); cbn; ring. Qed.

(* C18_index_quantum_partial: x |-> (cos x, sin x) turns sums into products and 0 into 1 *)
Example ex_cis :
  (forall x y : R, (cos (x + y), sin (x + y)) = cmul Rops (cos x, sin x) (cos y, sin y)) /\ (cos 0, sin 0) = c1 Rops.
Proof.
  split.
  - intros x y. unfold cmul. cbn. rewrite cos_plus, sin_plus. f_equal; ring.
  - rewrite cos_0, sin_0. reflexivity.
Qed.

Local Close Scope R_scope.

(* C18_constraint: a square cut in two, only the edge 0-1 is a feature edge; face 0 = (0,1,2) has exactly this feature edge.
   The combinatorial hypotheses hold for every numeric type and every coordinates... *)
Section ExCstr.
Context {T : Type} (O : ops T).
Definition exF : list face := [(0, 1, 2); (0, 2, 3)]%Z.
Definition exE : list edge := [(0, 1); (1, 2); (0, 2); (2, 3); (0, 3)]%Z.
Definition exFE : list Z := [0%Z].
Example ex_cstr_comb (order : nat) (V : list (vec T)) :
  conn_face exE exFE (znth exF 0 ((0, 0, 0)%Z : face)) = (0, 1, 2)%Z /\
  (forall e, In e exFE -> forall kv, In kv (cstrf_writes O order V exF exE (conn_bases O V exF exE exFE) e) -> fst kv = 0%Z ->
             znth exE e (0, 0)%Z = (0, 1)%Z \/ znth exE e (0, 0)%Z = (1, 0)%Z) /\
  (exists kv, In kv (init_faces_writes O order V exF exE exFE) /\ fst kv = 0%Z).
Proof.
  split; [reflexivity |]. split.
  - intros e [He | []] kv _ _. subst e. left. reflexivity.
  - unfold init_faces_writes, exFE. cbn [flat_map]. unfold cstrf_writes. cbn [znth exE Z.ltb nth Z.to_nat Z.compare].
    change (direct_face exF 0 1) with (Some 0%Z). change (direct_face exF 1 0) with (@None Z). cbn [flat_map app].
    destruct (bnth O (conn_bases O V exF exE exFE) 0) as [X Y]. eexists. split; [left; reflexivity | reflexivity].
Qed.
End ExCstr.
(* ... and the three sqrt facts about s = |pB - pA| hold in R (pA = (0,0,0), pB = (3,4,0): s = 5) *)
Example ex_cstr_sqrt :
  let d := vsub Rops (3, 4, 0)%R (0, 0, 0)%R in let s := vnorm Rops d in
  (s * s = vdot Rops d d /\ s <> 0 /\ sqrt (s * s) = s)%R.
Proof.
  cbn. assert (E : (sqrt ((3 - 0) * (3 - 0) + (4 - 0) * (4 - 0) + (0 - 0) * (0 - 0)) = 5)%R).
  { replace ((3 - 0) * (3 - 0) + (4 - 0) * (4 - 0) + (0 - 0) * (0 - 0))%R with (5 * 5)%R by ring. apply sqrt_square. lra. }
  rewrite E. repeat split; [ring | lra | apply sqrt_square; lra].
Qed.

(* ================================================================== refutations (faithful model, exact rationals) *)
(* The general form of the constraint clause - "the stored value is u^order for the unit direction u of the feature edge in
   the basis of the face" - is FALSE of the code for order <> 4: with c = (3, 4), u = (3/5, 4/5), order 2 the code stores
   u^4 = (-527/625, -336/625) while u^2 = (-7/25, 24/25).  (On a face whose basis is aligned with its only feature edge
   u = (+-1, 0) and both are (1, 0): C18_constraint.) *)
Definition cstr_general : Prop :=
  forall (order : nat) (c : cx Q), cstrf_value Qops order c = cpow Qops (cunit Qops c) order.
Lemma cstr_general_refuted : ~ cstr_general.
Proof. intros H. specialize (H 2%nat (3 # 1, 4 # 1)%Q). vm_compute in H. discriminate H. Qed.
(* and no branch of the stored value is tangent to the edge: the two square roots of u^4 are +-u^2, none is +-u *)
Lemma cstr_general_no_branch :
  let u := cunit Qops (3 # 1, 4 # 1)%Q in
  cpow Qops u 2 <> cstrf_value Qops 2 (3 # 1, 4 # 1)%Q /\ cpow Qops (cneg Qops u) 2 <> cstrf_value Qops 2 (3 # 1, 4 # 1)%Q.
Proof. split; vm_compute; discriminate. Qed.

(* Unit modulus without the guard is FALSE: normalize leaves a zero entry at zero *)
Definition unit_unguarded : Prop := forall z : cx Q, cnorm2 Qops (norm_elem Qops z) = 1%Q.
Lemma unit_unguarded_refuted : ~ unit_unguarded.
Proof. intros H. specialize (H (c0 Qops)). vm_compute in H. discriminate H. Qed.
