(* C18 - normalisation, constrained elements, harmonic extension.  Over an arbitrary field with Leibniz equality (section
   hypothesis; axiom-free).  The square root and the order enter through three named laws:
     Hsqrt  : sqrt is a square root on sums of two squares       osqrt (a*a + b*b) ^ 2 = a*a + b*b
     Hsqrt1 : osqrt 1 = 1
     Hthr   : the normalisation threshold is not below zero      (thr < 0) = false
   (all three hold in R: Examples.v).  The linear solver is a section variable: the theorems hold for EVERY solver whose
   answer satisfies the system it is handed (Hsolve), which each run checks on the recorded scipy answer. *)
From Coq Require Import ZArith List Bool Ring Field Lia.
Import ListNotations.
Require Import MV.Lib.Base MV.C18.Ops MV.C18.Gen MV.C18.Model MV.C18.Proofs_Herm.
Open Scope Z_scope.

Section Opt.
Variable T : Type.
Variable O : ops T.
Hypothesis Fth : field_theory (o0 O) (o1 O) (oadd O) (omul O) (osub O) (oopp O) (odiv O) (oinv O) eq.
Add Field FieldT : Fth.
Let Rth := F_R Fth.

Declare Scope F_scope.
Notation "0" := (o0 O) : F_scope.
Notation "1" := (o1 O) : F_scope.
Notation "x + y" := (oadd O x y) : F_scope.
Notation "x * y" := (omul O x y) : F_scope.
Notation "x - y" := (osub O x y) : F_scope.
Notation "x / y" := (odiv O x y) : F_scope.
Notation "- x" := (oopp O x) : F_scope.
Delimit Scope F_scope with F.
Local Open Scope F_scope.

Notation cx := (cx T).
Notation cmat := (cmat T).

Ltac cxr := unfold cadd, csub, cmul, cconj, cneg, cscale, cofre, cdivr, cnorm2, c0, c1; cbn [fst snd]; f_equal; ring.

Hypothesis Hsqrt : forall a b : T, osqrt O (a * a + b * b) * osqrt O (a * a + b * b) = a * a + b * b.
Hypothesis Hsqrt1 : osqrt O 1 = 1.
Hypothesis Hthr : oltb O (oofQ O norm_thr) 0 = false.

Lemma one_nz : (1 : T) <> 0.
Proof. intro H. exact (F_1_neq_0 Fth H). Qed.

Lemma cabs_sq (z : cx) : cabs O z * cabs O z = cnorm2 O z.
Proof. unfold cabs, cnorm2. apply Hsqrt. Qed.

(* ------------------------------------------------------------------ C18_unit *)
Lemma guard_nz (a : T) : norm_guard O a = true -> a <> 0.
Proof. unfold norm_guard. intros H E. rewrite E, Hthr in H. discriminate. Qed.

Theorem norm_elem_unit_modulus (z : cx) :
  norm_guard O (cabs O z) = true -> cnorm2 O (norm_elem O z) = 1.
Proof.
  intros H. unfold norm_elem. rewrite H.
  pose proof (guard_nz _ H) as Hs. pose proof (cabs_sq z) as Hq.
  set (s := cabs O z) in *. unfold cdivr, cnorm2 in *. cbn [fst snd].
  transitivity ((fst z * fst z + snd z * snd z) / (s * s)); [field; exact Hs |].
  rewrite <- Hq. field. exact Hs.
Qed.

(* a unit element is left as it is, whichever way the guard falls *)
Theorem norm_elem_fix (z : cx) : cnorm2 O z = 1 -> norm_elem O z = z.
Proof.
  intros H. unfold norm_elem, cabs. rewrite H, Hsqrt1.
  destruct (norm_guard O 1); [| reflexivity].
  unfold cdivr. rewrite (cx_eta T z) at 3. f_equal; field; exact one_nz.
Qed.

Section Pipeline.
Variable solve : cmat -> list Z -> (Z -> cx) -> (Z -> cx).
Variable smooth : (Z -> cx) -> (Z -> cx).
Variables (er : bool) (rhs : cx -> cx) (sg : Z -> bool) (n_smooth : nat).
Variables (L : cmat) (var0 : Z -> cx) (free fixed : list Z).

Let pre := opt_pre O solve smooth rhs sg n_smooth L var0 free fixed.
Let out := opt_bordered O solve smooth er rhs sg n_smooth L var0 free fixed.

Theorem opt_unit (i : Z) :
  er && isnil free = false -> norm_guard O (cabs O (pre i)) = true -> cnorm2 O (out i) = 1.
Proof.
  intros He Hg. subst out pre. unfold opt_bordered. rewrite He. unfold normalize_fn.
  apply norm_elem_unit_modulus. exact Hg.
Qed.

(* ---- constrained elements: whatever the solver and the smoothing steps answer, an element outside the free set keeps
   its constraint up to normalisation, and keeps it exactly when the constraint has modulus 1 *)
Fixpoint iter_norm (k : nat) (z : cx) : cx := match k with 0%nat => z | S k' => iter_norm k' (norm_elem O z) end.

Lemma smooth_loop_fixed k var i : memZ i free = false -> smooth_loop O smooth k free var i = iter_norm k (var i).
Proof.
  revert var. induction k as [|k IH]; intros var Hi; cbn [smooth_loop iter_norm]; [reflexivity |].
  rewrite IH by exact Hi. unfold scatter. rewrite Hi. reflexivity.
Qed.
Lemma iter_norm_unit k z : cnorm2 O z = 1 -> iter_norm k z = z.
Proof. revert z. induction k as [|k IH]; intros z H; cbn [iter_norm]; [reflexivity |]. rewrite (norm_elem_fix z H). apply IH, H. Qed.

Theorem opt_pre_fixed (i : Z) :
  memZ i free = false -> pre i = if sg (Z.of_nat n_smooth) then iter_norm n_smooth (var0 i) else var0 i.
Proof.
  intros Hi. subst pre. unfold opt_pre.
  assert (E : opt_first O solve rhs L var0 free fixed i = var0 i) by (unfold opt_first, scatter; rewrite Hi; reflexivity).
  destruct (sg (Z.of_nat n_smooth)); [rewrite smooth_loop_fixed by exact Hi; rewrite E; reflexivity | exact E].
Qed.

Theorem opt_constraint_kept (i : Z) :
  memZ i free = false -> cnorm2 O (var0 i) = 1 -> out i = var0 i.
Proof.
  intros Hi Hu. subst out. unfold opt_bordered. destruct (er && isnil free); [reflexivity |].
  unfold normalize_fn. fold pre. rewrite (opt_pre_fixed i Hi).
  destruct (sg (Z.of_nat n_smooth)); rewrite ?(iter_norm_unit _ _ Hu); apply norm_elem_fix, Hu.
Qed.

(* ------------------------------------------------------------------ C18_harmonic_extension *)
Lemma cadd_c0_r (a : cx) : cadd O a (c0 O) = a.
Proof. rewrite (cx_eta T a) at 2. cxr. Qed.

(* (M x)_i is additive in x on the columns of M *)
Lemma mrow_dot_split (M : cmat) (i : Z) (x y z : Z -> cx) :
  (forall a b v, In (a, b, v) M -> z b = cadd O (x b) (y b)) ->
  mrow_dot O M i z = cadd O (mrow_dot O M i x) (mrow_dot O M i y).
Proof.
  induction M as [|[[a b] v] M IH]; intros H; cbn [mrow_dot].
  - cxr.
  - rewrite IH by (intros a' b' v' Hin; apply (H a' b' v'); right; exact Hin).
    destruct (a =? i)%Z; [| reflexivity].
    rewrite (H a b v (or_introl eq_refl)). cxr.
Qed.
Lemma mrow_dot_ext (M : cmat) (i : Z) (x y : Z -> cx) :
  (forall a b v, In (a, b, v) M -> x b = y b) -> mrow_dot O M i x = mrow_dot O M i y.
Proof.
  induction M as [|[[a b] v] M IH]; intros H; cbn [mrow_dot]; [reflexivity |].
  rewrite IH by (intros a' b' v' Hin; apply (H a' b' v'); right; exact Hin).
  rewrite (H a b v (or_introl eq_refl)). reflexivity.
Qed.

(* free and fixed partition the columns of the operator *)
Definition partitioned : Prop :=
  forall a b v, In (a, b, v) L -> memZ b free = negb (memZ b fixed).

Hypothesis Hrhs : forall w, rhs w = cneg O w.
(* the solver's answer satisfies  L_II res = rhs  on the free rows (its values elsewhere are never read) *)
Definition solves (res : Z -> cx) : Prop :=
  forall i, memZ i free = true -> mrow_dot O L i (mask O free res) = opt_rhs_fn O rhs L fixed var0 i.

(* the raw (un-normalised) field: constraint on the fixed set, solver answer on the free set *)
Let z := opt_first O solve rhs L var0 free fixed.

Theorem harmonic_extension :
  partitioned -> solves (solve L free (opt_rhs_fn O rhs L fixed var0)) ->
  (* z extends the constraints *)
  (forall j, memZ j free = false -> z j = var0 j) /\
  (* z is harmonic at every free element: (L z)_i = 0, i.e. L_II z_I = - L_IB z_B *)
  (forall i, memZ i free = true -> mrow_dot O L i z = c0 O) /\
  (* without smoothing the result is the element-wise normalisation of z *)
  (sg (Z.of_nat n_smooth) = false -> er && isnil free = false -> forall i, out i = norm_elem O (z i)).
Proof.
  intros Hpart Hsol. split; [| split].
  - intros j Hj. subst z. unfold opt_first, scatter. rewrite Hj. reflexivity.
  - intros i Hi. set (res := solve L free (opt_rhs_fn O rhs L fixed var0)) in *.
    rewrite (mrow_dot_split L i (mask O free res) (mask O fixed var0) z).
    + rewrite (Hsol i Hi). unfold opt_rhs_fn. rewrite Hrhs. cxr.
    + intros a b v Hin. subst z. unfold opt_first, scatter, mask. fold res.
      rewrite (Hpart a b v Hin). destruct (memZ b fixed); cbn [negb]; symmetry; [apply (cadd_c0_l T O Rth) | apply cadd_c0_r].
  - intros Hs He i. subst out. unfold opt_bordered. rewrite He. unfold normalize_fn, opt_pre. rewrite Hs. reflexivity.
Qed.

End Pipeline.

(* ------------------------------------------------------------------ the partition computed by the code *)
Lemma memZ_In x l : memZ x l = true <-> In x l.
Proof.
  unfold memZ. rewrite existsb_exists. split.
  - intros [y [Hy E]]. apply Z.eqb_eq in E. subst. exact Hy.
  - intros H. exists x. split; [exact H | apply Z.eqb_refl].
Qed.
Lemma memZ_filter x n (f : Z -> bool) : memZ x (filter f (zrange n)) = ((0 <=? x) && (x <? n))%Z && f x.
Proof.
  apply eq_true_iff_eq. rewrite memZ_In, filter_In, In_zrange, !andb_true_iff, Z.leb_le, Z.ltb_lt. tauto.
Qed.
Theorem partition_spec (n : Z) (fb : Z -> bool) (M : cmat) :
  (forall a b v, In (a, b, v) M -> (0 <= b < n)%Z) ->
  forall a b v, In (a, b, v) M -> memZ b (part_free n fb) = negb (memZ b (part_fixed n fb)).
Proof.
  intros Hr a b v Hin. unfold part_free, part_fixed. rewrite !memZ_filter.
  pose proof (Hr a b v Hin) as [H1 H2].
  apply Z.leb_le in H1. apply Z.ltb_lt in H2. rewrite H1, H2. cbn [andb]. reflexivity.
Qed.

End Opt.
