import numpy as np, time, cmath, math, sys, traceback
import mouette as M
from mouette import framefield as ff
def mk(V,F):
    d = M.mesh.RawMeshData()
    d.vertices += [M.Vec(*v) for v in V]
    d.faces += [tuple(f) for f in F]
    return M.mesh.SurfaceMesh(d)
V=[(0,0,0),(2,0,0),(2,2,0),(0,2,0)]; F=[(0,1,2),(0,2,3)]
for elem in ("vertices","faces"):
    for order in (3,4):
        m=mk(V,F)
        try:
            f = ff.SurfaceFrameField(m, elem, order=order, features=False, n_smooth=0, verbose=False, cad_correction=False)
            f.run(); print(elem, order, f.var)
        except Exception as ex:
            print(elem, order, "EXC", type(ex).__name__, ex)
