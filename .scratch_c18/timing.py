import json, sys, os, subprocess, time, random
sys.path.insert(0, "/verif")
from vf.props import C18
from vf import core
rng = random.Random(5)
cases = [C18.make_case(rng, "quick") for _ in range(12)]
cases = [c for c in cases if c["elem"]=="faces"]
res = C18.run_cases_impl(cases)
terms = [C18.faces_term(c, r["obs"]) for c, r in zip(cases, res)]
print([ (c["kind"], len(c["F"]), len(t)) for c,t in zip(cases, terms)])
for k,(c,t) in enumerate(zip(cases, terms)):
    body = C18.HEADER + "\nDefinition c := %s.\n" % t
    open("/verif/.scratch_c18/dbg/T.v","w").write(body)
    t0=time.time(); subprocess.run("cd /verif/coq && timeout 300 coqc -Q theories MV /verif/.scratch_c18/dbg/T.v", shell=True, capture_output=True); t1=time.time()
    open("/verif/.scratch_c18/dbg/T.v","w").write(body + "Eval vm_compute in (check_faces c).\n")
    subprocess.run("cd /verif/coq && timeout 300 coqc -Q theories MV /verif/.scratch_c18/dbg/T.v", shell=True, capture_output=True); t2=time.time()
    print(c["kind"], len(c["F"]), "parse %.2f total %.2f" % (t1-t0, t2-t1))
