#!/bin/bash
# wave 2: seedqueue2.sh PID...  (seeds in /tmp/seed/out2-PID/<k>, stored as seeded/PID-t<k>)
for p in "$@"; do
  git -C /repo worktree remove --force /tmp/seed/wt2-$p >/dev/null 2>&1
  for k in 1 2 3; do
    [ -f /tmp/seed/out2-$p/$k/patch.diff ] || continue
    PYTHONPATH=/verif:/repo /venv/bin/python -m vf.seedtest $p /tmp/seed/out2-$p/$k t$k > /tmp/seed/test2-$p-$k.log 2>&1
  done
done
