#!/bin/bash
# usage: seedsetup.sh PID N  -> creates worktree /tmp/seed/wt-PID and prints the prompt
PID=$1; N=$2
mkdir -p /tmp/seed
git -C /repo worktree remove --force /tmp/seed/wt-$PID >/dev/null 2>&1
git -C /repo worktree add --detach /tmp/seed/wt-$PID HEAD >/dev/null 2>&1
/venv/bin/python /verif/.agents/mkseedprompt.py $PID $N > /tmp/seed/prompt-$PID.txt; echo /tmp/seed/prompt-$PID.txt
