#!/bin/bash
# benignsetup.sh PID N -> worktree /tmp/seed/wtb-PID, prompt /tmp/seed/promptb-PID.txt, output /tmp/seed/outb-PID
PID=$1; N=$2
mkdir -p /tmp/seed
git -C /repo worktree remove --force /tmp/seed/wtb-$PID >/dev/null 2>&1
git -C /repo worktree add --detach /tmp/seed/wtb-$PID HEAD >/dev/null 2>&1
/venv/bin/python /verif/.agents/mkbenignprompt.py $PID $N > /tmp/seed/promptb-$PID.txt
echo /tmp/seed/promptb-$PID.txt
