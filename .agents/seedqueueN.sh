#!/bin/bash
# seedqueueN.sh W LETTER PID...
W=$1; L=$2; shift 2
for p in "$@"; do
  git -C /repo worktree remove --force /tmp/seed/wt$W-$p >/dev/null 2>&1
  for k in 1 2 3 4; do
    [ -f /tmp/seed/out$W-$p/$k/patch.diff ] || continue
    PYTHONPATH=/verif:/repo /venv/bin/python -m vf.seedtest $p /tmp/seed/out$W-$p/$k $L$k > /tmp/seed/test$W-$p-$k.log 2>&1
  done
done
