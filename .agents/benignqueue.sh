#!/bin/bash
# benignqueue.sh PID...
for p in "$@"; do
  git -C /repo worktree remove --force /tmp/seed/wtb-$p >/dev/null 2>&1
  for k in 1 2 3 4; do
    [ -f /tmp/seed/outb-$p/$k/patch.diff ] || continue
    PYTHONPATH=/verif:/repo /venv/bin/python -m vf.benigntest $p /tmp/seed/outb-$p/$k b$k > /tmp/seed/testb-$p-$k.log 2>&1
  done
done
