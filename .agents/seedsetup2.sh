#!/bin/bash
# second wave: seedsetup2.sh PID N -> worktree /tmp/seed/wt2-PID, prompt /tmp/seed/prompt2-PID.txt, output /tmp/seed/out2-PID
PID=$1; N=$2
mkdir -p /tmp/seed
git -C /repo worktree remove --force /tmp/seed/wt2-$PID >/dev/null 2>&1
git -C /repo worktree add --detach /tmp/seed/wt2-$PID HEAD >/dev/null 2>&1
/venv/bin/python /verif/.agents/mkseedprompt.py $PID $N | sed "s#/tmp/seed/wt-$PID#/tmp/seed/wt2-$PID#g; s#/tmp/seed/out-$PID#/tmp/seed/out2-$PID#g" > /tmp/seed/prompt2-$PID.txt
{
echo
echo "Changes of the following kinds were ALREADY produced by an earlier engineer for this property - produce DIFFERENT ones (other functions, other mechanisms; favour: state carried between calls on one object, caches that go stale, order of calls, objects shared between two results, unusual but legal argument forms, boundary values of parameters, rarely taken branches):"
for d in /verif/seeded/$PID-s*; do
  [ -f $d/note.md ] && grep -v '^#' $d/note.md | grep -v '^\s*$' | head -3 | cut -c1-300 | sed 's/^/  - /'
  [ -f $d/patch.diff ] && grep '^+++ ' $d/patch.diff | sed 's/^/    file: /'
done
} >> /tmp/seed/prompt2-$PID.txt
echo /tmp/seed/prompt2-$PID.txt
