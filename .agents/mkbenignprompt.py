import json, sys
pid, n = sys.argv[1], int(sys.argv[2])
brief = open('/verif/.agents/BENIGN_BRIEF.md').read().split('\n',1)[1]
for l in open('/verif/properties.jsonl'):
    p = json.loads(l)
    if p['id'] == pid:
        break
wt = "/tmp/seed/wtb-%s" % pid
txt = brief.replace("<worktree>/../benign-out-<ID>", "/tmp/seed/outb-%s" % pid).replace("<worktree>", wt).replace("N (given below)", str(n)).replace("1..N", "1..%d" % n).replace("the N changes", "the %d changes" % n)
print(txt)
print("\nYour worktree: %s\nN = %d\n\nThe property (id %s, \"%s\"):\n%s\n\nIt is quantified over: %s\n\nFiles of the library it concerns: %s\n" % (wt, n, pid, p['title'], p['statement'], p['quantifier']['text'], ", ".join(p['anchors']['files'])))
