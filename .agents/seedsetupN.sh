#!/bin/bash
# wave W: seedsetupN.sh W PID N -> worktree /tmp/seed/wtW-PID, prompt /tmp/seed/promptW-PID.txt, output /tmp/seed/outW-PID
W=$1; PID=$2; N=$3
mkdir -p /tmp/seed
git -C /repo worktree remove --force /tmp/seed/wt$W-$PID >/dev/null 2>&1
git -C /repo worktree add --detach /tmp/seed/wt$W-$PID HEAD >/dev/null 2>&1
/venv/bin/python /verif/.agents/mkseedprompt.py $PID $N | sed "s#/tmp/seed/wt-$PID#/tmp/seed/wt$W-$PID#g; s#/tmp/seed/out-$PID#/tmp/seed/out$W-$PID#g" > /tmp/seed/prompt$W-$PID.txt
{
echo
echo "Changes of the following kinds were ALREADY produced by earlier engineers for this property - produce DIFFERENT ones (other functions, other mechanisms). Favour slips that stay invisible in ordinary single calls: state carried between calls on one object, caches, order of calls, two results sharing an object, unusual but legal argument forms or numeric types, boundary values of parameters, rarely taken branches, two cooperating sites that each look fine alone, behaviour after an exception was raised and caught:"
for d in /verif/seeded/$PID-[stuv]*; do
  [ -f $d/note.md ] && grep -v '^#' $d/note.md | grep -v '^\s*$' | head -2 | cut -c1-260 | sed 's/^/  - /'
done
} >> /tmp/seed/prompt$W-$PID.txt
echo /tmp/seed/prompt$W-$PID.txt
