#!/bin/bash
# usage: seedqueue.sh PID...   runs the 4 seedtests of each PID sequentially (one PID after another)
for p in "$@"; do
  git -C /repo worktree remove --force /tmp/seed/wt-$p >/dev/null 2>&1
  for k in 1 2 3 4; do
    [ -d /tmp/seed/out-$p/$k ] || continue
    PYTHONPATH=/verif:/repo /venv/bin/python -m vf.seedtest $p /tmp/seed/out-$p/$k s$k > /tmp/seed/test-$p-$k.log 2>&1
  done
done
