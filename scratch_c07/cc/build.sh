#!/bin/bash
cd /verif/scratch_c07/cc
for f in Lib/Base Lib/FloatLit C07/Model C07/Gen C07/Mesh C07/Run C07/Proofs_Base C07/Proofs_Rigid C07/Proofs_MeshRigid C07/Proofs_Angles C07/Proofs_Interp C07/Proofs_GB C07/Proofs_Renum "$@"; do
  if [ ! -f theories/$f.vo ] || [ theories/$f.v -nt theories/$f.vo ]; then
    timeout 600 coqc -Q theories MV theories/$f.v 2>&1 | grep -v conda.cli || true
  fi
done
