(* GENERATED on every run by vf/translate from /repo - do not edit, not committed.
   C07: formulas of geometry.py and attributes/*.py over the operations record
   source geometry.py:cross sha256/16=f167b95d78abb2ec
   source geometry.py:norm sha256/16=0011e42c9cdc6f31
   source geometry.py:distance sha256/16=60aec652cd2e163a
   source geometry.py:cotan sha256/16=482bcfedbdf68464
   source geometry.py:angle_3pts sha256/16=8511731f29a4c831
   source geometry.py:triangle_area sha256/16=51e099ecd5197864
   source geometry.py:quad_area sha256/16=1f8a1e90769b6dbb
   source geometry.py:det_3x3 sha256/16=f8aa99dcd1d69a1e
   source geometry.py:face_basis sha256/16=52c9cd70ec1fec92
   source geometry.py:det_2x2 sha256/16=d06b13b741883aae
   source geometry.py:intersect_2lines2D sha256/16=4c412c8ec13782ef
   source geometry.py:circumcenter sha256/16=d86db0542638711b
   source attr_faces.py:face_circumcenter sha256/16=f2c81cc1f5a491a3
   source attr_edges.py:edge_length sha256/16=863395b1d0f3902b
   source attr_edges.py:edge_middle_point sha256/16=a536b81145cefb9e
   source attr_edges.py:cotan_weights sha256/16=0e8369299d9ede52
   source attr_faces.py:face_area sha256/16=1784c08235ccdec0
   source attr_faces.py:face_normals sha256/16=9146bee44f8a89de
   source attr_faces.py:face_barycenter sha256/16=b5e5fea32fb379cc
   source attr_corners.py:corner_angles sha256/16=0d0a9283d3ee1c66
   source attr_corners.py:cotangent sha256/16=23bb03308749a6e3
   source attr_vertices.py:angle_defects sha256/16=cec3ceceddac6a65
   source attr_vertices.py:degree sha256/16=ed0a830a89a1c7c2
   source attr_vertices.py:vertex_normals sha256/16=c8174b3d39a56e07
   source attr_cells.py:cell_volume sha256/16=1e66882cbcd466ce
   source attr_cells.py:cell_barycenter sha256/16=f1a583efa340081c
   source glob.py:euler_characteristic sha256/16=4788c40dbe9c206f
   source glob.py:mean_edge_length sha256/16=945427d6e75dc065
   source glob.py:mean_face_area sha256/16=60a269a9d89d04f7
   source glob.py:mean_cell_volume sha256/16=2068c143f2129124
   source glob.py:total_area sha256/16=d96fc7b849e7efef
   source glob.py:barycenter sha256/16=abb0d372caf8616b
   source interpolate.py:interpolate_vertices_to_faces sha256/16=c4b2d5f86e2cd046
   source interpolate.py:interpolate_faces_to_vertices sha256/16=56fb889e8e3afeb6
   source interpolate.py:average_corners_to_vertices sha256/16=5ee555002b6d8bbe
   source interpolate.py:average_corners_to_faces sha256/16=243a04ef77baeaa3
   source interpolate.py:scatter_vertices_to_corners sha256/16=add9b1c2f782d587
   source interpolate.py:scatter_faces_to_corners sha256/16=de1f5e7f698b1b00
*)
From Coq Require Import ZArith List Bool.
Import ListNotations.
Require Import MV.Lib.Base MV.C07.Model.
Open Scope Z_scope.

(* ---- geometry.py *)
Definition g_cross {T : Type} (o : ops T) (A : vec T) (B : vec T) : vec T :=
    ((osub o (omul o (vy A) (vz B)) (omul o (vz A) (vy B))), (osub o (omul o (vx B) (vz A)) (omul o (vz B) (vx A))), (osub o (omul o (vx A) (vy B)) (omul o (vy A) (vx B)))).

Definition g_norm {T : Type} (o : ops T) (x : vec T) : T :=
    (osqrt o (dot o x x)).

Definition g_distance {T : Type} (o : ops T) (A : vec T) (B : vec T) : T :=
    (g_norm o (vsub o B A)).

Definition g_cotan {T : Type} (o : ops T) (A : vec T) (B : vec T) (C : vec T) : T :=
    let A_1 := A in
    let B_1 := B in
    let C_1 := C in
    let BA := (normalized o (vsub o A_1 B_1)) in
    let BC := (normalized o (vsub o C_1 B_1)) in
    let cosine := (dot o BA BC) in
    let sine := (g_norm o (g_cross o BA BC)) in
    (odiv o cosine sine).

Definition g_angle3 {T : Type} (o : ops T) (A : vec T) (B : vec T) (C : vec T) : (T * T)%type :=
    let BA := (vsub o A B) in
    let BC := (vsub o C B) in
    let s := (norm o (g_cross o BA BC)) in
    let c := (dot o BA BC) in
    (c, s).

Definition g_triangle_area {T : Type} (o : ops T) (A : vec T) (B : vec T) (C : vec T) : T :=
    (odiv o (norm o (g_cross o (vsub o B A) (vsub o C A))) (oZ o 2)).

Definition g_quad_area {T : Type} (o : ops T) (A : vec T) (B : vec T) (C : vec T) (D : vec T) : T :=
    (odiv o (oadd o (oadd o (oadd o (g_triangle_area o A B C) (g_triangle_area o A C D)) (g_triangle_area o B C D)) (g_triangle_area o B D A)) (oZ o 2)).

Definition g_det3 {T : Type} (o : ops T) (A B C : vec T) : T :=
    let d := (osub o (osub o (osub o (oadd o (oadd o (omul o (omul o (vx A) (vy B)) (vz C)) (omul o (omul o (vy A) (vz B)) (vx C))) (omul o (omul o (vz A) (vx B)) (vy C))) (omul o (omul o (vx A) (vz B)) (vy C))) (omul o (omul o (vy A) (vx B)) (vz C))) (omul o (omul o (vz A) (vy B)) (vx C))) in
    d.

Definition g_face_basis {T : Type} (o : ops T) (pA pB pC : vec T) : vec T * vec T * vec T :=
    let X := (normalized o (vsub o pB pA)) in
    let Z := (normalized o (g_cross o X (vsub o pC pA))) in
    let Y := (normalized o (g_cross o Z X)) in
    (X, Y, Z).

Definition g_det2 {T : Type} (o : ops T) (A B : (T * T)%type) : T :=
    let ax := (fst A) in
    let ay := (snd A) in
    let bx := (fst B) in
    let by_ := (snd B) in
    (osub o (omul o ax by_) (omul o ay bx)).

(* None when |det| < 1/1000000000000 (the source's literal), i.e. when NOT eps <= |det| *)
Definition g_intersect_2lines2D {T : Type} (o : ops T) (p1 d1 p2 d2 : (T * T)%type) : option (T * T) :=
    if oleb o (odiv o (oZ o 1) (oZ o 1000000000000)) (oabs o (g_det2 o d1 d2)) then Some (
    let n2 := ((snd d2), (osub o (o0 o) (fst d2))) in
    let t := (odiv o (dot2 o (wsub o p2 p1) n2) (dot2 o d1 n2)) in
    (wadd o p1 (wscale o t d1))) else None.

Definition g_circumcenter {T : Type} (o : ops T) (v1 v2 v3 : vec T) : option (vec T) :=
    let '(X, Y, Z) := g_face_basis o v1 v2 v3 in
    let h := (dot o Z v1) in
    let qv1 := (dot o X v1, dot o Y v1) in
    let qv2 := (dot o X v2, dot o Y v2) in
    let qv3 := (dot o X v3, dot o Y v3) in
    let p1 := (wdiv o (wadd o qv1 qv2) (oZ o 2)) in
    let p2 := (wdiv o (wadd o qv1 qv3) (oZ o 2)) in
    let d1 := (wsub o qv2 qv1) in
    let d2 := (wsub o qv3 qv1) in
    let d1_1 := ((snd d1), (osub o (o0 o) (fst d1))) in
    let d2_1 := ((snd d2), (osub o (o0 o) (fst d2))) in
    match g_intersect_2lines2D o p1 d1_1 p2 d2_1 with
    | Some S_ => Some (vadd o (vadd o (vscale o (fst S_) X) (vscale o (snd S_) Y)) (vscale o h Z))
    | None => None
    end.

(* ---- attributes/attr_*.py, glob.py *)
Definition g_edge_length {T : Type} (o : ops T) (pA pB : vec T) : T :=
    (g_distance o pA pB).

Definition g_edge_middle {T : Type} (o : ops T) (pA pB : vec T) : vec T :=
    (vdiv o (vadd o pA pB) (oZ o 2)).

(* cotan_weights: one entry per half-edge lookup: (arguments are (B,A)?, results unpacked as (iB,iA)?) *)
Definition g_cw_calls : list (bool * bool) := [(false, false); (true, true)].

Definition g_cw_corner (k : nat) (first iA iB : Z) : Z :=
    match k with | O => (((first + 3) - iA) - iB) | (S O) => (((first + 3) - iA) - iB) | _ => 0 end.

Definition g_cw_term {T : Type} (o : ops T) (k : nat) (x : T) : T :=
    match k with | O => (odiv o x (oZ o 2)) | (S O) => (odiv o x (oZ o 2)) | _ => x end.

Definition g_face_area {T : Type} (o : ops T) (pts : list (vec T)) : T :=
    let npt := zlen pts in
    if (npt =? 3)%Z then (g_triangle_area o (znth pts 0 (vzero o)) (znth pts 1 (vzero o)) (znth pts 2 (vzero o))) else
    if (npt =? 4)%Z then (g_quad_area o (znth pts 0 (vzero o)) (znth pts 1 (vzero o)) (znth pts 2 (vzero o)) (znth pts 3 (vzero o))) else
    let bary := (vdiv o (vsum o pts) (oZ o npt)) in
    fold_left (fun acc i => oadd o acc (
    let A := (znth pts i (vzero o)) in
    let B := (znth pts ((i + 1) mod npt) (vzero o)) in
    (g_triangle_area o A B bary))) (zrange npt) (o0 o).

Definition g_face_normal {T : Type} (o : ops T) (pA pB pC : vec T) : vec T :=
    (normalized o (g_cross o (vsub o pB pA) (vsub o pC pA))).

Definition g_face_bary {T : Type} (o : ops T) (pts : list (vec T)) : vec T :=
    (vdiv o (vsum o pts) (oZ o (zlen pts))).

Definition g_corner_vertices (face : list Z) (n i : Z) : Z * Z * Z :=
    ((znth face ((i - 1) mod n) 0), (znth face i 0), (znth face ((i + 1) mod n) 0)).

Definition g_corner_angle {T : Type} (o : ops T) (pPrev pV pNext : vec T) : (T * T)%type :=
    (g_angle3 o pPrev pV pNext).

Definition g_cot_stride : Z := 3.

Definition g_cot_face {T : Type} (o : ops T) (pA pB pC : vec T) : list T :=
    [(g_cotan o pC pA pB);
     (g_cotan o pA pB pC);
     (g_cotan o pB pC pA)].

Definition g_defect_init {T : Type} (o : ops T) (pi : T) : T :=
    (omul o (oZ o 2) pi).

Definition g_defect_border {T : Type} (o : ops T) (zero_border : bool) (pi : T) : T :=
    if zero_border then (oZ o 0) else pi.

Definition g_defect_skip (on_border zero_border : bool) : bool :=
    (on_border && zero_border).

Definition g_defect_step {T : Type} (o : ops T) (d a : T) : T :=
    osub o d a.

Definition g_degree_ends (a b : Z) : list Z :=
    [a; b].

Definition g_vertex_normal_finish {T : Type} (o : ops T) (x : vec T) : vec T :=
    normalized o x.

Definition g_cell_volume {T : Type} (o : ops T) (pA pB pC pD : vec T) : T :=
    (odiv o (oabs o (g_det3 o (vsub o pA pD) (vsub o pB pD) (vsub o pC pD))) (oZ o 6)).

Definition g_cell_bary {T : Type} (o : ops T) (pts : list (vec T)) : vec T :=
    (vdiv o (vsum o pts) (oZ o (zlen pts))).

Definition g_euler (v e f : Z) : Z :=
    ((v - e) + f).

Definition g_mean_edge_length_n (n len_ : Z) : Z :=
    (Z.min n len_).

Definition g_mean_edge_length_count (n len_ : Z) : Z :=
    (Z.min n len_).

Definition g_mean_edge_length_item {T : Type} (o : ops T) (a b : vec T) : T :=
    (norm o (vsub o b a)).

Definition g_mean_edge_length_result {T : Type} (o : ops T) (acc : T) (n : Z) : T :=
    (odiv o acc (oZ o n)).

Definition g_mean_face_area_n (n len_ : Z) : Z :=
    (Z.min n len_).

Definition g_mean_face_area_count (n len_ : Z) : Z :=
    (Z.min n len_).

Definition g_mean_face_area_result {T : Type} (o : ops T) (acc : T) (n : Z) : T :=
    (odiv o acc (oZ o n)).

Definition g_mean_cell_volume_n (n len_ : Z) : Z :=
    (Z.min n len_).

Definition g_mean_cell_volume_count (n len_ : Z) : Z :=
    (Z.min n len_).

Definition g_mean_cell_volume_result {T : Type} (o : ops T) (acc : T) (n : Z) : T :=
    (odiv o acc (oZ o n)).

Definition g_total_area {T : Type} (o : ops T) (farea : list T) : T :=
    ssum o farea.

Definition g_barycenter {T : Type} (o : ops T) (pts : list (vec T)) : vec T :=
    (vdiv o (vsum o pts) (oZ o (zlen pts))).

(* ---- interpolate.py: formulas over an abstract value type A (scalars or vectors) *)
Definition g_v2f_acc {T : Type} (o : ops T) {A : Type} (aadd : A -> A -> A) (ascale : T -> A -> A) (adiv : A -> T -> A) (acc x : A) : A :=
    (aadd acc x).

Definition g_v2f_fin {T : Type} (o : ops T) {A : Type} (aadd : A -> A -> A) (ascale : T -> A -> A) (adiv : A -> T -> A) (acc : A) (n : Z) : A :=
    (adiv acc (oZ o n)).

Definition g_f2v_uniform_fin {T : Type} (o : ops T) {A : Type} (aadd : A -> A -> A) (ascale : T -> A -> A) (adiv : A -> T -> A) (acc : A) (n : Z) : A :=
    (adiv acc (oZ o n)).

Definition g_f2v_area_acc {T : Type} (o : ops T) {A : Type} (aadd : A -> A -> A) (ascale : T -> A -> A) (adiv : A -> T -> A) (acc x : A) (w : T) : A :=
    (aadd acc (ascale w x)).

Definition g_f2v_area_tot {T : Type} (o : ops T) {A : Type} (aadd : A -> A -> A) (ascale : T -> A -> A) (adiv : A -> T -> A) (tot w : T) : T :=
    (oadd o tot w).

Definition g_f2v_area_fin {T : Type} (o : ops T) {A : Type} (aadd : A -> A -> A) (ascale : T -> A -> A) (adiv : A -> T -> A) (acc : A) (tot : T) : A :=
    (adiv acc tot).

Definition g_f2v_angle_acc {T : Type} (o : ops T) {A : Type} (aadd : A -> A -> A) (ascale : T -> A -> A) (adiv : A -> T -> A) (acc x : A) (w : T) : A :=
    (aadd acc (ascale w x)).

Definition g_f2v_angle_tot {T : Type} (o : ops T) {A : Type} (aadd : A -> A -> A) (ascale : T -> A -> A) (adiv : A -> T -> A) (tot w : T) : T :=
    (oadd o tot w).

Definition g_f2v_angle_fin {T : Type} (o : ops T) {A : Type} (aadd : A -> A -> A) (ascale : T -> A -> A) (adiv : A -> T -> A) (acc : A) (tot : T) : A :=
    (adiv acc tot).

Definition g_c2v_uniform_acc {T : Type} (o : ops T) {A : Type} (aadd : A -> A -> A) (ascale : T -> A -> A) (adiv : A -> T -> A) (acc x : A) : A :=
    (aadd acc x).

Definition g_c2v_uniform_fin {T : Type} (o : ops T) {A : Type} (aadd : A -> A -> A) (ascale : T -> A -> A) (adiv : A -> T -> A) (acc : A) (n : Z) : A :=
    (adiv acc (oZ o n)).

Definition g_c2v_sum_acc {T : Type} (o : ops T) {A : Type} (aadd : A -> A -> A) (ascale : T -> A -> A) (adiv : A -> T -> A) (acc x : A) : A :=
    (aadd acc x).

Definition g_c2v_angle_acc {T : Type} (o : ops T) {A : Type} (aadd : A -> A -> A) (ascale : T -> A -> A) (adiv : A -> T -> A) (acc x : A) (w : T) : A :=
    (aadd acc (ascale w x)).

Definition g_c2v_angle_fin {T : Type} (o : ops T) {A : Type} (aadd : A -> A -> A) (ascale : T -> A -> A) (adiv : A -> T -> A) (acc : A) (tot : T) : A :=
    (adiv acc tot).

Definition g_c2f_uniform_acc {T : Type} (o : ops T) {A : Type} (aadd : A -> A -> A) (ascale : T -> A -> A) (adiv : A -> T -> A) (acc x : A) (n : Z) : A :=
    (aadd acc (adiv x (oZ o n))).

Definition g_c2f_angle_acc {T : Type} (o : ops T) {A : Type} (aadd : A -> A -> A) (ascale : T -> A -> A) (adiv : A -> T -> A) (acc x : A) (w : T) : A :=
    (aadd acc (ascale w x)).

Definition g_c2f_angle_fin {T : Type} (o : ops T) {A : Type} (aadd : A -> A -> A) (ascale : T -> A -> A) (adiv : A -> T -> A) (acc : A) (tot : T) : A :=
    (adiv acc tot).
