(* C07 - the real-number instance of the operations record and the "definitions" lemmas:
   every generated formula equals its textbook expression (ring / field / sqrt laws). *)
From Coq Require Import ZArith List Bool Reals Lra Psatz Nsatz.
Require Import MV.Lib.Base MV.C07.Model MV.C07.Gen MV.C07.Mesh.
Import ListNotations.
Open Scope R_scope.

Definition Rleb (a b : R) : bool := if Rle_dec a b then true else false.
Definition Rops : ops R := mkops R 0 1 Rplus Rminus Rmult Rdiv R_sqrt.sqrt Rleb.

Notation V3 := (vec R).
Notation cross := (g_cross Rops).
Notation dotR := (dot Rops).
Notation n2 := (norm2 Rops).
Notation "a -v b" := (vsub Rops a b) (at level 50, left associativity).
Notation "a +v b" := (vadd Rops a b) (at level 50, left associativity).

Lemma vec_eq3 {X} (a b c a' b' c' : X) : a = a' -> b = b' -> c = c' -> (a, b, c) = (a', b', c').
Proof. intros; subst; reflexivity. Qed.

Lemma sumsq_nonneg (a b c : R) : 0 <= a * a + b * b + c * c.
Proof. nra. Qed.

Lemma sumsq_zero (a b c : R) : a * a + b * b + c * c = 0 -> a = 0 /\ b = 0 /\ c = 0.
Proof. intros H. repeat split; nra. Qed.

(* unfold the model down to real arithmetic *)
Ltac unfR :=
  unfold g_triangle_area, g_quad_area, g_cross, g_distance, g_norm, g_det3, g_angle3, g_cotan, g_edge_middle,
    g_edge_length, g_face_normal, g_cell_volume, g_corner_angle, g_face_bary, g_cell_bary, g_barycenter,
    g_vertex_normal_finish, g_mean_edge_length_item,
    normalized, norm, norm2, dot, vsub, vadd, vdiv, vscale, vzero, vx, vy, vz, Rops in *;
  cbn [o0 o1 oadd osub omul odiv osqrt oleb fst snd oZ opos] in *.
Ltac dvec v := let a := fresh v "x" in let b := fresh v "y" in let c := fresh v "z" in destruct v as [[a b] c].

Lemma oZ_IZR (z : Z) : oZ Rops z = IZR z.
Proof.
  assert (P : forall p, opos Rops p = IZR (Zpos p)).
  { induction p as [p IH|p IH|]; cbn [opos Rops o1 oadd omul].
    - rewrite IH. rewrite (Pos2Z.inj_xI p), plus_IZR, mult_IZR. simpl. ring.
    - rewrite IH. rewrite (Pos2Z.inj_xO p), mult_IZR. simpl. ring.
    - reflexivity. }
  destruct z as [|p|p]; cbn [oZ Rops o0 osub]; [reflexivity|apply P|].
  rewrite P. change (Z.neg p) with (- Z.pos p)%Z. rewrite opp_IZR. ring.
Qed.

Lemma n2_nonneg (v : V3) : 0 <= n2 v.
Proof. dvec v. unfR. apply sumsq_nonneg. Qed.

Lemma n2_zero (v : V3) : n2 v = 0 -> v = vzero Rops.
Proof. dvec v. unfR. intros H. apply sumsq_zero in H as (-> & -> & ->). reflexivity. Qed.

(* ---------------------------------------------------------------- geometry.py *)
Lemma cross_def (a b : V3) :
  cross a b = (vy a * vz b - vz a * vy b, vz a * vx b - vx a * vz b, vx a * vy b - vy a * vx b).
Proof. dvec a. dvec b. unfR. apply vec_eq3; ring. Qed.

Lemma cross_anti (a b : V3) : n2 (cross a b) = n2 (cross b a).
Proof. dvec a. dvec b. unfR. ring. Qed.

Lemma dot_sym (a b : V3) : dotR a b = dotR b a.
Proof. dvec a. dvec b. unfR. ring. Qed.

(* Lagrange: |u x v|^2 = |u|^2 |v|^2 - (u.v)^2 *)
Lemma lagrange (u v : V3) : n2 (cross u v) = n2 u * n2 v - dotR u v * dotR u v.
Proof. dvec u. dvec v. unfR. ring. Qed.

Lemma cross_orth_l (u v : V3) : dotR (cross u v) u = 0.
Proof. dvec u. dvec v. unfR. ring. Qed.
Lemma cross_orth_r (u v : V3) : dotR (cross u v) v = 0.
Proof. dvec u. dvec v. unfR. ring. Qed.

Lemma norm_def (v : V3) : g_norm Rops v = sqrt (vx v * vx v + vy v * vy v + vz v * vz v).
Proof. reflexivity. Qed.
Lemma g_norm_norm (v : V3) : g_norm Rops v = norm Rops v.
Proof. reflexivity. Qed.
Lemma norm_unfold (v : V3) : norm Rops v = sqrt (n2 v).
Proof. reflexivity. Qed.
Lemma norm_sq (v : V3) : norm Rops v * norm Rops v = n2 v.
Proof. rewrite norm_unfold. apply sqrt_sqrt, n2_nonneg. Qed.
Lemma norm_nonneg (v : V3) : 0 <= norm Rops v.
Proof. rewrite norm_unfold. apply sqrt_pos. Qed.
Lemma norm_pos (v : V3) : 0 < n2 v -> 0 < norm Rops v.
Proof. intros H. rewrite norm_unfold. now apply sqrt_lt_R0. Qed.

Lemma distance_def (A B : V3) :
  g_distance Rops A B = sqrt ((vx B - vx A) * (vx B - vx A) + (vy B - vy A) * (vy B - vy A) + (vz B - vz A) * (vz B - vz A)).
Proof. reflexivity. Qed.
Lemma distance_sq (A B : V3) : g_distance Rops A B * g_distance Rops A B = n2 (B -v A).
Proof. apply norm_sq. Qed.

Lemma triangle_area_def (A B C : V3) :
  g_triangle_area Rops A B C = norm Rops (cross (B -v A) (C -v A)) / 2.
Proof. unfold g_triangle_area. cbn [oZ opos Rops odiv oadd omul o1]. f_equal. ring. Qed.

(* 4 area^2 = |(B-A) x (C-A)|^2 *)
Lemma triangle_area_sq (A B C : V3) :
  4 * (g_triangle_area Rops A B C * g_triangle_area Rops A B C) = n2 (cross (B -v A) (C -v A)).
Proof. rewrite triangle_area_def, <- norm_sq. field. Qed.

Lemma triangle_area_nonneg (A B C : V3) : 0 <= g_triangle_area Rops A B C.
Proof. rewrite triangle_area_def. pose proof (norm_nonneg (cross (B -v A) (C -v A))). lra. Qed.

(* the quad area is the mean of the areas of its two triangulations *)
Lemma quad_area_def (A B C D : V3) :
  g_quad_area Rops A B C D =
  ((g_triangle_area Rops A B C + g_triangle_area Rops A C D) + (g_triangle_area Rops B C D + g_triangle_area Rops B D A)) / 2.
Proof. unfold g_quad_area. cbn [oZ opos Rops odiv oadd omul o1]. field. Qed.

(* Sarrus = triple product *)
Lemma det3_def (A B C : V3) : g_det3 Rops A B C = dotR A (cross B C).
Proof. dvec A. dvec B. dvec C. unfR. ring. Qed.

Lemma oabs_Rabs (x : R) : oabs Rops x = Rabs x.
Proof.
  unfold oabs, Rops, Rleb. cbn [oleb o0 osub]. destruct (Rle_dec 0 x) as [H|H].
  - now rewrite Rabs_right by lra.
  - rewrite Rabs_left by lra. ring.
Qed.

Lemma cell_volume_def (A B C D : V3) :
  6 * g_cell_volume Rops A B C D = Rabs (dotR (A -v D) (cross (B -v D) (C -v D))).
Proof.
  unfold g_cell_volume. rewrite oabs_Rabs, det3_def. cbn [oZ opos Rops odiv oadd omul o1]. field.
Qed.

(* the pair handed to atan2: (cos-part, sin-part) = (u.v, |u x v|) *)
Lemma angle3_def (A B C : V3) :
  g_angle3 Rops A B C = (dotR (A -v B) (C -v B), norm Rops (cross (A -v B) (C -v B))).
Proof. reflexivity. Qed.

Lemma angle3_modulus (A B C : V3) :
  fst (g_angle3 Rops A B C) * fst (g_angle3 Rops A B C) + snd (g_angle3 Rops A B C) * snd (g_angle3 Rops A B C)
  = n2 (A -v B) * n2 (C -v B).
Proof. rewrite angle3_def. cbn [fst snd]. rewrite norm_sq, lagrange. ring. Qed.

Lemma angle3_sin_nonneg (A B C : V3) : 0 <= snd (g_angle3 Rops A B C).
Proof. rewrite angle3_def. apply norm_nonneg. Qed.

(* scaling of vectors by nonzero reals *)
Lemma cross_vdiv (u w : V3) (a b : R) : a <> 0 -> b <> 0 ->
  cross (vdiv Rops u a) (vdiv Rops w b) = vdiv Rops (cross u w) (a * b).
Proof. intros. dvec u. dvec w. unfR. apply vec_eq3; field; split; assumption. Qed.
Lemma n2_vdiv (v : V3) (k : R) : k <> 0 -> n2 (vdiv Rops v k) = n2 v / (k * k).
Proof. intros. dvec v. unfR. field; assumption. Qed.
Lemma dot_vdiv (u w : V3) (a b : R) : a <> 0 -> b <> 0 ->
  dotR (vdiv Rops u a) (vdiv Rops w b) = dotR u w / (a * b).
Proof. intros. dvec u. dvec w. unfR. field; split; assumption. Qed.

Lemma norm_vdiv (v : V3) (k : R) : 0 < k -> norm Rops (vdiv Rops v k) = norm Rops v / k.
Proof.
  intros Hk. rewrite !norm_unfold. rewrite n2_vdiv by lra.
  rewrite sqrt_div_alt by nra. rewrite sqrt_square by lra. reflexivity.
Qed.

(* the code computes cos/sin of the NORMALISED vectors; for a non-degenerate corner this is (u.v)/|u x v| *)
Lemma cotan_def (A B C : V3) :
  0 < n2 (cross (A -v B) (C -v B)) ->
  g_cotan Rops A B C = dotR (A -v B) (C -v B) / norm Rops (cross (A -v B) (C -v B)).
Proof.
  intros Hc. set (u := A -v B) in *. set (w := C -v B) in *.
  assert (Hu : 0 < n2 u /\ 0 < n2 w).
  { pose proof (lagrange u w) as L. pose proof (n2_nonneg u). pose proof (n2_nonneg w).
    assert (0 <= dotR u w * dotR u w) by nra. split; nra. }
  destruct Hu as [Hu Hw]. pose proof (norm_pos u Hu) as Pu. pose proof (norm_pos w Hw) as Pw.
  pose proof (norm_pos _ Hc) as Pc.
  unfold g_cotan. cbv zeta. fold u w. unfold normalized. change (g_norm Rops) with (norm Rops).
  rewrite cross_vdiv, dot_vdiv by lra. rewrite norm_vdiv by nra.
  cbn [Rops odiv]. field. repeat split; lra.
Qed.

Lemma cotan_sym (A B C : V3) : g_cotan Rops A B C = g_cotan Rops C B A.
Proof.
  unfold g_cotan. cbv zeta. change (g_norm Rops) with (norm Rops). rewrite !norm_unfold. rewrite cross_anti, dot_sym. reflexivity.
Qed.

(* ---------------------------------------------------------------- attributes *)
Lemma edge_middle_def (A B : V3) :
  g_edge_middle Rops A B = ((vx A + vx B) / 2, (vy A + vy B) / 2, (vz A + vz B) / 2).
Proof. dvec A. dvec B. unfR. apply vec_eq3; field. Qed.

(* unit normal of the plane through the first three vertices, counter-clockwise *)
Lemma face_normal_def (A B C : V3) :
  g_face_normal Rops A B C = vdiv Rops (cross (B -v A) (C -v A)) (norm Rops (cross (B -v A) (C -v A))).
Proof. reflexivity. Qed.

Lemma face_normal_unit (A B C : V3) : 0 < n2 (cross (B -v A) (C -v A)) -> n2 (g_face_normal Rops A B C) = 1.
Proof.
  intros H. rewrite face_normal_def. pose proof (norm_pos _ H). rewrite n2_vdiv by lra. rewrite norm_sq. field. lra.
Qed.

Lemma dot_vdiv_l (u w : V3) (a : R) : a <> 0 -> dotR (vdiv Rops u a) w = dotR u w / a.
Proof. intros. dvec u. dvec w. unfR. field; assumption. Qed.

Lemma face_normal_orth (A B C : V3) : 0 < n2 (cross (B -v A) (C -v A)) ->
  dotR (g_face_normal Rops A B C) (B -v A) = 0 /\ dotR (g_face_normal Rops A B C) (C -v A) = 0.
Proof.
  intros H. rewrite face_normal_def. pose proof (norm_pos _ H).
  rewrite !dot_vdiv_l by lra. rewrite cross_orth_l, cross_orth_r. split; field; lra.
Qed.

(* cotangent table: corner 3i+k holds the cotangent of the angle AT vertex k of face i *)
Lemma cot_face_def (A B C : V3) :
  g_cot_stride = 3%Z /\
  g_cot_face Rops A B C = [g_cotan Rops C A B; g_cotan Rops A B C; g_cotan Rops B C A].
Proof. split; reflexivity. Qed.

(* cotan_weights: in a triangle whose first corner is `first`, the corner picked for the half-edge with local
   indices (iA, iB) is the corner of the THIRD vertex, and its cotangent is halved *)
Lemma cw_corner_def (k : nat) (first iA iB : Z) :
  (k < 2)%nat -> (0 <= iA < 3)%Z -> (0 <= iB < 3)%Z -> iA <> iB ->
  exists j, (0 <= j < 3)%Z /\ j <> iA /\ j <> iB /\ g_cw_corner k first iA iB = (first + j)%Z.
Proof.
  intros Hk HA HB Hne. exists (3 - iA - iB)%Z.
  destruct k as [|[|k]]; [| |lia]; cbn [g_cw_corner]; repeat split; lia.
Qed.
Lemma cw_term_def (k : nat) (x : R) : (k < 2)%nat -> g_cw_term Rops k x = x / 2.
Proof.
  intros Hk. destruct k as [|[|k]]; [| |lia]; cbn [g_cw_term oZ opos Rops odiv oadd omul o1]; field.
Qed.
Lemma cw_calls_def : g_cw_calls = [(false, false); (true, true)].
Proof. reflexivity. Qed.

Lemma corner_vertices_def (F : list Z) (n i : Z) :
  g_corner_vertices F n i = (znth F ((i - 1) mod n) 0%Z, znth F i 0%Z, znth F ((i + 1) mod n) 0%Z).
Proof. reflexivity. Qed.
Lemma corner_angle_def (p v q : V3) : g_corner_angle Rops p v q = g_angle3 Rops p v q.
Proof. reflexivity. Qed.

Lemma defect_consts (pi d a : R) (onb zb : bool) :
  g_defect_init Rops pi = 2 * pi /\ g_defect_border Rops false pi = pi /\ g_defect_border Rops true pi = 0 /\
  g_defect_skip onb zb = (onb && zb)%bool /\ g_defect_step Rops d a = d - a.
Proof. repeat split. cbn [g_defect_init oZ opos Rops omul oadd o1]. ring. Qed.

Lemma euler_def (v e f : Z) : g_euler v e f = (v - e + f)%Z.
Proof. reflexivity. Qed.

Lemma degree_ends_def (a b : Z) : g_degree_ends a b = [a; b].
Proof. reflexivity. Qed.
