(* C07 - invariance / equivariance of every formula under a rigid motion p -> R p + t (R^T R = I, det R = 1)
   and under a uniform scale p -> s p (s > 0). *)
From Coq Require Import ZArith List Bool Reals Lra Psatz Nsatz Lia.
Require Import MV.Lib.Base MV.C07.Model MV.C07.Gen MV.C07.Mesh MV.C07.Proofs_Base.
Import ListNotations.
Open Scope R_scope.

(* ---------------------------------------------------------------- list plumbing *)
Lemma znth_map_in {A B} (f : A -> B) (l : list A) (i : Z) (d : A) (d' : B) :
  (0 <= i < zlen l)%Z -> znth (map f l) i d' = f (znth l i d).
Proof.
  intros H. unfold znth, zlen in *. destruct (i <? 0)%Z eqn:E; [lia|].
  rewrite nth_indep with (d' := f d) by (rewrite map_length; lia). apply map_nth.
Qed.

Lemma zlen_map {A B} (f : A -> B) (l : list A) : zlen (map f l) = zlen l.
Proof. unfold zlen. now rewrite map_length. Qed.

Lemma fold_left_ext_in {A B} (f g : A -> B -> A) (l : list B) (a : A) :
  (forall acc x, In x l -> f acc x = g acc x) -> fold_left f l a = fold_left g l a.
Proof.
  revert a. induction l as [|x l IH]; intros a H; [reflexivity|]. cbn.
  rewrite H by now left. apply IH. intros. apply H. now right.
Qed.

(* ---------------------------------------------------------------- a rotation matrix and a translation *)
Record rotation := mkrot {
  r11 : R; r12 : R; r13 : R; r21 : R; r22 : R; r23 : R; r31 : R; r32 : R; r33 : R;
  o11 : r11 * r11 + r21 * r21 + r31 * r31 = 1;
  o22 : r12 * r12 + r22 * r22 + r32 * r32 = 1;
  o33 : r13 * r13 + r23 * r23 + r33 * r33 = 1;
  o12 : r11 * r12 + r21 * r22 + r31 * r32 = 0;
  o13 : r11 * r13 + r21 * r23 + r31 * r33 = 0;
  o23 : r12 * r13 + r22 * r23 + r32 * r33 = 0;
  det1 : r11 * (r22 * r33 - r23 * r32) - r12 * (r21 * r33 - r23 * r31) + r13 * (r21 * r32 - r22 * r31) = 1
}.

Definition rot (Q : rotation) (p : V3) : V3 :=
  (r11 Q * vx p + r12 Q * vy p + r13 Q * vz p,
   r21 Q * vx p + r22 Q * vy p + r23 Q * vz p,
   r31 Q * vx p + r32 Q * vy p + r33 Q * vz p).
Definition rigid (Q : rotation) (t : V3) (p : V3) : V3 := rot Q p +v t.

Ltac drot Q :=
  let a := fresh "a" in let b := fresh "b" in let c := fresh "c" in let d := fresh "d" in let e := fresh "e" in
  let f := fresh "f" in let g := fresh "g" in let h := fresh "h" in let i := fresh "i" in
  destruct Q as [a b c d e f g h i ? ? ? ? ? ? ?]; unfold rigid, rot; cbn [r11 r12 r13 r21 r22 r23 r31 r32 r33] in *.

Section Rigid.
Variable Q : rotation.
Variable t : V3.
Notation rt := (rot Q).
Notation rg := (rigid Q t).

Lemma rigid_sub (a b : V3) : rg a -v rg b = rt (a -v b).
Proof. dvec a. dvec b. dvec t. drot Q. unfR. apply vec_eq3; ring. Qed.

Lemma rot_add (a b : V3) : rt (a +v b) = rt a +v rt b.
Proof. dvec a. dvec b. drot Q. unfR. apply vec_eq3; ring. Qed.

Lemma rot_vdiv (a : V3) (k : R) : rt (vdiv Rops a k) = vdiv Rops (rt a) k.
Proof. dvec a. drot Q. unfR. unfold Rdiv. apply vec_eq3; ring. Qed.

Lemma rot_vscale (a : V3) (k : R) : rt (vscale Rops k a) = vscale Rops k (rt a).
Proof. dvec a. drot Q. unfR. apply vec_eq3; ring. Qed.

Lemma dot_rot (u v : V3) : dotR (rt u) (rt v) = dotR u v.
Proof. dvec u. dvec v. drot Q. unfR. nsatz. Qed.

Lemma n2_rot (u : V3) : n2 (rt u) = n2 u.
Proof. apply dot_rot. Qed.

Lemma norm_rot (u : V3) : norm Rops (rt u) = norm Rops u.
Proof. rewrite !norm_unfold, n2_rot. reflexivity. Qed.

Lemma cross_rot (u v : V3) : cross (rt u) (rt v) = rt (cross u v).
Proof. dvec u. dvec v. drot Q. unfR. apply vec_eq3; nsatz. Qed.

Lemma normalized_rot (u : V3) : normalized Rops (rt u) = rt (normalized Rops u).
Proof. unfold normalized. now rewrite norm_rot, rot_vdiv. Qed.

Lemma det3_rot (a b c : V3) : g_det3 Rops (rt a) (rt b) (rt c) = g_det3 Rops a b c.
Proof. rewrite !det3_def, cross_rot. apply dot_rot. Qed.

(* lengths, areas, angle pairs, cotangents, volumes: invariant *)
Lemma distance_rigid (A B : V3) : g_distance Rops (rg A) (rg B) = g_distance Rops A B.
Proof. unfold g_distance. change (g_norm Rops) with (norm Rops). now rewrite rigid_sub, norm_rot. Qed.

Lemma triangle_area_rigid (A B C : V3) : g_triangle_area Rops (rg A) (rg B) (rg C) = g_triangle_area Rops A B C.
Proof. rewrite !triangle_area_def, !rigid_sub, cross_rot, norm_rot. reflexivity. Qed.

Lemma quad_area_rigid (A B C D : V3) : g_quad_area Rops (rg A) (rg B) (rg C) (rg D) = g_quad_area Rops A B C D.
Proof. rewrite !quad_area_def, !triangle_area_rigid. reflexivity. Qed.

Lemma angle3_rigid (A B C : V3) : g_angle3 Rops (rg A) (rg B) (rg C) = g_angle3 Rops A B C.
Proof. rewrite !angle3_def, !rigid_sub, cross_rot, norm_rot, dot_rot. reflexivity. Qed.

Lemma cotan_rigid (A B C : V3) : g_cotan Rops (rg A) (rg B) (rg C) = g_cotan Rops A B C.
Proof.
  unfold g_cotan. cbv zeta. change (g_norm Rops) with (norm Rops).
  rewrite !rigid_sub, !normalized_rot, cross_rot, norm_rot, dot_rot. reflexivity.
Qed.

Lemma cell_volume_rigid (A B C D : V3) : g_cell_volume Rops (rg A) (rg B) (rg C) (rg D) = g_cell_volume Rops A B C D.
Proof. unfold g_cell_volume. now rewrite !rigid_sub, det3_rot. Qed.

(* normals rotate, midpoints and barycentres move with the mesh *)
Lemma face_normal_rigid (A B C : V3) : g_face_normal Rops (rg A) (rg B) (rg C) = rt (g_face_normal Rops A B C).
Proof. unfold g_face_normal. now rewrite !rigid_sub, cross_rot, normalized_rot. Qed.

Lemma edge_middle_rigid (A B : V3) : g_edge_middle Rops (rg A) (rg B) = rg (g_edge_middle Rops A B).
Proof. dvec A. dvec B. dvec t. drot Q. unfR. apply vec_eq3; field. Qed.

(* sum of moved points: R (sum) + n t *)
Lemma vsum_rigid_gen (l : list V3) (acc : V3) (k : R) :
  fold_left (vadd Rops) (map rg l) (rt acc +v vscale Rops k t)
  = rt (fold_left (vadd Rops) l acc) +v vscale Rops (k + INR (length l)) t.
Proof.
  revert acc k. induction l as [|p l IH]; intros acc k.
  - cbn. f_equal. dvec t. unfR. apply vec_eq3; ring.
  - cbn [map fold_left length].
    replace (rt acc +v vscale Rops k t +v rg p) with (rt (acc +v p) +v vscale Rops (k + 1) t).
    + rewrite IH. f_equal. rewrite S_INR. dvec t. unfR. apply vec_eq3; ring.
    + rewrite rot_add. unfold rigid. generalize (rt acc) (rt p). intros u w. dvec u. dvec w. dvec t. unfR.
      apply vec_eq3; ring.
Qed.

Lemma vsum_rigid (l : list V3) :
  vsum Rops (map rg l) = rt (vsum Rops l) +v vscale Rops (INR (length l)) t.
Proof.
  unfold vsum. pose proof (vsum_rigid_gen l (vzero Rops) 0) as H.
  replace (rt (vzero Rops) +v vscale Rops 0 t) with (vzero Rops) in H.
  - rewrite H. f_equal. f_equal. ring.
  - dvec t. drot Q. unfR. apply vec_eq3; ring.
Qed.

Lemma zlen_INR {A} (l : list A) : IZR (zlen l) = INR (length l).
Proof. unfold zlen. now rewrite <- INR_IZR_INZ. Qed.

Lemma mean_rigid (l : list V3) : l <> [] ->
  vdiv Rops (vsum Rops (map rg l)) (oZ Rops (zlen (map rg l))) = rg (vdiv Rops (vsum Rops l) (oZ Rops (zlen l))).
Proof.
  intros Hl. rewrite zlen_map, vsum_rigid, !oZ_IZR, zlen_INR.
  assert (Hn : INR (length l) <> 0) by (apply not_0_INR; destruct l; [congruence|discriminate]).
  unfold rigid. rewrite rot_vdiv. generalize (rt (vsum Rops l)) (INR (length l)) Hn. intros u n Hn'.
  dvec u. dvec t. unfR. apply vec_eq3; field; assumption.
Qed.

Lemma face_bary_rigid (l : list V3) : l <> [] -> g_face_bary Rops (map rg l) = rg (g_face_bary Rops l).
Proof. apply mean_rigid. Qed.
Lemma cell_bary_rigid (l : list V3) : l <> [] -> g_cell_bary Rops (map rg l) = rg (g_cell_bary Rops l).
Proof. apply mean_rigid. Qed.
Lemma barycenter_rigid (l : list V3) : l <> [] -> g_barycenter Rops (map rg l) = rg (g_barycenter Rops l).
Proof. apply mean_rigid. Qed.

(* face area, all three branches (triangle / quad / fan about the barycentre) *)
Lemma face_area_rigid (pts : list V3) : g_face_area Rops (map rg pts) = g_face_area Rops pts.
Proof.
  unfold g_face_area. cbv zeta. rewrite zlen_map.
  destruct (zlen pts =? 3)%Z eqn:E3; [|destruct (zlen pts =? 4)%Z eqn:E4].
  - rewrite !(znth_map_in rg pts _ (vzero Rops)) by lia. apply triangle_area_rigid.
  - rewrite !(znth_map_in rg pts _ (vzero Rops)) by lia. apply quad_area_rigid.
  - destruct pts as [|p0 pts']; [reflexivity|]. set (pts := p0 :: pts') in *.
    assert (Hne : pts <> []) by discriminate.
    change (vdiv Rops (vsum Rops (map rg pts)) (oZ Rops (zlen pts)))
      with (vdiv Rops (vsum Rops (map rg pts)) (oZ Rops (zlen pts))).
    replace (vdiv Rops (vsum Rops (map rg pts)) (oZ Rops (zlen pts)))
      with (rg (vdiv Rops (vsum Rops pts) (oZ Rops (zlen pts))))
      by (rewrite <- (mean_rigid pts Hne), zlen_map; reflexivity).
    apply fold_left_ext_in. intros acc i Hi. apply In_zrange in Hi.
    assert (0 < zlen pts)%Z by lia.
    rewrite !(znth_map_in rg pts _ (vzero Rops)) by (try lia; apply Z.mod_pos_bound; lia).
    now rewrite triangle_area_rigid.
Qed.

End Rigid.

(* ---------------------------------------------------------------- uniform scale s > 0 *)
Section Scale.
Variable s : R.
Hypothesis Hs : 0 < s.
Definition scl (p : V3) : V3 := (s * vx p, s * vy p, s * vz p).

Lemma scl_sub (a b : V3) : scl a -v scl b = scl (a -v b).
Proof. dvec a. dvec b. unfold scl. unfR. apply vec_eq3; ring. Qed.
Lemma n2_scl (u : V3) : n2 (scl u) = (s * s) * n2 u.
Proof. dvec u. unfold scl. unfR. ring. Qed.
Lemma norm_scl (u : V3) : norm Rops (scl u) = s * norm Rops u.
Proof. rewrite !norm_unfold, n2_scl. rewrite sqrt_mult by (first [apply n2_nonneg | nra]). now rewrite sqrt_square by lra. Qed.
Lemma dot_scl (u v : V3) : dotR (scl u) (scl v) = (s * s) * dotR u v.
Proof. dvec u. dvec v. unfold scl. unfR. ring. Qed.
Lemma cross_scl (u v : V3) : cross (scl u) (scl v) = scl (scl (cross u v)).
Proof. dvec u. dvec v. unfold scl. unfR. apply vec_eq3; ring. Qed.
Lemma normalized_scl (u : V3) : 0 < n2 u -> normalized Rops (scl u) = normalized Rops u.
Proof.
  intros H. unfold normalized. rewrite norm_scl. pose proof (norm_pos u H). dvec u. unfold scl.
  generalize dependent (norm Rops (ux, uy, uz)). intros k Hk. unfR. apply vec_eq3; field; lra.
Qed.

(* lengths scale by s, areas by s^2, volumes by s^3, the angle pair by s^2 (so the angle is unchanged),
   cotangents and unit normals by 1 *)
Lemma distance_scale (A B : V3) : g_distance Rops (scl A) (scl B) = s * g_distance Rops A B.
Proof. unfold g_distance. change (g_norm Rops) with (norm Rops). now rewrite scl_sub, norm_scl. Qed.
Lemma triangle_area_scale (A B C : V3) : g_triangle_area Rops (scl A) (scl B) (scl C) = s * s * g_triangle_area Rops A B C.
Proof. rewrite !triangle_area_def, !scl_sub, cross_scl, !norm_scl. field. Qed.
Lemma quad_area_scale (A B C D : V3) : g_quad_area Rops (scl A) (scl B) (scl C) (scl D) = s * s * g_quad_area Rops A B C D.
Proof. rewrite !quad_area_def, !triangle_area_scale. field. Qed.
Lemma angle3_scale (A B C : V3) :
  g_angle3 Rops (scl A) (scl B) (scl C) = (s * s * fst (g_angle3 Rops A B C), s * s * snd (g_angle3 Rops A B C)).
Proof. rewrite !angle3_def, !scl_sub, cross_scl, !norm_scl, dot_scl. cbn [fst snd]. f_equal. ring. Qed.
Lemma cotan_scale (A B C : V3) : 0 < n2 (cross (A -v B) (C -v B)) ->
  g_cotan Rops (scl A) (scl B) (scl C) = g_cotan Rops A B C.
Proof.
  intros H. rewrite !cotan_def; [|assumption|].
  - rewrite !scl_sub, cross_scl, !norm_scl, dot_scl. pose proof (norm_pos _ H). field. lra.
  - rewrite !scl_sub, cross_scl, !n2_scl. assert (0 < s * s) by nra.
    apply Rmult_lt_0_compat; [|apply Rmult_lt_0_compat]; assumption.
Qed.
Lemma det3_scale (a b c : V3) : g_det3 Rops (scl a) (scl b) (scl c) = s * s * s * g_det3 Rops a b c.
Proof. dvec a. dvec b. dvec c. unfold scl. unfR. ring. Qed.
Lemma cell_volume_scale (A B C D : V3) :
  g_cell_volume Rops (scl A) (scl B) (scl C) (scl D) = s * s * s * g_cell_volume Rops A B C D.
Proof.
  unfold g_cell_volume. rewrite !scl_sub, det3_scale, !oabs_Rabs. cbn [Rops odiv].
  rewrite Rabs_mult, (Rabs_right (s * s * s)) by nra. unfold Rdiv. ring.
Qed.
Lemma face_normal_scale (A B C : V3) : 0 < n2 (cross (B -v A) (C -v A)) ->
  g_face_normal Rops (scl A) (scl B) (scl C) = g_face_normal Rops A B C.
Proof.
  intros H. unfold g_face_normal. rewrite !scl_sub, cross_scl.
  rewrite normalized_scl; [apply normalized_scl; assumption|]. rewrite n2_scl. assert (0 < s * s) by nra.
  apply Rmult_lt_0_compat; assumption.
Qed.
Lemma edge_middle_scale (A B : V3) : g_edge_middle Rops (scl A) (scl B) = scl (g_edge_middle Rops A B).
Proof. dvec A. dvec B. unfold scl. unfR. apply vec_eq3; field. Qed.

Lemma vsum_scl_gen (l : list V3) (acc : V3) :
  fold_left (vadd Rops) (map scl l) (scl acc) = scl (fold_left (vadd Rops) l acc).
Proof.
  revert acc. induction l as [|p l IH]; intros acc; [reflexivity|]. cbn [map fold_left].
  replace (scl acc +v scl p) with (scl (acc +v p)); [apply IH|].
  dvec acc. dvec p. unfold scl. unfR. apply vec_eq3; ring.
Qed.
Lemma mean_scale (l : list V3) :
  vdiv Rops (vsum Rops (map scl l)) (oZ Rops (zlen (map scl l))) = scl (vdiv Rops (vsum Rops l) (oZ Rops (zlen l))).
Proof.
  rewrite zlen_map. unfold vsum. replace (vzero Rops) with (scl (vzero Rops)) at 1
    by (unfold scl; unfR; apply vec_eq3; ring).
  rewrite vsum_scl_gen. generalize (fold_left (vadd Rops) l (vzero Rops)) (oZ Rops (zlen l)). intros u k.
  dvec u. unfold scl. unfR. unfold Rdiv. apply vec_eq3; ring.
Qed.
End Scale.

(* a concrete rotation (the Pythagorean quaternion (1,2,2,4)/5 ... here the 3-4-5 rotation about z) *)
Definition rot345 : rotation.
Proof.
  refine (mkrot (3/5) (-4/5) 0 (4/5) (3/5) 0 0 0 1 _ _ _ _ _ _ _); field.
Defined.
