(* C07 - mesh-level invariance: every attribute of the moved mesh is the (moved / rotated / unchanged) attribute of
   the original mesh, for every well-formed mesh (indices in range, faces with >= 3 vertices, tetrahedral cells). *)
From Coq Require Import ZArith List Bool Reals Lra Lia.
Require Import MV.Lib.Base MV.C07.Model MV.C07.Gen MV.C07.Mesh MV.C07.Proofs_Base MV.C07.Proofs_Rigid.
Import ListNotations.
Open Scope R_scope.

Definition map_mesh (f : V3 -> V3) (m : mesh R) : mesh R := mkmesh (map f (verts m)) (edges m) (faces m) (cells m).
Definition in_rng (m : mesh R) (i : Z) : Prop := (0 <= i < zlen (verts m))%Z.

Record wf_mesh (m : mesh R) : Prop := mkwf {
  wf_edges : forall e, In e (edges m) -> in_rng m (fst e) /\ in_rng m (snd e);
  wf_faces : forall F, In F (faces m) -> (3 <= zlen F)%Z /\ forall v, In v F -> in_rng m v;
  wf_cells : forall C, In C (cells m) -> zlen C = 4%Z /\ forall v, In v C -> in_rng m v
}.

Lemma znth_In {A} (l : list A) (i : Z) (d : A) : (0 <= i < zlen l)%Z -> In (znth l i d) l.
Proof.
  intros H. unfold znth, zlen in *. destruct (i <? 0)%Z eqn:E; [lia|]. apply nth_In. lia.
Qed.

Lemma znth_map_default {A B} (f : A -> B) (l : list A) (i : Z) (d : A) : znth (map f l) i (f d) = f (znth l i d).
Proof. unfold znth. destruct (i <? 0)%Z; [reflexivity|]. apply map_nth. Qed.

Lemma In_firstn_In {A} (n : nat) (l : list A) (x : A) : In x (firstn n l) -> In x l.
Proof.
  revert l. induction n as [|n IH]; intros [|y l]; cbn; try tauto. intros [H|H]; [now left|right; now apply IH].
Qed.

Section MeshMap.
Variable f : V3 -> V3.
Variable m : mesh R.
Hypothesis WF : wf_mesh m.
Notation m' := (map_mesh f m).

Lemma P_map (i : Z) : in_rng m i -> P Rops m' i = f (P Rops m i).
Proof. intros H. unfold P. cbn [verts map_mesh]. now apply znth_map_in. Qed.

Lemma pts_map (F : list Z) : (forall v, In v F -> in_rng m v) -> pts_of Rops m' F = map f (pts_of Rops m F).
Proof. intros H. unfold pts_of. rewrite map_map. apply map_ext_in. intros v Hv. now apply P_map, H. Qed.

Lemma face_vertex_rng (F : list Z) (i : Z) : In F (faces m) -> (0 <= i < zlen F)%Z -> in_rng m (znth F i 0%Z).
Proof. intros HF Hi. destruct (wf_faces m WF F HF) as [_ H]. apply H. now apply znth_In. Qed.

Lemma cell_vertex_rng (C : list Z) (i : Z) : In C (cells m) -> (0 <= i < 4)%Z -> in_rng m (znth C i 0%Z).
Proof. intros HC Hi. destruct (wf_cells m WF C HC) as [L H]. apply H. apply znth_In. lia. Qed.
End MeshMap.

(* generic commutation of a left fold with a map h of the accumulator *)
Lemma fold_left_commute {A A' B} (F : A -> B -> A) (F' : A' -> B -> A') (h : A -> A') (l : list B) (a : A) :
  (forall acc x, F' (h acc) x = h (F acc x)) -> fold_left F' l (h a) = h (fold_left F l a).
Proof. intros H. revert a. induction l as [|x l IH]; intros a; [reflexivity|]. cbn. rewrite H. apply IH. Qed.

Section MeshRigid.
Variable Q : rotation.
Variable t : V3.
Variable m : mesh R.
Hypothesis WF : wf_mesh m.
Notation rt := (rot Q).
Notation rg := (rigid Q t).
Notation m' := (map_mesh rg m).

Lemma edge_length_rigid : edge_length Rops m' = edge_length Rops m.
Proof.
  unfold edge_length. cbn [edges map_mesh]. apply map_ext_in. intros e He.
  destruct (wf_edges m WF e He) as [H1 H2]. rewrite !P_map by assumption. apply distance_rigid.
Qed.

Lemma edge_middle_point_rigid : edge_middle_point Rops m' = map rg (edge_middle_point Rops m).
Proof.
  unfold edge_middle_point. cbn [edges map_mesh]. rewrite map_map. apply map_ext_in. intros e He.
  destruct (wf_edges m WF e He) as [H1 H2]. rewrite !P_map by assumption. apply edge_middle_rigid.
Qed.

Lemma face_area_mesh_rigid : face_area Rops m' = face_area Rops m.
Proof.
  unfold face_area. cbn [faces map_mesh]. apply map_ext_in. intros F HF.
  rewrite pts_map by (apply (wf_faces m WF F HF)). apply face_area_rigid.
Qed.

Lemma face_normals_rigid : face_normals Rops m' = map rt (face_normals Rops m).
Proof.
  unfold face_normals. cbn [faces map_mesh]. rewrite map_map. apply map_ext_in. intros F HF.
  destruct (wf_faces m WF F HF) as [L _].
  rewrite !P_map by (apply face_vertex_rng; [assumption..|lia]). apply face_normal_rigid.
Qed.

Lemma pts_nonempty (F : list Z) : (1 <= zlen F)%Z -> pts_of Rops m F <> [].
Proof. unfold zlen, pts_of. destruct F; cbn; [lia|discriminate]. Qed.

Lemma face_barycenter_rigid : face_barycenter Rops m' = map rg (face_barycenter Rops m).
Proof.
  unfold face_barycenter. cbn [faces map_mesh]. rewrite map_map. apply map_ext_in. intros F HF.
  destruct (wf_faces m WF F HF) as [L H]. rewrite pts_map by assumption. apply face_bary_rigid, pts_nonempty. lia.
Qed.

Lemma corner_pairs_rigid : corner_pairs Rops m' = corner_pairs Rops m.
Proof.
  unfold corner_pairs. cbn [faces map_mesh].
  assert (E : forall F, In F (faces m) -> face_corner_pairs Rops m' F = face_corner_pairs Rops m F).
  { intros F HF. unfold face_corner_pairs. cbv zeta. apply map_ext_in. intros i Hi. apply In_zrange in Hi.
    destruct (wf_faces m WF F HF) as [L _]. rewrite corner_vertices_def.
    rewrite !P_map by (apply face_vertex_rng; [assumption..|try lia; apply Z.mod_pos_bound; lia]).
    rewrite !corner_angle_def. apply angle3_rigid. }
  induction (faces m) as [|F l IH]; [reflexivity|]. cbn [flat_map].
  rewrite E by now left. f_equal. apply IH. intros. apply E. now right.
Qed.

Lemma cotangent_rigid : cotangent Rops m' = cotangent Rops m.
Proof.
  unfold cotangent. cbn [faces map_mesh].
  assert (E : forall F, In F (faces m) ->
     g_cot_face Rops (P Rops m' (znth F 0 0%Z)) (P Rops m' (znth F 1 0%Z)) (P Rops m' (znth F 2 0%Z))
     = g_cot_face Rops (P Rops m (znth F 0 0%Z)) (P Rops m (znth F 1 0%Z)) (P Rops m (znth F 2 0%Z))).
  { intros F HF. destruct (wf_faces m WF F HF) as [L _].
    rewrite !P_map by (apply face_vertex_rng; [assumption..|lia]).
    unfold g_cot_face. now rewrite !cotan_rigid. }
  induction (faces m) as [|F l IH]; [reflexivity|]. cbn [flat_map].
  rewrite E by now left. f_equal. apply IH. intros. apply E. now right.
Qed.

Lemma cotan_weights_rigid : cotan_weights Rops m' = cotan_weights Rops m.
Proof. unfold cotan_weights. cbv zeta. rewrite cotangent_rigid. reflexivity. Qed.

Lemma cell_volume_mesh_rigid : cell_volume Rops m' = cell_volume Rops m.
Proof.
  unfold cell_volume. cbn [cells map_mesh]. apply map_ext_in. intros C HC.
  rewrite !P_map by (apply cell_vertex_rng; [assumption..|lia]). apply cell_volume_rigid.
Qed.

Lemma cell_barycenter_rigid : cell_barycenter Rops m' = map rg (cell_barycenter Rops m).
Proof.
  unfold cell_barycenter. cbn [cells map_mesh]. rewrite map_map. apply map_ext_in. intros C HC.
  destruct (wf_cells m WF C HC) as [L H]. rewrite pts_map by assumption. apply cell_bary_rigid, pts_nonempty. lia.
Qed.

(* degree, border flags, angle defects and the Euler characteristic do not look at the coordinates *)
Lemma degree_rigid : degree m' = degree m.
Proof. unfold degree. cbn [edges verts map_mesh]. now rewrite map_length. Qed.
Lemma border_flags_rigid : border_flags m' = border_flags m.
Proof. unfold border_flags. cbn [edges faces verts map_mesh]. now rewrite zlen_map. Qed.
Lemma angle_defects_rigid zb pi ang : angle_defects Rops zb pi ang m' = angle_defects Rops zb pi ang m.
Proof. unfold angle_defects. rewrite border_flags_rigid. reflexivity. Qed.
Lemma euler_rigid : euler_characteristic m' = euler_characteristic m.
Proof. unfold euler_characteristic. cbn [edges faces verts map_mesh]. now rewrite zlen_map. Qed.

(* global sums and means *)
Lemma mean_edge_length_rigid n : mean_edge_length Rops m' n = mean_edge_length Rops m n.
Proof.
  unfold mean_edge_length. cbn [edges map_mesh]. cbv zeta. f_equal.
  apply fold_left_ext_in. intros acc e He. apply In_firstn_In in He.
  destruct (wf_edges m WF e He) as [H1 H2]. rewrite !P_map by assumption.
  unfold g_mean_edge_length_item. now rewrite rigid_sub, norm_rot.
Qed.
Lemma mean_face_area_rigid n : mean_face_area Rops m' n = mean_face_area Rops m n.
Proof. unfold mean_face_area. rewrite face_area_mesh_rigid. reflexivity. Qed.
Lemma mean_cell_volume_rigid n : mean_cell_volume Rops m' n = mean_cell_volume Rops m n.
Proof. unfold mean_cell_volume. rewrite cell_volume_mesh_rigid. reflexivity. Qed.
Lemma total_area_rigid : total_area Rops m' = total_area Rops m.
Proof. unfold total_area. now rewrite face_area_mesh_rigid. Qed.
Lemma barycenter_mesh_rigid : verts m <> [] -> barycenter Rops m' = rg (barycenter Rops m).
Proof. intros H. unfold barycenter. cbn [verts map_mesh]. now apply barycenter_rigid. Qed.

(* vertex normals rotate with the mesh, for the three weightings *)
Lemma interp_f2v_rot (w : weighting) (area ang : list R) (fattr : list V3) :
  interpolate_faces_to_vertices Rops (vzero Rops) (vadd Rops) (vscale Rops) (vdiv Rops) w area ang m' (map rt fattr)
  = map rt (interpolate_faces_to_vertices Rops (vzero Rops) (vadd Rops) (vscale Rops) (vdiv Rops) w area ang m fattr).
Proof.
  unfold interpolate_faces_to_vertices. cbn [faces verts map_mesh]. cbv zeta. rewrite zlen_map, map_map.
  apply map_ext. intros v.
  assert (Z0 : rt (vzero Rops) = vzero Rops) by (drot Q; unfR; apply vec_eq3; ring).
  assert (NTH : forall i, znth (map rt fattr) i (vzero Rops) = rt (znth fattr i (vzero Rops))).
  { intros i. rewrite <- Z0 at 1. apply znth_map_default. }
  set (cv := corners_at _ v).
  destruct w.
  - unfold g_f2v_uniform_fin. rewrite rot_vdiv. f_equal. rewrite <- Z0 at 1.
    apply fold_left_commute. intros acc x. now rewrite NTH, rot_add.
  - unfold g_f2v_area_fin. rewrite rot_vdiv.
    pose (h := fun p : V3 * R => (rt (fst p), snd p)).
    match goal with
    | |- vdiv Rops (fst (fold_left ?F' cv ?a)) _ = vdiv Rops (rt (fst (fold_left ?F cv ?a))) _ =>
        assert (E : fold_left F' cv a = h (fold_left F cv a))
    end.
    { replace (vzero Rops, o0 Rops) with (h (vzero Rops, o0 Rops)) at 1 by (unfold h; cbn [fst snd]; now rewrite Z0).
      apply fold_left_commute. intros [acc tot] x. unfold h. cbn [fst snd]. unfold g_f2v_area_acc, g_f2v_area_tot.
      now rewrite NTH, rot_add, rot_vscale. }
    rewrite E. reflexivity.
  - unfold g_f2v_angle_fin. rewrite rot_vdiv.
    pose (h := fun p : V3 * R => (rt (fst p), snd p)).
    match goal with
    | |- vdiv Rops (fst (fold_left ?F' cv ?a)) _ = vdiv Rops (rt (fst (fold_left ?F cv ?a))) _ =>
        assert (E : fold_left F' cv a = h (fold_left F cv a))
    end.
    { replace (vzero Rops, o0 Rops) with (h (vzero Rops, o0 Rops)) at 1 by (unfold h; cbn [fst snd]; now rewrite Z0).
      apply fold_left_commute. intros [acc tot] x. unfold h. cbn [fst snd]. unfold g_f2v_angle_acc, g_f2v_angle_tot.
      now rewrite NTH, rot_add, rot_vscale. }
    rewrite E. reflexivity.
  - rewrite <- Z0 at 1. apply fold_left_commute. intros acc x. now rewrite NTH, rot_add.
Qed.

Lemma vertex_normals_rigid (w : weighting) (ang : list R) :
  vertex_normals Rops w ang m' = map rt (vertex_normals Rops w ang m).
Proof.
  unfold vertex_normals. rewrite face_area_mesh_rigid, face_normals_rigid, interp_f2v_rot, !map_map.
  apply map_ext. intros x. unfold g_vertex_normal_finish. apply normalized_rot.
Qed.

End MeshRigid.
