#!/bin/bash
M=/verif/scratch_c07/mut.sh
$M cw_corner mouette/attributes/attr_edges.py "cnr = mesh.connectivity.face_to_first_corner(T)+3-iA-iB
            cw[e] += cot[cnr]/2
        T,iB,iA" "cnr = mesh.connectivity.face_to_first_corner(T)+iA
            cw[e] += cot[cnr]/2
        T,iB,iA"
$M cot_args mouette/attributes/attr_corners.py "cot[3*i+1] = geom.cotan(pA, pB, pC)" "cot[3*i+1] = geom.cotan(pB, pA, pC)"
$M defect_border mouette/attributes/attr_vertices.py "if mesh.is_vertex_on_border(V) and zero_border: continue" "if mesh.is_vertex_on_border(V): continue"
$M interp_area mouette/attributes/interpolate.py "vattr[v] = vattr[v] + fattr[f] * area[f]" "vattr[v] = vattr[v] + fattr[f]"
$M cell_div mouette/attributes/attr_cells.py "abs(det_3x3(pA-pD,pB-pD,pC-pD))/6" "abs(det_3x3(pA-pD,pB-pD,pC-pD))/3"
$M cross_sign mouette/geometry/geometry.py "B[0]*A[2] - B[2] * A[0]," "B[2]*A[0] - B[0] * A[2],"
$M corner_prev mouette/attributes/attr_corners.py "face[(i-1)%n], face[i], face[(i+1)%n]" "face[(i-1)%n], face[i], face[(i+2)%n]"
$M drop_clear mouette/attributes/interpolate.py "    check_argument(\"weight\", weight, str, {'uniform', 'area', 'angle', 'sum'})
    vattr.clear()" "    check_argument(\"weight\", weight, str, {'uniform', 'area', 'angle', 'sum'})"
$M harmless_rename mouette/geometry/geometry.py "    cosine = np.dot(BA,BC)
    sine = norm(cross(BA,BC))
    return cosine/sine" "    cosv = np.dot(BA,BC)
    sinv = norm(cross(BA,BC))
    return cosv/sinv"
$M harmless_reorder mouette/geometry/geometry.py "    s = cross(BA,BC).norm()
    c = dot(BA,BC)
    return math.atan2(s, c)" "    c = dot(BA,BC)
    s = cross(BA,BC).norm()
    return math.atan2(s, c)"
