From Coq Require Import ZArith List Bool Reals Lra Psatz Nsatz.
Require Import MV.Lib.Base MV.C07.Model MV.C07.Gen MV.C07.Mesh.
Import ListNotations.
Open Scope R_scope.

Definition Rleb (a b : R) : bool := if Rle_dec a b then true else false.
Definition Rops : ops R := mkops R 0 1 Rplus Rminus Rmult Rdiv R_sqrt.sqrt Rleb.

Ltac unf := unfold g_triangle_area, g_quad_area, g_cross, g_distance, g_norm, g_det3, g_angle3, g_cotan, g_edge_middle, g_edge_length, g_face_normal, g_cell_volume,
  normalized, norm, norm2, dot, vsub, vadd, vdiv, vscale, vx, vy, vz, Rops in *; cbn [o0 o1 oadd osub omul odiv osqrt oleb fst snd oZ opos] in *.

Lemma vec_eq3 {X} (a b c a' b' c' : X) : a = a' -> b = b' -> c = c' -> (a, b, c) = (a', b', c').
Proof. intros; subst; reflexivity. Qed.

Lemma sumsq_nonneg (a b c : R) : 0 <= a*a + b*b + c*c.
Proof. nra. Qed.

Lemma cross_def (a b : vec R) : g_cross Rops a b =
  (vy a * vz b - vz a * vy b, vz a * vx b - vx a * vz b, vx a * vy b - vy a * vx b).
Proof. destruct a as [[a1 a2] a3], b as [[b1 b2] b3]. unf. apply vec_eq3; ring. Qed.

Lemma tri_area_sq (A B C : vec R) :
  4 * (g_triangle_area Rops A B C)^2 = norm2 Rops (g_cross Rops (vsub Rops B A) (vsub Rops C A)).
Proof.
  destruct A as [[a1 a2] a3], B as [[b1 b2] b3], C as [[c1 c2] c3]. unf.
  match goal with |- context [sqrt ?x] => set (q := x) end.
  assert (0 <= q) by (unfold q; apply sumsq_nonneg).
  replace (4 * (sqrt q / ((1 + 1) * 1))^2) with (sqrt q * sqrt q) by field.
  rewrite sqrt_sqrt by assumption. reflexivity.
Qed.

(* rotation *)
Section Rot.
Variables r11 r12 r13 r21 r22 r23 r31 r32 r33 : R.
Hypothesis o11 : r11*r11 + r21*r21 + r31*r31 = 1.
Hypothesis o22 : r12*r12 + r22*r22 + r32*r32 = 1.
Hypothesis o33 : r13*r13 + r23*r23 + r33*r33 = 1.
Hypothesis o12 : r11*r12 + r21*r22 + r31*r32 = 0.
Hypothesis o13 : r11*r13 + r21*r23 + r31*r33 = 0.
Hypothesis o23 : r12*r13 + r22*r23 + r32*r33 = 0.
Hypothesis det1 : r11*(r22*r33 - r23*r32) - r12*(r21*r33 - r23*r31) + r13*(r21*r32 - r22*r31) = 1.
Definition rot (p : vec R) : vec R :=
  (r11 * vx p + r12 * vy p + r13 * vz p, r21 * vx p + r22 * vy p + r23 * vz p, r31 * vx p + r32 * vy p + r33 * vz p).

Lemma cof11 : r22*r33 - r23*r32 = r11.
Proof. Time nsatz. Qed.
Lemma cross_rot (u v : vec R) : g_cross Rops (rot u) (rot v) = rot (g_cross Rops u v).
Proof.
  destruct u as [[u1 u2] u3], v as [[v1 v2] v3]. unfold rot. unf.
  apply vec_eq3; time nsatz.
Qed.
End Rot.
