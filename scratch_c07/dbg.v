(* C07 - face_circumcenter (the code as repaired by commit 141685d: the plane offset Z*h is kept):
   whenever it returns a point c for a non-degenerate triangle, c lies in the triangle's plane and is equidistant
   from the three vertices. *)
From Coq Require Import ZArith List Bool Reals Lra Psatz Nsatz.
Require Import MV.Lib.Base MV.C07.Model MV.C07.Gen MV.C07.Mesh MV.C07.Proofs_Base.
Import ListNotations.
Open Scope R_scope.

(* ---------------------------------------------------------------- an orthonormal frame *)
Section Frame.
Variables X Y Z : V3.
Hypothesis XX : dotR X X = 1.
Hypothesis YY : dotR Y Y = 1.
Hypothesis ZZ : dotR Z Z = 1.
Hypothesis XY : dotR X Y = 0.
Hypothesis XZ : dotR X Z = 0.
Hypothesis YZ : dotR Y Z = 0.

(* Parseval: three orthonormal vectors of R^3 are complete *)
Lemma parseval (w : V3) : n2 w = dotR X w * dotR X w + dotR Y w * dotR Y w + dotR Z w * dotR Z w.
Proof. dvec X. dvec Y. dvec Z. dvec w. unfR. nsatz. Qed.

Definition combo (sx sy h : R) : V3 := (vscale Rops sx X +v vscale Rops sy Y) +v vscale Rops h Z.

Lemma combo_dots (sx sy h : R) :
  dotR X (combo sx sy h) = sx /\ dotR Y (combo sx sy h) = sy /\ dotR Z (combo sx sy h) = h.
Proof. unfold combo. dvec X. dvec Y. dvec Z. unfR. repeat split; nsatz. Qed.

Lemma dot_sub_r (a b c : V3) : dotR a (b -v c) = dotR a b - dotR a c.
Proof. dvec a. dvec b. dvec c. unfR. ring. Qed.

Lemma combo_dist (sx sy h : R) (v : V3) : dotR Z v = h ->
  n2 (combo sx sy h -v v) = (sx - dotR X v) * (sx - dotR X v) + (sy - dotR Y v) * (sy - dotR Y v).
Proof.
  intros Hv. rewrite parseval, !dot_sub_r. destruct (combo_dots sx sy h) as (-> & -> & ->). rewrite Hv. ring.
Qed.
End Frame.

(* ---------------------------------------------------------------- the basis of a non-degenerate triangle *)
Lemma normalized_unit (v : V3) : 0 < n2 v -> dotR (normalized Rops v) (normalized Rops v) = 1.
Proof.
  intros H. unfold normalized. pose proof (norm_pos v H). change (dotR ?a ?a) with (n2 a).
  rewrite n2_vdiv by lra. rewrite norm_sq. field. lra.
Qed.
Lemma dot_normalized_l (a b : V3) : 0 < n2 a -> dotR (normalized Rops a) b = dotR a b / norm Rops a.
Proof. intros H. unfold normalized. pose proof (norm_pos a H). apply dot_vdiv_l. lra. Qed.
Lemma dot_normalized_r (a b : V3) : 0 < n2 b -> dotR a (normalized Rops b) = dotR a b / norm Rops b.
Proof. intros H. rewrite dot_sym, dot_normalized_l, dot_sym by assumption. reflexivity. Qed.

Lemma cross_vdiv_l (u w : V3) (a : R) : a <> 0 -> cross (vdiv Rops u a) w = vdiv Rops (cross u w) a.
Proof. intros. dvec u. dvec w. unfR. apply vec_eq3; field; assumption. Qed.

Section Basis.
Variables A B C : V3.
Hypothesis ND : 0 < n2 (cross (B -v A) (C -v A)).
Let u := B -v A.
Let w := C -v A.
Let X := fst (fst (g_face_basis Rops A B C)).
Let Y := snd (fst (g_face_basis Rops A B C)).
Let Z := snd (g_face_basis Rops A B C).

Lemma u_pos : 0 < n2 u.
Proof.
  pose proof (lagrange u w) as L. pose proof (n2_nonneg u). pose proof (n2_nonneg w).
  assert (0 <= dotR u w * dotR u w) by nra. fold u w in ND. nra.
Qed.

Lemma X_def : X = normalized Rops u.
Proof. reflexivity. Qed.
Lemma Z_def : Z = normalized Rops (cross X w).
Proof. reflexivity. Qed.
Lemma Y_def : Y = normalized Rops (cross Z X).
Proof. reflexivity. Qed.

Lemma Xw_pos : 0 < n2 (cross X w).
Proof.
  rewrite X_def. unfold normalized. pose proof (norm_pos u u_pos) as Pu. rewrite cross_vdiv_l by lra.
  rewrite n2_vdiv by lra. fold u w in ND. apply Rdiv_lt_0_compat; [exact ND|nra].
Qed.

Lemma XX : dotR X X = 1.
Proof. rewrite X_def. apply normalized_unit, u_pos. Qed.
Lemma ZZ : dotR Z Z = 1.
Proof. rewrite Z_def. apply normalized_unit, Xw_pos. Qed.
Lemma XZ : dotR X Z = 0.
Proof. rewrite Z_def, dot_normalized_r by apply Xw_pos. rewrite dot_sym, cross_orth_l. field. pose proof (norm_pos _ Xw_pos). lra. Qed.
Lemma ZX_unit : n2 (cross Z X) = 1.
Proof. rewrite lagrange. change (n2 Z) with (dotR Z Z). change (n2 X) with (dotR X X). rewrite ZZ, XX, (dot_sym Z X), XZ. ring. Qed.
Lemma YY : dotR Y Y = 1.
Proof. rewrite Y_def. apply normalized_unit. rewrite ZX_unit. lra. Qed.
Lemma XY : dotR X Y = 0.
Proof.
  rewrite Y_def, dot_normalized_r by (rewrite ZX_unit; lra). rewrite dot_sym, cross_orth_r. field.
  assert (0 < norm Rops (cross Z X)) by (apply norm_pos; rewrite ZX_unit; lra). lra.
Qed.
Lemma YZ : dotR Y Z = 0.
Proof.
  rewrite Y_def, dot_normalized_l by (rewrite ZX_unit; lra). rewrite cross_orth_l. field.
  assert (0 < norm Rops (cross Z X)) by (apply norm_pos; rewrite ZX_unit; lra). lra.
Qed.

(* Z is orthogonal to the triangle's plane: the three vertices have the same height *)
Lemma Z_orth_u : dotR Z u = 0.
Proof.
  rewrite Z_def, dot_normalized_l by apply Xw_pos.
  assert (dotR (cross X w) u = 0).
  { rewrite X_def. unfold normalized. pose proof (norm_pos u u_pos). rewrite cross_vdiv_l by lra.
    rewrite dot_vdiv_l by lra. rewrite cross_orth_l. field. lra. }
  rewrite H. field. pose proof (norm_pos _ Xw_pos). lra.
Qed.
Lemma Z_orth_w : dotR Z w = 0.
Proof.
  rewrite Z_def, dot_normalized_l by apply Xw_pos. rewrite cross_orth_r. field. pose proof (norm_pos _ Xw_pos). lra.
Qed.
(* Z is the face normal direction: Z.v = (u x w).v / (|u| |X x w|) *)
Lemma Z_parallel (v : V3) : dotR (cross u w) v = dotR Z v * (norm Rops u * norm Rops (cross X w)).
Proof.
  pose proof (norm_pos u u_pos) as Pu. pose proof (norm_pos _ Xw_pos) as Pn.
  rewrite Z_def, dot_normalized_l by apply Xw_pos.
  rewrite X_def at 1. unfold normalized at 1. rewrite cross_vdiv_l, dot_vdiv_l by lra. field. lra.
Qed.
Lemma Z_height_B : dotR Z B = dotR Z A.
Proof. pose proof Z_orth_u as H. unfold u in H. rewrite dot_sub_r in H. lra. Qed.
Lemma Z_height_C : dotR Z C = dotR Z A.
Proof. pose proof Z_orth_w as H. unfold w in H. rewrite dot_sub_r in H. lra. Qed.
End Basis.

(* ---------------------------------------------------------------- the 2D intersection of the two bisectors *)
Lemma bisectors_2d (x1 y1 x2 y2 x3 y3 sx sy : R) :
  let q1 := (x1, y1) in let q2 := (x2, y2) in let q3 := (x3, y3) in
  let p1 := wdiv Rops (wadd Rops q1 q2) (oZ Rops 2) in
  let p2 := wdiv Rops (wadd Rops q1 q3) (oZ Rops 2) in
  let d1 := wsub Rops q2 q1 in let d2 := wsub Rops q3 q1 in
  let d1' := (snd d1, 0 - fst d1) in let d2' := (snd d2, 0 - fst d2) in
  g_intersect_2lines2D Rops p1 d1' p2 d2' = Some (sx, sy) ->
  (sx - x1) * (sx - x1) + (sy - y1) * (sy - y1) = (sx - x2) * (sx - x2) + (sy - y2) * (sy - y2) /\
  (sx - x1) * (sx - x1) + (sy - y1) * (sy - y1) = (sx - x3) * (sx - x3) + (sy - y3) * (sy - y3).
Proof.
  cbv zeta. unfold g_intersect_2lines2D.
  destruct (oleb Rops _ _) eqn:G; [|discriminate].
  intros E. inversion E as [[Ex Ey]]. clear E.
  assert (D : g_det2 Rops (snd (wsub Rops (x2, y2) (x1, y1)), 0 - fst (wsub Rops (x2, y2) (x1, y1)))
                          (snd (wsub Rops (x3, y3) (x1, y1)), 0 - fst (wsub Rops (x3, y3) (x1, y1))) <> 0).
  { intros Z0. rewrite Z0 in G. rewrite oabs_Rabs, Rabs_R0 in G.
    unfold Rops, Rleb in G. cbn [oleb odiv oZ opos omul oadd o1 o0] in G.
    destruct (Rle_dec _ 0) as [L|L]; [|discriminate].
    assert (0 < 1 / IZR 1000000000000) by (apply Rdiv_lt_0_compat; [lra|apply IZR_lt; reflexivity]).
    rewrite <- oZ_IZR in H. unfold Rops in H. cbn [oZ opos omul oadd o1] in H. lra. }
  unfold g_det2, wsub, wadd, wdiv, wscale, dot2 in *. unfR. cbn [fst snd] in *.
  subst sx sy. split; field; lra.
Qed.

(* ---------------------------------------------------------------- the theorem *)
Theorem circumcenter_equidistant (A B C c : V3) :
  0 < n2 (cross (B -v A) (C -v A)) ->
  g_circumcenter Rops A B C = Some c ->
  n2 (c -v A) = n2 (c -v B) /\ n2 (c -v A) = n2 (c -v C) /\
  dotR (cross (B -v A) (C -v A)) (c -v A) = 0.
Proof.
  intros ND E. unfold g_circumcenter in E.
  pose proof (XX A B C ND) as HXX. pose proof (YY A B C ND) as HYY. pose proof (ZZ A B C ND) as HZZ.
  pose proof (XY A B C ND) as HXY. pose proof (XZ A B C ND) as HXZ. pose proof (YZ A B C ND) as HYZ.
  pose proof (Z_height_B A B C ND) as HB. pose proof (Z_height_C A B C ND) as HC.
  pose proof (Z_parallel A B C ND) as ZP.
  destruct (g_face_basis Rops A B C) as [[X Y] Z] eqn:FB. cbn [fst snd] in *. cbv zeta in E.
  destruct (g_intersect_2lines2D Rops _ _ _ _) as [[sx sy]|] eqn:I; [|discriminate].
  inversion E as [Ec]. clear E. cbn [fst snd] in Ec.
  apply bisectors_2d in I as [I2 I3].
  Show.
Abort.
