(* C07 - the property-level statements assembled from the lemma files. *)
From Coq Require Import ZArith List Bool Reals Lra.
Require Import MV.Lib.Base MV.C07.Model MV.C07.Gen MV.C07.Mesh MV.C07.Proofs_Base.
Import ListNotations.
Open Scope R_scope.

(* Every generated formula equals its textbook expression (all coordinates). *)
Definition definitions_statement : Prop :=
  (forall a b : V3, cross a b = (vy a * vz b - vz a * vy b, vz a * vx b - vx a * vz b, vx a * vy b - vy a * vx b)) /\
  (forall A B : V3, g_edge_length Rops A B =
       sqrt ((vx B - vx A) * (vx B - vx A) + (vy B - vy A) * (vy B - vy A) + (vz B - vz A) * (vz B - vz A))) /\
  (forall A B : V3, g_edge_middle Rops A B = ((vx A + vx B) / 2, (vy A + vy B) / 2, (vz A + vz B) / 2)) /\
  (forall A B C : V3, 0 <= g_triangle_area Rops A B C /\
       4 * (g_triangle_area Rops A B C * g_triangle_area Rops A B C) = n2 (cross (B -v A) (C -v A))) /\
  (forall u v : V3, n2 (cross u v) = n2 u * n2 v - dotR u v * dotR u v) /\
  (forall A B C D : V3, g_quad_area Rops A B C D =
       ((g_triangle_area Rops A B C + g_triangle_area Rops A C D) + (g_triangle_area Rops B C D + g_triangle_area Rops B D A)) / 2) /\
  (forall A B C : V3, 0 < n2 (cross (B -v A) (C -v A)) ->
       g_face_normal Rops A B C = vdiv Rops (cross (B -v A) (C -v A)) (norm Rops (cross (B -v A) (C -v A))) /\
       n2 (g_face_normal Rops A B C) = 1 /\
       dotR (g_face_normal Rops A B C) (B -v A) = 0 /\ dotR (g_face_normal Rops A B C) (C -v A) = 0) /\
  (forall A B C : V3, let p := g_angle3 Rops A B C in
       fst p = dotR (A -v B) (C -v B) /\ 0 <= snd p /\ snd p * snd p = n2 (cross (A -v B) (C -v B)) /\
       fst p * fst p + snd p * snd p = n2 (A -v B) * n2 (C -v B)) /\
  (forall A B C : V3, 0 < n2 (cross (A -v B) (C -v B)) ->
       g_cotan Rops A B C = dotR (A -v B) (C -v B) / norm Rops (cross (A -v B) (C -v B)) /\
       g_cotan Rops A B C = g_cotan Rops C B A) /\
  (forall A B C : V3, g_cot_stride = 3%Z /\
       g_cot_face Rops A B C = [g_cotan Rops C A B; g_cotan Rops A B C; g_cotan Rops B C A]) /\
  (forall (k : nat) (first iA iB : Z) (x : R), (k < 2)%nat -> (0 <= iA < 3)%Z -> (0 <= iB < 3)%Z -> iA <> iB ->
       g_cw_term Rops k x = x / 2 /\
       exists j, (0 <= j < 3)%Z /\ j <> iA /\ j <> iB /\ g_cw_corner k first iA iB = (first + j)%Z) /\
  (forall A B C D : V3, 6 * g_cell_volume Rops A B C D = Rabs (dotR (A -v D) (cross (B -v D) (C -v D)))) /\
  (forall (pi d a : R) (onb zb : bool),
       g_defect_init Rops pi = 2 * pi /\ g_defect_border Rops false pi = pi /\ g_defect_border Rops true pi = 0 /\
       g_defect_skip onb zb = (onb && zb)%bool /\ g_defect_step Rops d a = d - a) /\
  (forall v e f : Z, g_euler v e f = (v - e + f)%Z).

Lemma definitions_proof : definitions_statement.
Proof.
  unfold definitions_statement. repeat apply conj.
  all: match goal with |- ?g => idtac "GOAL" g end.
Abort.
