import time, warnings
import numpy as np, mouette as M
from mouette import attributes as A
t=time.time()
V=np.array([[0,0,0],[2,0,0],[2,2,0],[0,2,0],[1,1,3]],dtype=float)
F=[[0,1,4],[1,2,4],[2,3,4],[3,0,4]]
m=M.mesh.from_arrays(V,F=np.array(F))
print(type(m), list(m.edges), time.time()-t)
print("len", list(A.edge_length(m,persistent=False,dense=False)[e] for e in m.id_edges))
print("area", A.face_area(m).as_array() if hasattr(A.face_area(m),'as_array') else None)
d=A.angle_defects(m)
print([d[v] for v in m.id_vertices], sum(d[v] for v in m.id_vertices))
print([A.cotan_weights(m)[e] for e in m.id_edges])
print(A.vertex_normals(m,interpolation="angle")[4])
print(A.mean_edge_length(m), A.mean_edge_length(m, 100), A.total_area(m), A.barycenter(m), A.mean_face_area(m))
# polygon
V=np.array([[0,0,0],[2,0,0],[3,1,0],[2,2,0],[0,2,0],[5,5,1.]],dtype=float)
Fs=[[0,1,2,3,4],[2,1,5]]
m=M.mesh.RawMeshData(); m.vertices+=list(V); m.faces+=Fs; m=M.mesh.SurfaceMesh(m)
print(list(m.edges), [A.face_area(m)[f] for f in m.id_faces],[A.face_area(m)[f] for f in m.id_faces])
print(A.face_normals(m)[0], A.face_barycenter(m)[0], [A.corner_angles(m)[c] for c in m.id_corners])
va = m.vertices.create_attribute("c", float, dense=False)
fa = m.faces.create_attribute("fc", float, dense=True)
for f in m.id_faces: fa[f]=3.5
for w in ["uniform","area","angle","sum"]:
    out = A.interpolate_faces_to_vertices(m, fa, va, w)
    print(w,[out[v] for v in m.id_vertices])
# tets
V=np.array([[0,0,0],[1,0,0],[0,1,0],[0,0,1],[1,1,1]],dtype=float)
m=M.mesh.from_arrays(V,C=np.array([[0,1,2,3],[1,2,3,4]]))
print(type(m),[A.cell_volume(m)[c] for c in m.id_cells],[A.cell_barycenter(m)[c] for c in m.id_cells],A.mean_cell_volume(m), [A.face_area(m)[f] for f in m.id_faces])
