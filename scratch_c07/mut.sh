#!/bin/bash
# usage: mut.sh <name> <file> <python-expr-old> <new>
name="$1"; file="$2"; old="$3"; new="$4"
cd /tmp/wt-C07 && git checkout -q -- . 
/venv/bin/python - "$file" "$old" "$new" <<'PY'
import sys
p,old,new=sys.argv[1:4]
s=open(p).read()
assert s.count(old)>=1, "pattern not found"
s=s.replace(old,new,1)
open(p,'w').write(s)
PY
[ $? -ne 0 ] && { echo "MUTATION $name: pattern not found"; exit 1; }
start=$(date +%s)
out=$(VERIF_REPO=/tmp/wt-C07 /verif/check C07 2>&1 | grep -v conda.cli)
rc=$?
end=$(date +%s)
echo "=== MUTATION $name  rc=$(echo "$out" | grep -c '^VIOLATION') violations  $((end-start))s"
echo "$out" | grep -E "VIOLATION|->|TRANSLATION|proof build FAILED|obligations" | head -8
cd /tmp/wt-C07 && git checkout -q -- .
